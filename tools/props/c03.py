"""C03 -- emitted operator calls obey the operator calling contract (DESIGN.md 4/C03).

 1. regenerate coq/Generated/C03_gen.v (tools/translate/c03_contract.py, fail closed): templates of
    _create_state_functions / visit_If / visit_While / visit_For, formulas of _get_block_vars,
    _create_loop_options, expression-operator templates, operator signatures (reflective), the arities
    the operator implementations call their callbacks with, the documented signatures / examples
 2. re-check the obligations of coq/Properties/C03
 3. correspondence, evaluated inside Coq:
      static : for every `del` statement, the statements visit_Delete returned == Delete.lower_delete over the generated table;
               for every converted if / while / for of the generated programs, the block variables the
               converter computed (captured by wrapping ControlFlowTransformer methods) -> the model's
               emission (names, getter elements, setter targets, arities, order, nouts, option keys)
               must equal what is parsed from the code the converter really produced
      dynamic: snapshots of the caller's variables / objects at real operator invocations -> the
               model's get / set must return what get_state() / set_state();get_state() really returned
 4. property-level oracle on the real code: instrumented if_stmt / while_stmt / for_stmt / if_exp / and_ /
    or_ / not_ (injected through a PyToPy subclass overriding get_extra_locals) check the contract at every
    dynamic invocation and then delegate to the real operator (with callbacks that read the state again after they ran: the
    getter must stay total while the operator runs); a second run emulates a functional
    backend for `if` (non-outputs are reset to their initial values) to judge "outputs first".  A composite symbol name
    must be resolved through names that are bound in the calling function at the call (it denotes a variable of that function).
"""
import ast
import importlib.util
import inspect
import json
import os
import random
import shutil
import sys
import types

from lib import vlib, pyrt
from gen import progs
from translate import c03_contract

KNOWN_MISSING = 'composite-missing-at-entry'
KNOWN_ORDER = 'composite-resolved-through-later-state-variable'
KNOWN_FORTARGET = 'nouts-for-target-killed-on-loop-exit'
KNOWN_PREV_ITER = 'getter-reads-body-local-bound-only-by-previous-iteration'
KNOWN_TRY_DEF = 'getter-reads-variable-defined-only-inside-earlier-try'
KNOWN_EXCEPT_AS = 'except-as-name-shadows-function-variable'
SHIFT = 4     # module prelude lines in front of the generated function

DIRECTIVE = 'malt.experimental.set_loop_options'
DIRECTIVE_PARAMS = ['parallel_iterations', 'swap_memory', 'maximum_iterations', 'shape_invariants']


def generate():
    text = c03_contract.translate(vlib.REPO)
    vlib.write_if_changed(os.path.join(vlib.COQ, 'Generated', 'C03_gen.v'), text)


# ======================================================================================= programs

class Gen(progs.Gen):
    """progs.Gen extended with composite state (o.v, d['k'], e[x], missing o.w / d['j']) and loop directives."""

    def __init__(self, rnd, opts, stream):
        progs.Gen.__init__(self, rnd, opts)
        self.stream = stream        # 'main' | 'missing' | 'order' | 'scopes' | 'deletes'
        self.kill_log = []          # names deleted so far (stream 'deletes')

    def composite(self):
        pool = ["o.v", "d['k']", "o.u", "d[0]"]
        if self.stream == 'missing':
            pool += ["o.w", "d['j']", "o.w", "d['j']"]
        return self.r.choice(pool)

    # items of dicts / attributes only: a list item whose index is out of range makes the getter raise IndexError (ldu does
    # not catch it) -- lists are outside the modelled class (StateModel.v), see the assumptions of the run
    DEL_COMPOSITES = ["d['k']", 'd[0]', 'o.u', 'o.v', 'e[0]', 'e[1]', 'e[2]', 'e[3]']

    def delete(self, ind, defined):
        """one `del` statement: a name, several names, a composite, or names and composites MIXED in either order (every
        name target must stay bound -- to the Undefined placeholder -- whatever else the statement deletes)"""
        r = self.r
        names = sorted(defined & set(self.vars)) or sorted(defined & set(progs.PARAMS))
        shape = r.choice(['name', 'names', 'mixed', 'mixed', 'mixed', 'composite'])
        if shape == 'composite' or not names:
            tg = [r.choice(self.DEL_COMPOSITES)]
        else:
            k = 1 if shape == 'name' else r.randint(1 if shape == 'mixed' else 2, 2)
            tg = r.sample(names, min(k, len(names)))
            if shape == 'mixed':
                for t in r.sample(self.DEL_COMPOSITES, r.randint(1, 2)):
                    if t not in tg:
                        tg.insert(r.randint(0, len(tg)), t)
        self.emit(ind, 'del %s' % ', '.join(tg))
        self.kill_log += [t for t in tg if t.isidentifier()]
        return defined - set(tg)

    def stmt(self, ind, defined, depth, in_loop, ihf):
        n0 = len(self.kill_log)
        out, falls = self.stmt1(ind, defined, depth, in_loop, ihf)
        # a name deleted somewhere inside a compound statement is not definitely bound after it
        return out - set(self.kill_log[n0:]), falls

    def stmt1(self, ind, defined, depth, in_loop, ihf):
        r = self.r
        c = r.random()
        if self.stream == 'deletes' and c < 0.26 and depth > 0:
            # inside a converted block the names are closure cells shared with the generated state functions
            self.budget -= 1
            return self.delete(ind, defined), True
        if self.stream == 'deletes' and c < 0.40 and depth == 0 and len(self.lines) > 3:
            # a later conditional that carries a (possibly deleted) name in its state
            self.budget -= 1
            v = r.choice(self.vars)
            self.emit(ind, 'if %s:' % self.dexpr(defined))
            self.emit(ind + 1, '%s = %s' % (v, self.texpr(defined)))
            return defined, True
        if c < 0.22:
            self.budget -= 1
            t = self.composite()
            if self.stream == 'missing' or t in ("o.v", "d['k']", "o.u", "d[0]"):
                op = r.choice(['=', '=', '+=']) if t in ("o.v", "d['k']", "o.u", "d[0]") else '='
                self.emit(ind, '%s %s %s' % (t, op, self.texpr(defined)))
                return defined, True
        if c >= 0.22 and c < (0.40 if self.stream == 'scopes' else 0.245) and self.stream in ('scopes', 'main') and depth < 3:
            # a nested function / class body that declares a name of the enclosing function global or nonlocal:
            # the declaration belongs to the nested scope only; the enclosing function's variable stays a local
            self.budget -= 1
            v = r.choice(self.vars)
            u = r.choice([x for x in self.vars if x != v])
            decl = r.choice(['global', 'global', 'nonlocal'])
            self.emit(ind, '%s = %s' % (v, self.texpr(defined)))
            if r.random() < 0.7:
                name = 'g%d' % self.key()
                self.emit(ind, 'def %s():' % name)
                self.emit(ind + 1, '%s %s' % (decl, v))
                self.emit(ind + 1, '%s = T(%d)' % (v, self.key()))
                self.emit(ind + 1, 'return T(%d)' % self.key())
                self.emit(ind, '%s = %s()' % (u, name))
            else:
                self.emit(ind, 'class C%d:' % self.key())
                self.emit(ind + 1, '%s %s' % (decl, v))
                self.emit(ind + 1, '%s = %d' % (v, r.randint(0, 9)))
                self.emit(ind, '%s = T(%d, %s)' % (u, self.key(), v))
            return defined | {v, u}, True
        if self.stream == 'order' and c < 0.34 and defined:
            self.budget -= 1
            v = r.choice(sorted(defined & set(self.vars)) or ['a'])
            if v in self.vars:
                self.emit(ind, 'e[%s] = %s' % (v, self.texpr(defined)))
                self.emit(ind, '%s = %d' % (v, r.randint(0, 3)))
                return defined, True
        return progs.Gen.stmt(self, ind, defined, depth, in_loop, ihf)

    def block(self, ind, defined, depth, in_loop, in_handler_fin, minlen=1):
        last = self.lines[-1].strip() if self.lines else ''
        if (last.startswith('while ') or last.startswith('for ')) and last.endswith(':') and self.r.random() < 0.45:
            ks = self.r.sample(DIRECTIVE_PARAMS, self.r.randint(1, 3))
            args = ', '.join('%s=%s' % (k, self.r.choice(['K1', 'K2', '3', '7', 'True', '(K1, K2)'])) for k in ks)
            self.emit(ind, '%s(%s)' % (DIRECTIVE, args))
        return progs.Gen.block(self, ind, defined, depth, in_loop, in_handler_fin, minlen)


def gen_program(rnd, stream):
    o = progs.Opts(mutation=False, boolops=True, loop_else=False, nested_def=False, except_as=True,
                   max_stmts=rnd.choice([8, 12, 16]), max_depth=3, reads='safe',
                   try_=rnd.random() < 0.4, with_=rnd.random() < 0.3, global_=rnd.random() < 0.25,
                   raise_=rnd.random() < 0.3)
    g = Gen(rnd, o, stream)
    g.emit(0, 'def f(a, b, c, m, o, d, e):')
    if o.global_:
        g.emit(1, 'global G')
    if stream == 'order':
        g.emit(1, 'x = 0')
        g.emit(1, 'y = 1')
        defined = {'a', 'b', 'c', 'x', 'y'}
    elif stream == 'deletes':
        for v in g.vars:
            g.emit(1, '%s = T(%d)' % (v, g.key()))
        defined = {'a', 'b', 'c'} | set(g.vars)
    else:
        defined = {'a', 'b', 'c'}
    defined = g.block(1, defined, 0, False, False, minlen=2)
    if stream == 'deletes':
        # every variable is read at the very end (possibly unbound by then: the run is over), so all of them are live
        # throughout and every statement that binds or deletes one carries it in its state
        defined = defined | set(g.vars)
    reads = ''.join(', ' + v for v in sorted(defined & set(g.vars)))
    g.emit(1, 'return T(%d%s)' % (g.key(), reads))
    return '\n'.join(g.lines) + '\n'


def gen_nested_try(rnd):
    """stream 'tries': two nested try statements with typed handlers; an explicit raise in the inner body (after an if /
    under an if / in a loop) of a type only the OUTER handler catches; a variable the if both reads and writes, read
    again only in the outer handler, and rebound on the normal path (inner handler, statement after the inner try):
    the variable is an output of the if on the executed path through the outer handler"""
    k = [0]

    def K():
        k[0] += 1
        return k[0]
    inner_t, outer_t = rnd.sample(['E0', 'E1', 'E2'], 2)
    v, u = rnd.sample(['x', 'y', 'z', 'w'], 2)
    L = ['def f(a, b, c, m, o, d, e):', '    %s = T(%d, a)' % (v, K()), '    %s = T(%d, b)' % (u, K())]
    wrap = rnd.choice(['', '', 'while', 'for'])
    ind = '    '
    if wrap == 'while':
        L.append(ind + 'while D(%d):' % K())
        ind += '    '
    elif wrap == 'for':
        L.append(ind + 'for i1 in L(%d):' % K())
        ind += '    '
    L += [ind + 'try:', ind + '    try:']
    b = ind + '        '
    L.append(b + 'if D(%d):' % K())
    L.append(b + '    %s = T(%d, %s)' % (v, K(), v) if rnd.random() < 0.8 else b + '    %s = T(%d, a)' % (v, K()))
    if rnd.random() < 0.3:
        L.append(b + '    %s = T(%d, %s)' % (u, K(), u))
    place = rnd.choice(['after', 'after', 'inside', 'guarded'])
    if place == 'inside':
        L.append(b + '    raise %s()' % outer_t)
    elif place == 'after':
        L.append(b + 'raise %s()' % outer_t)
    else:
        L += [b + 'if D(%d):' % K(), b + '    raise %s()' % outer_t]
    if place != 'after':
        L.append(b + '%s = T(%d, %s)' % (u, K(), u))
        if rnd.random() < 0.4:
            L += [b + 'if D(%d):' % K(), b + '    raise %s()' % inner_t]
    L += [ind + '    except %s:' % inner_t, ind + '        %s = T(%d)' % (v, K())]
    if rnd.random() < 0.8:
        L.append(ind + '    %s = T(%d)' % (v, K()))
    if rnd.random() < 0.5:
        L.append(ind + '    %s = T(%d, %s)' % (u, K(), u))
    L.append(ind + 'except %s:' % outer_t)
    L.append(ind + '    ' + rnd.choice(['return T(%d, %s, %s)' % (K(), v, u), '%s = T(%d, %s)' % (u, K(), v),
                                         '%s = T(%d, %s, %s)' % (v, K(), v, u)]))
    if wrap:
        L.append(ind + '    break')
    L.append('    return T(%d, %s, %s)' % (K(), v, u))
    return '\n'.join(L) + '\n'


def gen_closure(rnd):
    """stream 'closures': a local def closing over a state variable; an if (alone or inside a loop) that assigns the
    variable in a branch; the NEXT statement rebinds the variable from a call of the closure (directly, through a sibling
    def, through a helper taking the closure), with no plain read in between: the closure observes the value the branch
    wrote, so the variable is an output of the if"""
    k = [0]

    def K():
        k[0] += 1
        return k[0]
    v, u = rnd.sample(['x', 'y', 'z', 'w'], 2)
    L = ['def f(a, b, c, m, o, d, e):', '    %s = T(%d, a)' % (v, K()), '    %s = T(%d, b)' % (u, K())]
    g = 'g%d' % K()
    L += ['    def %s():' % g, '        return T(%d, %s)' % (K(), v)]
    how = rnd.choice(['direct', 'direct', 'sibling', 'helper'])
    if how == 'sibling':
        sname = 's%d' % K()
        L += ['    def %s():' % sname, '        return %s() + T(%d)' % (g, K())]
        call = '%s()' % sname
    elif how == 'helper':
        hname = 'h%d' % K()
        L += ['    def %s(fn):' % hname, '        return fn()']
        call = '%s(%s)' % (hname, g)
    else:
        call = '%s()' % g
    wrap = rnd.choice(['', '', 'while', 'for'])
    ind = '    '
    if wrap == 'while':
        L.append(ind + 'while D(%d):' % K())
        ind += '    '
    elif wrap == 'for':
        L.append(ind + 'for i1 in L(%d):' % K())
        ind += '    '
    L.append(ind + 'if D(%d):' % K())
    L.append(ind + '    %s = %s' % (v, rnd.choice(['T(%d, a)' % K(), 'T(%d, %s)' % (K(), v), 'T(%d, %s)' % (K(), u)])))
    if rnd.random() < 0.3:
        L.append(ind + '    %s = T(%d, %s)' % (u, K(), u))
    if rnd.random() < 0.3:
        L += [ind + 'else:', ind + '    %s = T(%d)' % (v, K())]
    if rnd.random() < 0.25:
        L.append(ind + '%s = T(%d, b)' % (u, K()))      # a statement that does not touch v in between
    L.append(ind + '%s = %s' % (v, rnd.choice(['%s * 10' % call, 'T(%d, %s)' % (K(), call), '%s + T(%d)' % (call, K())])))
    L.append('    return T(%d, %s, %s)' % (K(), v, u))
    return '\n'.join(L) + '\n'


# index expressions of stream 'indices': (binding of the base name or None for a parameter, the index, containers it is a
# valid index of for a plain store, containers in which the item exists at entry)
INDEX_FORMS = [
    ('p = S(%d)', 'p.i', 'med', 'me'),            # attribute of a record: 0..3
    ('j = 0', 'd[j]', 'med', 'me'),               # item of a dict indexed by a name: d[0] == 1
    ('p = S(%d)', 'e[p.i]', 'ed', ''),            # item indexed by an attribute: 10..13, a fresh key
    ('j = %d %% 4', 'm[j]', 'ed', ''),            # item of a list: 5..8, a fresh key
    (None, 'o.u', 'ed', ''),                      # attribute of a parameter: 9, a fresh key
    (None, 'd[0]', 'med', 'me'),                  # literal index inside the index: 1
]


def gen_indexed(rnd):
    """stream 'indices': a store to an item whose INDEX is itself composite -- an attribute (t[p.i]), an item (t[d[j]]) or
    both (t[e[p.i]]) -- in the body of an if / while / for (alone or inside another loop).  The base name of the index is
      'inside'  first bound by the first statement of that very body: it is a local of the generated body function, the item
                is then no variable of the enclosing function and cannot be part of the statement's state;
      'before'  bound before the statement: the item is a state variable resolved through the enclosing function's name;
      'param'   a parameter of the function.
    A conditional nested in the body may store to the same item again (there the base name is bound in its caller)."""
    k = [0]

    def K():
        k[0] += 1
        return k[0]
    bind, index, valid, existing = rnd.choice(INDEX_FORMS)
    cont = rnd.choice(valid)
    where = 'param' if bind is None else rnd.choice(['inside', 'inside', 'before'])
    if bind is not None and '%d' in bind:
        bind = bind % K()
    item = '%s[%s]' % (cont, index)
    x = rnd.choice(['x', 'y', 'z', 'w'])
    L = ['def f(a, b, c, m, o, d, e):', '    %s = T(%d, a)' % (x, K())]
    ind = '    '
    wrap = rnd.choice(['', '', '', 'while', 'for'])
    if wrap == 'while':
        L.append(ind + 'while D(%d):' % K())
        ind += '    '
    elif wrap == 'for':
        L.append(ind + 'for i1 in L(%d):' % K())
        ind += '    '
    if where == 'before':
        L.append(ind + bind)
    kind = rnd.choice(['if', 'while', 'for'])
    if kind == 'if':
        L.append(ind + 'if D(%d):' % K())
    elif kind == 'while':
        L.append(ind + 'while D(%d, %s):' % (K(), x))
        if rnd.random() < 0.3:
            L.append(ind + '    %s(maximum_iterations=%s)' % (DIRECTIVE, rnd.choice(['3', 'K1'])))
    else:
        L.append(ind + 'for i2 in L(%d):' % K())
    b = ind + '    '
    if where == 'inside':
        L.append(b + bind)
    op = rnd.choice(['=', '=', '+=']) if cont in existing else '='
    stores = [b + '%s %s T(%d, %s)' % (item, op, K(), x), b + '%s = T(%d, %s)' % (x, K(), x)]
    if rnd.random() < 0.5:
        stores.reverse()
    L += stores
    if rnd.random() < 0.4:
        L += [b + 'if D(%d):' % K(), b + '    %s = T(%d, %s)' % (item, K(), x)]
    if kind == 'if' and rnd.random() < 0.3:
        L += [ind + 'else:', ind + '    %s = T(%d)' % (x, K())]
    L.append('    return T(%d, %s)' % (K(), x))
    return '\n'.join(L) + '\n'


CORPUS = [
    # (stream, source) -- hand-written shapes that must always be exercised
    ('main', "def f(a, b, c, m, o, d, e):\n    x = 0\n    if D(1):\n        d['k'] = T(2)\n        o.v = T(3)\n        x = x + 1\n    for y in L(4):\n        " + DIRECTIVE + "(maximum_iterations=3)\n        x += y\n        if D(5, x):\n            break\n    while D(6):\n        " + DIRECTIVE + "(parallel_iterations=K1, swap_memory=True)\n        x += 1\n        for z in L(7):\n            " + DIRECTIVE + "(maximum_iterations=K2)\n            o.v += z\n    return T(8, x)\n"),
    ('main', "def f(a, b, c, m, o, d, e):\n    x = T(1)\n    y = T(2)\n    if D(3):\n        y = x + 1\n        x = 5\n        z = 7\n    else:\n        z = 8\n    w = (T(4) if D(5) else T(6)) + (D(7) and D(8)) + (not D(9)) + (D(10) or D(11))\n    return T(12, y, z, w)\n"),
    ('main', "def f(a, b, c, m, o, d, e):\n    global G\n    x = 1\n    while D(1):\n        G = T(2, x)\n        x += 1\n        if D(3):\n            continue\n        o.v = x\n        if D(4):\n            return T(5, x)\n    return T(6, x)\n"),
    ('main', "def f(a, b, c, m, o, d, e):\n    w = T(1)\n    for w in L(2):\n        if D(3, w):\n            w = T(4, w)\n    return T(5, w)\n"),
    ('scopes', "def f(a, b, c, m, o, d, e):\n    x = T(1)\n    def g1():\n        global x\n        x = T(2)\n        return T(3)\n    for y in L(4):\n        x = x + g1()\n    return T(5, x)\n"),
    ('scopes', "def f(a, b, c, m, o, d, e):\n    x = T(1)\n    z = 0\n    class C1:\n        global x\n        x = 5\n    def g2():\n        nonlocal z\n        z = z + T(2)\n        return T(3)\n    if D(4):\n        x = x + g2()\n        z = z + 1\n    while D(6):\n        z = z + g2()\n    return T(5, x, z)\n"),
    ('tries', "def f(a, b, c, m, o, d, e):\n    x = T(1, a)\n    try:\n        try:\n            if D(2):\n                x = T(3, x)\n            raise E1()\n        except E0:\n            x = T(4)\n        x = T(5)\n    except E1:\n        return T(6, x)\n    return T(7, x)\n"),
    ('closures', "def f(a, b, c, m, o, d, e):\n    x = T(1, a)\n    def g2():\n        return T(3, x)\n    if D(4):\n        x = T(5, a)\n    x = g2() * 10\n    return T(6, x)\n"),
    # `del` inside converted blocks: a name alone, names and composites in one statement (either order), in a branch /
    # in a loop body; later statements carry the (rebound-to-Undefined) names in their state
    ('deletes', "def f(a, b, c, m, o, d, e):\n    x = T(1)\n    y = T(2)\n    if D(3):\n        del x\n    else:\n        del m[0], y\n    if D(4):\n        x = T(5)\n    if D(6):\n        y = T(7)\n    return T(8, x, y)\n"),
    ('deletes', "def f(a, b, c, m, o, d, e):\n    x = T(1)\n    y = T(2)\n    while D(3):\n        if D(4):\n            del x, d['k'], y\n        else:\n            x = T(5)\n    for z in L(6):\n        del o.u, z\n    return T(7, x, y)\n"),
    # items whose index is composite: base name of the index bound inside the body (the item is a local matter of the body) /
    # before the statement (the item is a state variable) / both in one program, list and dict containers
    ('indices', "def f(a, b, c, m, o, d, e):\n    x = T(1, a)\n    for i2 in L(2):\n        p = S(3)\n        e[p.i] = T(4, x)\n        x = T(5, x)\n        if D(6):\n            e[p.i] = T(7, x)\n    return T(8, x)\n"),
    ('indices', "def f(a, b, c, m, o, d, e):\n    x = T(1, a)\n    p = S(2)\n    j = 0\n    while D(3, x):\n        m[p.i] += T(4, x)\n        e[d[j]] = T(5, x)\n        x = T(6, x)\n    if D(7):\n        j = 0\n        m[d[j]] = T(8)\n    return T(9, x)\n"),
    ('missing', "def f(a, b, c, m, o, d, e):\n    if D(1):\n        d['j'] = T(2)\n    if D(3):\n        o.w = T(4)\n    return T(5)\n"),
    ('order', "def f(a, b, c, m, o, d, e):\n    x = 0\n    while D(1):\n        e[x] = T(2, x)\n        x = x + 1\n    return T(3, x)\n"),
]


def corpus_files():
    """corpus/C03/*.py: `# stream: <name>` header, comment lines dropped, the rest is the program"""
    d = os.path.join(vlib.ROOT, 'corpus', 'C03')
    out = []
    for fn in sorted(os.listdir(d)) if os.path.isdir(d) else []:
        if not fn.endswith('.py'):
            continue
        lines = open(os.path.join(d, fn)).read().split('\n')
        stream = 'main'
        for l in lines:
            if l.startswith('# stream:'):
                stream = l.split(':', 1)[1].strip()
        out.append((stream, '\n'.join(l for l in lines if not l.startswith('#')).strip('\n') + '\n'))
    return out


# ======================================================================================= runtime objects

class Obj(object):
    def __init__(self):
        self.v = 7
        self.u = 9

    def __repr__(self):
        return 'Obj(%s)' % ', '.join('%s=%r' % kv for kv in sorted(self.__dict__.items()))


class Slot(object):
    """record the programs of stream 'indices' create (S(k)): .i is an index of the list m and a key of the dict e"""

    def __init__(self, k):
        self.i = k % 4

    def __repr__(self):
        return 'Slot(i=%r)' % (self.i,)


class Sentinel(dict):
    """value written by the write-then-read check: usable as object, container and key"""

    def __init__(self, i):
        dict.__init__(self)
        self.i = i

    __hash__ = object.__hash__

    def __eq__(self, other):
        return self is other

    def __ne__(self, other):
        return self is not other

    def __repr__(self):
        return '<W%d>' % self.i


def fresh_args():
    return [1, 2, 3, [5, 6, 7, 8], Obj(), {'k': 4, 0: 1}, {0: 10, 1: 11, 2: 12, 3: 13}]


# ======================================================================================= monitor

class Monitor(object):
    """The instrumented operators.  mode 'check': contract checks, then delegate.  mode 'functional': for
    if_stmt, after delegating, variables that are not outputs are reset to their initial values (what a
    staging backend does with them)."""

    def __init__(self, ag, op_params):
        self.ag = ag
        self.op_params = op_params
        self.mode = 'check'
        self.failures = []        # (what, detail dict, classify)
        self.invocations = 0
        self.checked_invocations = 0
        self.kinds = {}
        self.containers = []
        self.expected_opts = {}    # original line -> (kind, dict, target text)
        self.source_map = None
        self.loop_keys = {}
        self.dyn_cases = []
        self.dyn_budget = 0
        self.skipped_alias = 0
        self.write_read_checked = 0
        self.rereads = 0
        self.opts_checked = 0
        self.opts_unidentified = 0
        self.Undefined = ag.Undefined
        self.resets = []
        self.program_src = None

    # ---- helpers
    def fail(self, what, detail, classify=None):
        self.failures.append((what, detail, classify))

    def snapshot(self):
        out = []
        for c in self.containers:
            if isinstance(c, dict):
                out.append(('d', [(k if not isinstance(k, Sentinel) else id(k), id(v)) for k, v in c.items()]))
            elif isinstance(c, list):
                out.append(('l', [id(v) for v in c]))
            else:
                out.append(('o', sorted((k, id(v)) for k, v in c.__dict__.items())))
        return out

    def save_containers(self):
        out = []
        for c in self.containers:
            if isinstance(c, dict):
                out.append(dict(c))
            elif isinstance(c, list):
                out.append(list(c))
            else:
                out.append(dict(c.__dict__))
        return out

    def restore_containers(self, saved):
        for c, s in zip(self.containers, saved):
            if isinstance(c, dict):
                dict.clear(c)
                dict.update(c, s)
            elif isinstance(c, list):
                c[:] = s
            else:
                c.__dict__.clear()
                c.__dict__.update(s)

    def same(self, a, b):
        if a is b:
            return True
        if isinstance(a, self.Undefined) and isinstance(b, self.Undefined):
            return object.__getattribute__(a, 'symbol_name') == object.__getattribute__(b, 'symbol_name')
        return False

    def same_tuple(self, a, b):
        return isinstance(a, tuple) and isinstance(b, tuple) and len(a) == len(b) and all(self.same(x, y) for x, y in zip(a, b))

    @staticmethod
    def arity(f):
        try:
            ps = inspect.signature(f).parameters.values()
        except (TypeError, ValueError):
            return None
        if any(p.kind in (p.VAR_POSITIONAL, p.VAR_KEYWORD, p.KEYWORD_ONLY) for p in ps):
            return None
        return len([p for p in ps if p.default is p.empty])

    def is_undef(self, v):
        return isinstance(v, self.Undefined)

    def cells(self, names, frame):
        """storage cell of every state variable: ('var', name) / (id(parent), kind, key) ; None if not resolvable"""
        out = []
        for n in names:
            try:
                e = ast.parse(n, mode='eval').body
                if isinstance(e, ast.Name):
                    out.append(('var', e.id))
                elif isinstance(e, ast.Attribute):
                    p = eval(compile(ast.Expression(e.value), '<c03>', 'eval'), frame.f_globals, frame.f_locals)
                    out.append((id(p), 'attr', e.attr))
                elif isinstance(e, ast.Subscript):
                    p = eval(compile(ast.Expression(e.value), '<c03>', 'eval'), frame.f_globals, frame.f_locals)
                    k = eval(compile(ast.Expression(e.slice), '<c03>', 'eval'), frame.f_globals, frame.f_locals)
                    out.append((id(p), 'item', k if isinstance(k, (int, str)) else id(k)))
                else:
                    return None
            except Exception:  # noqa
                return None
        return out

    @staticmethod
    def later_dependency(names):
        """a composite name mentions a simple state variable positioned after it"""
        for i, n in enumerate(names):
            try:
                e = ast.parse(n, mode='eval').body
            except SyntaxError:
                continue
            if isinstance(e, ast.Name):
                continue
            used = {x.id for x in ast.walk(e) if isinstance(x, ast.Name)}
            if used & set(names[i + 1:]):
                return True
        return False

    def unbound_support(self, names, frame):
        """(symbol name, simple name) for every composite symbol name that is resolved through a simple name which is unbound
        in the caller when the operator is called (no binding at all, or the ag__.Undefined placeholder of a variable that
        is not assigned yet): such a name denotes no variable of the enclosing function.  The generated programs read
        definitely assigned names only, so a support symbol that is a variable of the enclosing function is bound here."""
        out = []
        for nm in names:
            if nm.isidentifier():
                continue
            try:
                e = ast.parse(nm, mode='eval')
            except SyntaxError:
                continue
            for x in ast.walk(e):
                if isinstance(x, ast.Name) and (nm, x.id) not in out:
                    try:
                        v = eval(x.id, frame.f_globals, frame.f_locals)
                    except NameError:
                        out.append((nm, x.id))
                        continue
                    if self.is_undef(v):
                        out.append((nm, x.id))
        return out

    def is_prev_iteration_local(self, exc, frame, names):
        """classifier of the known finding: the getter raised NameError / UnboundLocalError for a simple state
        variable v that (1) is a local variable of the generated loop-body function that issues the operator call
        (a cell variable of that frame, not a parameter), (2) is unbound there at the call, (3) is bound by that body
        only at a later line (i.e. by a previous iteration), and (4) the original statement lies in a loop of the
        original source that assigns v"""
        import dis
        import re
        if not isinstance(exc, NameError):
            return False
        v = getattr(exc, 'name', None)
        if not v:
            m = re.search(r"variable '(\w+)'|name '(\w+)'", str(exc))
            v = (m.group(1) or m.group(2)) if m else None
        co = frame.f_code
        if not v or v not in names or not re.match(r'^loop_body(_\d+)?$', co.co_name):
            return False
        if v not in co.co_cellvars or v in co.co_varnames[:co.co_argcount] or v in frame.f_locals:
            return False
        stores = [i.positions.lineno for i in dis.get_instructions(co)
                  if i.opname in ('STORE_DEREF', 'STORE_FAST') and i.argval == v and i.positions and i.positions.lineno]
        if not stores or min(stores) <= frame.f_lineno:
            return False
        line = self.orig_line(frame)
        if line is None or self.program_src is None:
            return False
        line -= SHIFT
        for loop in ast.walk(ast.parse(self.program_src)):
            if isinstance(loop, (ast.For, ast.While)) and loop.lineno < line <= loop.end_lineno:
                body = ast.Module(body=loop.body, type_ignores=[])
                if any(isinstance(x, ast.Name) and x.id == v and isinstance(x.ctx, ast.Store) for x in ast.walk(body)):
                    return True
        return False

    def is_defined_only_in_earlier_try(self, exc, frame, names):
        """classifier of the known finding: the getter raised NameError / UnboundLocalError for a simple state variable v
        whose every assignment in the original function that textually precedes the statement lies inside a try
        statement (body, handler, else or finally) that ends before the statement: reaching definitions (a may-analysis)
        count such a definition as defined-on-entry, so no ag__.Undefined placeholder is emitted, and try statements
        themselves are not functionalised, so nothing else binds v on the path that skips the assignment"""
        import re
        if not isinstance(exc, NameError):
            return False
        v = getattr(exc, 'name', None)
        if not v:
            m = re.search(r"variable '(\w+)'|name '(\w+)'", str(exc))
            v = (m.group(1) or m.group(2)) if m else None
        line = self.orig_line(frame)
        if not v or v not in names or line is None or self.program_src is None:
            return False
        line -= SHIFT
        tree = ast.parse(self.program_src)
        fn = tree.body[0]
        if v in {a.arg for a in fn.args.args}:
            return False
        if line <= fn.lineno:
            # a guard synthesised by the return lowering (`if not do_return:` around the rest of the function) carries
            # the position of the function itself: then every assignment of v in the function must lie in a try
            line = fn.end_lineno + 1
        tries = [t for t in ast.walk(fn) if isinstance(t, ast.Try) and t.end_lineno < line]
        stores = [x for x in ast.walk(fn) if isinstance(x, ast.Name) and x.id == v and isinstance(x.ctx, ast.Store)
                  and x.lineno < line]
        stores += [h for h in ast.walk(fn) if isinstance(h, ast.ExceptHandler) and h.name == v and h.lineno < line]
        if not stores:
            return False
        return all(any(t.lineno <= x.lineno <= t.end_lineno for t in tries) for x in stores)

    def is_except_as_shadow(self, sup, frame):
        """classifier of the known finding: the simple name `sup` through which a composite symbol name is resolved is
        unbound at the operator call because (1) the original function binds it in an `except ... as sup:` clause,
        (2) it is a PARAMETER of the original function that no statement of the function assigns or deletes (so in the
        original it is bound until such a handler has run), and (3) in the generated code the variable the call site sees
        is not the function's: walking out from the frame that issues the call, the first generated frame that owns
        `sup` (cell or local variable, not a free one) is a generated body function (if_body / else_body / loop_body),
        i.e. the handler clause -- activity analysis isolates its name, so no `nonlocal` is declared -- made the name a
        fresh local of that body function, and that local is unbound."""
        import re
        if self.program_src is None or not isinstance(sup, str) or not sup.isidentifier():
            return False
        fn = ast.parse(self.program_src).body[0]
        if sup not in {a.arg for a in fn.args.args}:
            return False
        if not any(isinstance(h, ast.ExceptHandler) and h.name == sup for h in ast.walk(fn)):
            return False
        if any(isinstance(x, ast.Name) and x.id == sup and not isinstance(x.ctx, ast.Load) for x in ast.walk(fn)):
            return False
        fr, fname = frame, frame.f_code.co_filename
        while fr is not None:
            co = fr.f_code
            if co.co_filename == fname and (sup in co.co_cellvars or sup in co.co_varnames):
                if not re.match(r'^(if_body|else_body|loop_body)(_\d+)?$', co.co_name):
                    return False
                if sup in co.co_varnames[:co.co_argcount + co.co_kwonlyargcount]:
                    return False
                try:
                    v = fr.f_locals[sup]
                except KeyError:
                    return True
                return self.is_undef(v)
            fr = fr.f_back
        return False

    # ---- the contract at one invocation
    def check_state(self, op, frame, get_state, set_state, names, nouts, detail):
        ok = True
        if not (isinstance(names, tuple) and all(isinstance(s, str) for s in names)):
            self.fail('%s: symbol_names is not a tuple of strings' % op, detail)
            return None
        n = len(names)
        if self.arity(get_state) != 0:
            self.fail('%s: get_state does not take exactly 0 arguments' % op, detail)
            ok = False
        if self.arity(set_state) != 1:
            self.fail('%s: set_state does not take exactly 1 argument' % op, detail)
            ok = False
        if not ok:
            return None
        # every symbol name denotes a variable of the enclosing function: the names a composite is resolved through are bound there
        unresolved = self.unbound_support(names, frame)
        shadowed = {sup for _, sup in unresolved if self.is_except_as_shadow(sup, frame)}
        for nm, sup in unresolved:
            self.fail('%s: symbol name %s does not denote a variable of the enclosing function (%s, through which it is '
                      'resolved, is unbound there when the operator is called)' % (op, nm, sup),
                      dict(detail, symbol=nm, unbound_support=sup), KNOWN_EXCEPT_AS if sup in shadowed else None)
        before = self.snapshot()
        try:
            g1 = get_state()
            g2 = get_state()
        except Exception as e:  # noqa
            cls = KNOWN_PREV_ITER if self.is_prev_iteration_local(e, frame, names) else (
                KNOWN_TRY_DEF if self.is_defined_only_in_earlier_try(e, frame, names) else None)
            self.fail('%s: get_state() raised %s' % (op, type(e).__name__), dict(detail, error=str(e)), cls)
            return None
        if not (isinstance(g1, tuple) and len(g1) == n):
            self.fail('%s: get_state() returned %d values for %d symbol names' % (op, len(g1) if isinstance(g1, tuple) else -1, n), detail)
            return None
        if not self.same_tuple(g1, g2):
            self.fail('%s: two consecutive get_state() calls return different tuples' % op, detail)
        if self.snapshot() != before:
            self.fail('%s: get_state() changed an object of the caller' % op, detail)
        # position by position: the value is the value of the named variable in the caller
        missing = []
        for i, nm in enumerate(names):
            composite = not nm.isidentifier()
            try:
                v = eval(nm, frame.f_globals, frame.f_locals)
                found = True
            except (KeyError, AttributeError, NameError, IndexError, TypeError):
                found = False
            if found:
                if not self.same(g1[i], v):
                    self.fail('%s: get_state()[%d] is not the value of %s in the caller' % (op, i, nm), dict(detail, position=i))
            elif composite:
                if not (self.is_undef(g1[i]) and object.__getattribute__(g1[i], 'symbol_name') == nm):
                    self.fail('%s: get_state()[%d] for the unset composite %s is not Undefined(%r)' % (op, i, nm, nm), dict(detail, position=i))
            else:
                self.fail('%s: get_state()[%d]: %s is unbound in the caller' % (op, i, nm), dict(detail, position=i))
            if composite and self.is_undef(g1[i]):
                missing.append(nm)
        if nouts is not None:
            if not (isinstance(nouts, int) and not isinstance(nouts, bool) and 0 <= nouts <= n):
                self.fail('%s: nouts=%r is not within 0..%d' % (op, nouts, n), detail)
        # the known finding is about a key / attribute that does not exist yet in an object the name really designates
        classify_missing = KNOWN_MISSING if missing and not (set(missing) & {nm for nm, _ in unresolved}) else None
        if classify_missing is None and missing and unresolved and all(
                sup in shadowed for nm, sup in unresolved if nm in missing):
            # the unset composites are all resolved through a name hidden by an except clause: writing the Undefined
            # object back through that unbound name raises NameError -- the same finding, not a new one
            classify_missing = KNOWN_EXCEPT_AS
        d2 = dict(detail, missing_composites=missing)
        saved = self.save_containers()
        # wrong-length tuples are rejected
        if n > 0:
            for bad in (g1 + (0,), g1[:-1]):
                try:
                    set_state(bad)
                    self.fail('%s: set_state accepts a tuple of %d values for %d symbols' % (op, len(bad), n), detail)
                    self.restore_containers(saved)
                    try:
                        set_state(g1)
                    except Exception:  # noqa
                        pass
                    self.restore_containers(saved)
                except (ValueError, TypeError):
                    pass
                except Exception as e:  # noqa
                    self.fail('%s: set_state raised %s on a tuple of wrong length' % (op, type(e).__name__), detail)
        # writing back what was just read changes nothing
        try:
            set_state(g1)
            g3 = get_state()
            if self.snapshot() != before or not self.same_tuple(g1, g3):
                self.fail('%s: set_state(get_state()) changed the caller\'s state' % op, d2, classify_missing)
        except Exception as e:  # noqa
            self.fail('%s: set_state(get_state()) raised %s' % (op, type(e).__name__), dict(d2, error=str(e)), classify_missing)
        self.restore_containers(saved)
        # a write followed by a read returns what was written
        cells = self.cells(names, frame)
        if n > 0 and not missing:
            if cells is None or len(set(cells)) != len(cells):
                self.skipped_alias += 1
            else:
                W = tuple(Sentinel(i) for i in range(n))
                cls = KNOWN_ORDER if self.later_dependency(list(names)) else None
                want_dyn = self.dyn_budget > 0
                snap = self.model_snapshot(names, frame) if want_dyn else None
                after = None
                try:
                    set_state(W)
                    r = get_state()
                    after = r
                    self.write_read_checked += 1
                    if not (isinstance(r, tuple) and len(r) == n and all(x is y for x, y in zip(r, W))):
                        self.fail('%s: get_state() after set_state(W) does not return W' % op,
                                  dict(detail, returned=repr(r)), cls)
                except Exception as e:  # noqa
                    self.fail('%s: set_state(W); get_state() raised %s' % (op, type(e).__name__), dict(detail, error=str(e)), cls)
                try:
                    set_state(g1)
                except Exception:  # noqa
                    pass
                self.restore_containers(saved)
                if snap is not None:
                    self.add_dyn_case(snap, names, g1, W, after)
        elif n > 0 and missing and self.dyn_budget > 0:
            snap = self.model_snapshot(names, frame)
            after = None
            try:
                set_state(g1)
                after = get_state()
            except Exception:  # noqa
                after = None
            self.restore_containers(saved)
            if snap is not None:
                self.add_dyn_case(snap, names, g1, g1, after)
        if self.snapshot() != before:
            self.fail('%s: harness could not restore the caller\'s objects' % op, detail)
        return g1

    # ---- the state stays readable while the operator runs
    def reread(self, op, frame, get_state, names, detail, when):
        """What a staging operator does after it ran a callback (collect the outputs of a branch, the loop variables after
        an iteration): read the state again.  The getter must still return one value per symbol name, twice the same."""
        if not (isinstance(names, tuple) and self.arity(get_state) == 0):
            return
        self.rereads += 1
        try:
            g1 = get_state()
            g2 = get_state()
        except Exception as e:  # noqa
            cls = KNOWN_PREV_ITER if self.is_prev_iteration_local(e, frame, names) else (
                KNOWN_TRY_DEF if self.is_defined_only_in_earlier_try(e, frame, names) else None)
            self.fail('%s: get_state() raised %s when the state is read again %s' % (op, type(e).__name__, when),
                      dict(detail, error=str(e), when=when), cls)
            return
        if not (isinstance(g1, tuple) and len(g1) == len(names)):
            self.fail('%s: get_state() returned %d values for %d symbol names %s'
                      % (op, len(g1) if isinstance(g1, tuple) else -1, len(names), when), dict(detail, when=when))
        elif not self.same_tuple(g1, g2):
            self.fail('%s: two consecutive get_state() calls return different tuples %s' % (op, when), dict(detail, when=when))

    def rereading(self, op, frame, f, get_state, names, detail, when):
        """callback f followed by a re-read of the state (same parameters as f: the operator calls it as it calls f)"""
        mon = self
        if f is None or not callable(f):
            return f
        if self.arity(f) == 1:
            def cb1(x):
                r = f(x)
                mon.reread(op, frame, get_state, names, detail, when)
                return r
            return cb1

        def cb0():
            r = f()
            mon.reread(op, frame, get_state, names, detail, when)
            return r
        return cb0

    # ---- snapshots for the model
    def model_snapshot(self, names, frame):
        try:
            used = set()
            for nm in names:
                for x in ast.walk(ast.parse(nm, mode='eval')):
                    if isinstance(x, ast.Name):
                        used.add(x.id)
            conv = _Conv(self.Undefined)
            env = []
            for v in sorted(used):
                try:
                    val = eval(v, frame.f_globals, frame.f_locals)
                except NameError:
                    continue
                env.append((v, conv.value(val)))
            for nm in names:
                e = ast.parse(nm, mode='eval').body
                while isinstance(e, (ast.Attribute, ast.Subscript)):
                    e = e.value
                    try:
                        p = eval(compile(ast.Expression(e), '<c03>', 'eval'), frame.f_globals, frame.f_locals)
                    except Exception:  # noqa
                        continue
                    if isinstance(p, (list, tuple, str)):
                        return None       # outside the model (IndexError / str subscripts)
            return env, conv
        except _Unexportable:
            return None

    def add_dyn_case(self, snap, names, g1, W, after):
        env, conv = snap
        try:
            qs = [export_qn_expr(ast.parse(nm, mode='eval').body) for nm in names]
            get_t = 'Some %s' % vlib.coq_list([conv.value(v) for v in g1])
            vals = vlib.coq_list([conv.value(v) for v in W])
            after_t = 'None' if after is None else 'Some %s' % vlib.coq_list([conv.value(v) for v in after])
            heap = conv.heap_term()
        except _Unexportable:
            return
        self.dyn_budget -= 1
        self.dyn_cases.append((vlib.coq_list(['(%s, %s)' % (vlib.coq_str(k), v) for k, v in env]), heap,
                               vlib.coq_list(qs), get_t, vals, after_t, list(names)))

    def orig_line(self, frame):
        """line of the original statement the calling generated statement was made from (source map)"""
        if self.source_map is not None:
            for k, v in self.source_map.items():
                if k.lineno == frame.f_lineno and k.filename == frame.f_code.co_filename:
                    return v.loc.lineno
        return None

    # ---- callbacks / options
    def check_callbacks(self, op, cbs, detail):
        for role, (f, want) in cbs.items():
            if f is None:
                continue
            if not callable(f):
                self.fail('%s: %s is not callable' % (op, role), detail)
            elif self.arity(f) != want:
                self.fail('%s: %s takes %r arguments, the operator passes %d' % (op, role, self.arity(f), want), detail)

    def check_opts(self, op, frame, opts, iter_, detail):
        if not isinstance(opts, dict):
            self.fail('%s: opts is not a dict' % op, detail)
            return
        line = self.orig_line(frame)
        exp = self.expected_opts.get(line)
        if op == 'for_stmt' and hasattr(iter_, 'k'):
            byk = self.loop_keys.get(iter_.k)
            if byk is not None:
                if line is not None and byk != line:
                    self.fail('for_stmt: the call for the loop over L(%d) is attributed to source line %s' % (iter_.k, line), detail)
                exp = self.expected_opts.get(byk)
        if exp is None or exp[0] != op:
            self.opts_unidentified += 1
            return
        want = dict(exp[1])
        if op == 'for_stmt':
            want['iterate_names'] = exp[2]
        self.opts_checked += 1
        if opts != want:
            self.fail('%s: opts=%r, the loop carries the directives %r' % (op, opts, want), dict(detail, loop_line=line))

    # ---- the operators
    def install(self, module):
        mon = self
        ag = self.ag

        def if_stmt(cond, body, orelse, get_state, set_state, symbol_names, nouts):
            mon.invocations += 1
            mon.checked_invocations += (mon.mode == 'check')
            mon.kinds['if_stmt'] = mon.kinds.get('if_stmt', 0) + 1
            frame = sys._getframe(1)
            detail = {'operator': 'if_stmt', 'symbol_names': list(symbol_names) if isinstance(symbol_names, tuple) else repr(symbol_names),
                      'nouts': nouts, 'invocation': mon.invocations}
            if mon.mode == 'check':
                mon.check_callbacks('if_stmt', {'body': (body, 0), 'orelse': (orelse, 0)}, detail)
                mon.check_state('if_stmt', frame, get_state, set_state, symbol_names, nouts, detail)
                return ag.if_stmt(cond, mon.rereading('if_stmt', frame, body, get_state, symbol_names, detail, 'after the branch ran'),
                                  mon.rereading('if_stmt', frame, orelse, get_state, symbol_names, detail, 'after the branch ran'),
                                  get_state, set_state, symbol_names, nouts)
            init = get_state()
            res = ag.if_stmt(cond, body, orelse, get_state, set_state, symbol_names, nouts)
            new = get_state()
            if not any(mon.is_undef(v) and not nm.isidentifier() for v, nm in zip(new, symbol_names)) and nouts < len(new):
                changed = [nm for nm, x, y in zip(symbol_names[nouts:], new[nouts:], init[nouts:]) if x is not y]
                if changed:
                    mon.resets.append((mon.orig_line(frame), changed))
                set_state(tuple(new[:nouts]) + tuple(init[nouts:]))
            return res

        def while_stmt(test, body, get_state, set_state, symbol_names, opts):
            mon.invocations += 1
            mon.checked_invocations += (mon.mode == 'check')
            mon.kinds['while_stmt'] = mon.kinds.get('while_stmt', 0) + 1
            frame = sys._getframe(1)
            detail = {'operator': 'while_stmt', 'symbol_names': list(symbol_names) if isinstance(symbol_names, tuple) else repr(symbol_names),
                      'opts': repr(opts), 'invocation': mon.invocations}
            if mon.mode == 'check':
                mon.check_callbacks('while_stmt', {'test': (test, 0), 'body': (body, 0)}, detail)
                mon.check_state('while_stmt', frame, get_state, set_state, symbol_names, None, detail)
                mon.check_opts('while_stmt', frame, opts, None, detail)
                body = mon.rereading('while_stmt', frame, body, get_state, symbol_names, detail, 'after an iteration')
            return ag.while_stmt(test, body, get_state, set_state, symbol_names, opts)

        def for_stmt(iter_, extra_test, body, get_state, set_state, symbol_names, opts):
            mon.invocations += 1
            mon.checked_invocations += (mon.mode == 'check')
            mon.kinds['for_stmt'] = mon.kinds.get('for_stmt', 0) + 1
            frame = sys._getframe(1)
            detail = {'operator': 'for_stmt', 'symbol_names': list(symbol_names) if isinstance(symbol_names, tuple) else repr(symbol_names),
                      'opts': repr(opts), 'invocation': mon.invocations}
            if mon.mode == 'check':
                mon.check_callbacks('for_stmt', {'extra_test': (extra_test, 0), 'body': (body, 1)}, detail)
                mon.check_state('for_stmt', frame, get_state, set_state, symbol_names, None, detail)
                mon.check_opts('for_stmt', frame, opts, iter_, detail)
                body = mon.rereading('for_stmt', frame, body, get_state, symbol_names, detail, 'after an iteration')
            return ag.for_stmt(iter_, extra_test, body, get_state, set_state, symbol_names, opts)

        def if_exp(cond, if_true, if_false, expr_repr):
            mon.invocations += 1
            mon.checked_invocations += (mon.mode == 'check')
            mon.kinds['if_exp'] = mon.kinds.get('if_exp', 0) + 1
            if mon.mode == 'check':
                detail = {'operator': 'if_exp', 'expr_repr': repr(expr_repr)}
                mon.check_callbacks('if_exp', {'if_true': (if_true, 0), 'if_false': (if_false, 0)}, detail)
                if not isinstance(expr_repr, str):
                    mon.fail('if_exp: expr_repr is not a string', detail)
            return ag.if_exp(cond, if_true, if_false, expr_repr)

        def and_(a, b):
            mon.invocations += 1
            mon.checked_invocations += (mon.mode == 'check')
            mon.kinds['and_'] = mon.kinds.get('and_', 0) + 1
            if mon.mode == 'check':
                mon.check_callbacks('and_', {'a': (a, 0), 'b': (b, 0)}, {'operator': 'and_'})
            return ag.and_(a, b)

        def or_(a, b):
            mon.invocations += 1
            mon.checked_invocations += (mon.mode == 'check')
            mon.kinds['or_'] = mon.kinds.get('or_', 0) + 1
            if mon.mode == 'check':
                mon.check_callbacks('or_', {'a': (a, 0), 'b': (b, 0)}, {'operator': 'or_'})
            return ag.or_(a, b)

        def not_(a):
            mon.invocations += 1
            mon.checked_invocations += (mon.mode == 'check')
            mon.kinds['not_'] = mon.kinds.get('not_', 0) + 1
            if mon.mode == 'check' and callable(a) and not isinstance(a, type):
                mon.fail('not_: operand is a callable (thunk) instead of a value', {'operator': 'not_'})
            return ag.not_(a)

        wrappers = {'if_stmt': if_stmt, 'while_stmt': while_stmt, 'for_stmt': for_stmt, 'if_exp': if_exp,
                    'and_': and_, 'or_': or_, 'not_': not_}
        for name, w in wrappers.items():
            # the wrappers take exactly the parameters of the real operators: a call with any other
            # number of arguments fails as it would on the real operator
            if list(inspect.signature(w).parameters) != self.op_params[name]:
                w = _generic_wrapper(self, name, getattr(ag, name))
            setattr(module, name, w)


def _generic_wrapper(mon, name, real):
    def w(*a, **k):
        mon.invocations += 1
        mon.fail('%s: the operator\'s parameter list changed; no contract checks for it' % name, {'operator': name})
        return real(*a, **k)
    return w


# ======================================================================================= export to the model

class _Unexportable(Exception):
    pass


def _unparse(node):
    from malt.pyct import parser
    try:
        return parser.unparse(node, include_encoding_marker=False)
    except Exception:  # noqa
        return '<unprintable>'


def export_qn_obj(q):
    """malt QN object -> Gallina qn term"""
    from malt.pyct import qual_names
    if q.has_attr():
        return '(QAttr %s %s)' % (export_qn_obj(q.parent), vlib.coq_str(q.qn[1]))
    if q.has_subscript():
        return '(QSub %s %s)' % (export_qn_obj(q.parent), export_qn_obj(q.qn[1]))
    base = q.qn[0]
    if isinstance(base, qual_names.Literal):
        return _lit(base.value)
    if isinstance(base, str):
        return '(QS %s)' % vlib.coq_str(base)
    raise _Unexportable('QN base %r' % (base,))


def _lit(v):
    if isinstance(v, str) and '"' not in v and "'" not in v and '\\' not in v:
        return '(QLit (LStr %s))' % vlib.coq_str(v)
    if isinstance(v, int) and not isinstance(v, bool) and 0 <= v < 10 ** 6:
        return '(QLit (LInt %d%%Z))' % v
    raise _Unexportable('literal %r' % (v,))


def export_qn_expr(e):
    """Python expression ast (a state variable as it appears in generated code) -> Gallina qn term"""
    if isinstance(e, ast.Name):
        return '(QS %s)' % vlib.coq_str(e.id)
    if isinstance(e, ast.Attribute):
        return '(QAttr %s %s)' % (export_qn_expr(e.value), vlib.coq_str(e.attr))
    if isinstance(e, ast.Subscript):
        if isinstance(e.slice, ast.Constant):
            return '(QSub %s %s)' % (export_qn_expr(e.value), _lit(e.slice.value))
        return '(QSub %s %s)' % (export_qn_expr(e.value), export_qn_expr(e.slice))
    raise _Unexportable('expression ' + ast.dump(e))


class _Conv(object):
    """Python values -> model values; dict / Obj instances become heap objects"""

    def __init__(self, Undefined):
        self.Undefined = Undefined
        self.ids = {}
        self.objs = []

    def ref(self, o):
        if id(o) not in self.ids:
            self.ids[id(o)] = len(self.objs)
            self.objs.append(o)
        return self.ids[id(o)]

    def value(self, v):
        if isinstance(v, self.Undefined):
            return '(VUndef %s)' % vlib.coq_str(object.__getattribute__(v, 'symbol_name'))
        if isinstance(v, bool):
            return '(VInt %d%%Z)' % int(v)
        if isinstance(v, int):
            if abs(v) > 10 ** 9:
                raise _Unexportable('large int')
            return '(VInt (%d)%%Z)' % v
        if isinstance(v, str):
            if '"' in v or '\\' in v:
                raise _Unexportable('string')
            return '(VStr %s)' % vlib.coq_str(v)
        return '(VRef %d)' % self.ref(v)

    def heap_term(self):
        out = []
        i = 0
        while i < len(self.objs):          # objs may grow while values are converted
            o = self.objs[i]
            if isinstance(o, Sentinel):
                pass
            elif isinstance(o, dict):
                for k, v in o.items():
                    if isinstance(k, Sentinel) or not isinstance(k, (int, str)):
                        raise _Unexportable('key')
                    out.append('(%d, KItem %s, %s)' % (i, self.value(k), self.value(v)))
            elif isinstance(o, (Obj, Slot)):
                for k, v in sorted(o.__dict__.items()):
                    out.append('(%d, KAttr %s, %s)' % (i, vlib.coq_str(k), self.value(v)))
            i += 1
        return vlib.coq_list(out)


def _strip_ld(e):
    """generated expression with the reads of names wrapped (ag__.ld(o).u) -> the expression over plain names"""
    class S(ast.NodeTransformer):
        def visit_Call(self, n):
            if ast.unparse(n.func) == 'ag__.ld' and len(n.args) == 1 and isinstance(n.args[0], ast.Name) and not n.keywords:
                return ast.Name(id=n.args[0].id, ctx=ast.Load())
            return self.generic_visit(n)
    return S().visit(ast.parse(ast.unparse(e), mode='eval').body)


def export_target(e):
    """a `del` target -> Gallina target term"""
    e = _strip_ld(e)
    if isinstance(e, ast.Name):
        return 'TName %s' % vlib.coq_str(e.id)
    return 'TComp %s' % export_qn_expr(e)


def export_emitted_delete(result):
    """what visit_Delete returned (the node itself or a list of statements) -> Gallina list of dstmt"""
    out = []
    for st in (result if isinstance(result, list) else [result]):
        st = ast.parse(ast.unparse(st)).body[0]
        if isinstance(st, ast.Delete):
            out.append('DDel %s' % vlib.coq_list([export_target(t) for t in st.targets]))
        elif (isinstance(st, ast.Expr) and isinstance(st.value, ast.Call) and ast.unparse(st.value.func) == 'ag__.ld'
              and len(st.value.args) == 1 and isinstance(st.value.args[0], ast.Name) and not st.value.keywords):
            out.append('DRead %s' % vlib.coq_str(st.value.args[0].id))
        elif (isinstance(st, ast.Assign) and len(st.targets) == 1 and isinstance(st.targets[0], ast.Name)
              and isinstance(st.value, ast.Call) and ast.unparse(st.value.func) == 'ag__.Undefined'
              and len(st.value.args) == 1 and isinstance(st.value.args[0], ast.Constant)
              and isinstance(st.value.args[0].value, str) and not st.value.keywords):
            out.append('DBindUndef %s %s' % (vlib.coq_str(st.targets[0].id), vlib.coq_str(st.value.args[0].value)))
        else:
            raise _Unexportable('statement emitted for a del: ' + ast.unparse(st)[:80])
    return vlib.coq_list(out)


def parse_new_nodes(new_nodes, op_params):
    """The statements ControlFlowTransformer.visit_If/While/For returned -> what they contain."""
    call = new_nodes[-1]
    if not (isinstance(call, ast.Expr) and isinstance(call.value, ast.Call)):
        raise _Unexportable('last node is not a call')
    call = call.value
    op = ast.unparse(call.func)
    if not op.startswith('ag__.'):
        raise _Unexportable('callee ' + op)
    op = op[5:]
    params = op_params[op]
    if len(call.args) != len(params) or call.keywords:
        raise _Unexportable('argument count')
    arg = dict(zip(params, call.args))
    defs = {n.name: n for n in new_nodes if isinstance(n, ast.FunctionDef)}
    g = defs.get(getattr(arg['get_state'], 'id', None))
    s = defs.get(getattr(arg['set_state'], 'id', None))
    if g is None or s is None:
        raise _Unexportable('state functions are not among the emitted statements')
    if not (len(g.body) == 1 and isinstance(g.body[0], ast.Return) and isinstance(g.body[0].value, ast.Tuple)):
        raise _Unexportable('getter body')
    getter = []
    for e in g.body[0].value.elts:
        if (isinstance(e, ast.Call) and len(e.args) == 2 and isinstance(e.args[0], ast.Lambda)
                and not e.args[0].args.args and isinstance(e.args[1], ast.Constant)):
            getter.append('GGuarded %s %s %s' % (vlib.coq_str(ast.unparse(e.func)), export_qn_expr(e.args[0].body),
                                                 vlib.coq_str(e.args[1].value)))
        else:
            getter.append('GPlain %s' % export_qn_expr(e))
    body = [st for st in s.body if not isinstance(st, (ast.Nonlocal, ast.Global))]
    if len(body) == 1 and isinstance(body[0], ast.Pass):
        targets = []
    elif (len(body) == 1 and isinstance(body[0], ast.Assign) and len(body[0].targets) == 1
          and isinstance(body[0].targets[0], ast.Tuple) and isinstance(body[0].value, ast.Name)
          and [a.arg for a in s.args.args] == [body[0].value.id]):
        targets = ['GPlain %s' % export_qn_expr(e) for e in body[0].targets[0].elts]
    else:
        raise _Unexportable('setter body')
    sn = arg['symbol_names']
    if not (isinstance(sn, ast.Tuple) and all(isinstance(e, ast.Constant) and isinstance(e.value, str) for e in sn.elts)):
        raise _Unexportable('symbol_names')
    names = [e.value for e in sn.elts]
    nouts = None
    if 'nouts' in arg:
        if not isinstance(arg['nouts'], ast.Constant):
            raise _Unexportable('nouts')
        nouts = arg['nouts'].value
    opts = None
    if 'opts' in arg:
        if not (isinstance(arg['opts'], ast.Dict) and all(isinstance(k, ast.Constant) for k in arg['opts'].keys)):
            raise _Unexportable('opts')
        opts = [k.value for k in arg['opts'].keys]
    return op, names, getter, targets, len(g.args.args), len(s.args.args), nouts, opts


# ======================================================================================= conversion harness

class Harness(object):
    def __init__(self, run):
        from malt.impl import api
        from malt.core import converter
        from malt.converters import control_flow
        self.api = api
        self.converter = converter
        self.cf = control_flow
        self.run = run
        self.op_params = {}
        mods = {'if_stmt': 'control_flow', 'while_stmt': 'control_flow', 'for_stmt': 'control_flow',
                'if_exp': 'conditional_expressions', 'and_': 'logical', 'or_': 'logical', 'not_': 'logical'}
        import importlib
        for name, m in mods.items():
            f = getattr(importlib.import_module('malt.operators.' + m), name)
            self.op_params[name] = list(inspect.signature(f).parameters)
        base = api.PyToPy().get_extra_locals()['ag__']
        self.ag = base
        self.static_cases = []
        self.del_cases = []          # (Gallina del_case fields, info) for every `del` statement the variables pass saw
        self.del_unexported = 0
        self.static_unexported = 0
        self.counter = 0
        self.tmp = vlib.ensure_dir(os.path.join(vlib.BUILD, 'tmp', str(os.getpid())))
        os.environ['TMPDIR'] = self.tmp
        import tempfile
        tempfile.tempdir = self.tmp

    def new_transpiler(self, monitor):
        api = self.api
        ag = self.ag

        class P(api.PyToPy):
            def get_extra_locals(self_):
                if self_._extra_locals is None:
                    m = types.ModuleType('malt')
                    m.__dict__.update(ag.__dict__)
                    monitor.install(m)
                    self_._extra_locals = {'ag__': m}
                return self_._extra_locals
        return P()

    def load(self, src):
        self.counter += 1
        name = 'c03gen_%d_%d' % (os.getpid(), self.counter)
        path = os.path.join(self.tmp, name + '.py')
        with open(path, 'w') as f:
            f.write('import malt\nG = 0\nK1 = 11\nK2 = 12\n' + src)
        spec = importlib.util.spec_from_file_location(name, path)
        mod = importlib.util.module_from_spec(spec)
        sys.modules[name] = mod
        spec.loader.exec_module(mod)
        return mod

    def convert(self, mod, monitor, capture):
        """-> converted function (instrumented operators) ; static cases are recorded when capture"""
        cf = self.cf
        T = cf.ControlFlowTransformer
        saved = {k: T.__dict__[k] for k in ('_get_block_vars', '_get_block_basic_vars', '_get_block_composite_vars',
                                            'visit_If', 'visit_While', 'visit_For') if k in T.__dict__}
        rec = {}
        h = self
        from malt.pyct import anno
        from malt.pyct.static_analysis import annos
        self.scope_records = []      # (function name, names in Scope.globals, names in Scope.nonlocals)
        self.decl_records = []       # (function name, operator, {state variable: declaration kind in the setter / callbacks})
        fn_stack = []
        saved_fd = T.__dict__.get('visit_FunctionDef')
        if saved_fd is not None:
            def visit_fd(self_, node):
                try:
                    sc = anno.getanno(node, annos.NodeAnno.BODY_SCOPE)
                    h.scope_records.append((node.name, sorted(str(q) for q in sc.globals), sorted(str(q) for q in sc.nonlocals)))
                except Exception:  # noqa
                    h.scope_records.append((node.name, None, None))
                fn_stack.append(node.name)
                try:
                    return saved_fd(self_, node)
                finally:
                    fn_stack.pop()
            T.visit_FunctionDef = visit_fd
            saved['visit_FunctionDef'] = saved_fd

        if capture and all(k in saved for k in ('_get_block_vars', '_get_block_basic_vars', '_get_block_composite_vars',
                                                'visit_If', 'visit_While', 'visit_For')):
            def gbv(self_, node, modified):
                r = saved['_get_block_vars'](self_, node, modified)
                rec['node'] = node
                rec['result'] = r
                rec['live_in'] = anno.getanno(node, anno.Static.LIVE_VARS_IN)
                rec['live_out'] = anno.getanno(node, anno.Static.LIVE_VARS_OUT)
                fs = self_.state[cf._Function].scope
                rec['globals'], rec['nonlocals'] = fs.globals, fs.nonlocals
                return r

            def gbb(self_, *a, **k):
                r = saved['_get_block_basic_vars'](self_, *a, **k)
                rec['basic'] = r
                return r

            def gbc(self_, *a, **k):
                r = saved['_get_block_composite_vars'](self_, *a, **k)
                rec['composite'] = r
                return r

            def mk_visit(name, kind):
                def visit(self_, node):
                    target = _unparse(node.target).strip() if kind == 'KFor' else ''
                    new_nodes = saved[name](self_, node)
                    try:
                        h.decl_records.append((fn_stack[-1] if fn_stack else None,) + declared_kinds(new_nodes))
                    except Exception:  # noqa
                        pass
                    try:
                        h.record_static(kind, rec, new_nodes, target, anno)
                    except _Unexportable:
                        h.static_unexported += 1
                    return new_nodes
                return visit
            T._get_block_vars = gbv
            T._get_block_basic_vars = gbb
            T._get_block_composite_vars = gbc
            T.visit_If = mk_visit('visit_If', 'KIf')
            T.visit_While = mk_visit('visit_While', 'KWhile')
            T.visit_For = mk_visit('visit_For', 'KFor')
        from malt.converters import variables as variables_pass
        VT = variables_pass.VariableAccessTransformer
        saved_del = VT.__dict__.get('visit_Delete')
        if capture and saved_del is not None:
            def visit_delete(self_, node):
                before = [ast.unparse(t) for t in node.targets]
                result = saved_del(self_, node)
                try:
                    tg = vlib.coq_list([export_target(ast.parse(t, mode='eval').body) for t in before])
                    h.del_cases.append(('dl_targets := %s; dl_emitted := %s' % (tg, export_emitted_delete(result)),
                                        {'del': 'del ' + ', '.join(before),
                                         'emitted': [ast.unparse(x) for x in (result if isinstance(result, list) else [result])]}))
                except _Unexportable:
                    h.del_unexported += 1
                return result
            VT.visit_Delete = visit_delete
        try:
            p = self.new_transpiler(monitor)
            ctx = self.converter.ProgramContext(options=self.converter.ConversionOptions(
                recursive=True, user_requested=True, optional_features=None))
            tf, module, source_map = p.transform(mod.f, ctx)
        finally:
            for k, v in saved.items():
                setattr(T, k, v)
            if saved_del is not None:
                VT.visit_Delete = saved_del
        return tf, source_map

    def record_static(self, kind, rec, new_nodes, target, anno):
        from malt.lang import directives
        if 'result' not in rec:
            raise _Unexportable('no _get_block_vars result')
        scope_vars, undefined, nouts = rec['result']
        node = rec['node']
        op, names, getter, targets, ga, sa, nouts_seen, opts = parse_new_nodes(new_nodes, self.op_params)
        vars_t = [export_qn_obj(q) for q in scope_vars]
        sets = '{| s_basic := %s; s_composite := %s; s_live_in := %s; s_live_out := %s; s_globals := %s; s_nonlocals := %s |}' % tuple(
            vlib.coq_list([vlib.coq_str(s) for s in sorted(str(q) for q in rec[k])])
            for k in ('basic', 'composite', 'live_in', 'live_out', 'globals', 'nonlocals'))
        for k in ('basic', 'composite', 'live_in', 'live_out'):
            for q in rec[k]:
                if '"' in str(q):
                    raise _Unexportable('name')
        an = None
        if anno.hasanno(node, anno.Basic.DIRECTIVES):
            dd = anno.getanno(node, anno.Basic.DIRECTIVES)
            if directives.set_loop_options in dd:
                an = list(dd[directives.set_loop_options].keys())
        sid = len(self.static_cases)
        strs = lambda l: vlib.coq_list([vlib.coq_str(s) for s in l])
        term = ('{| sc_id := %d; sc_kind := %s; sc_vars := %s; sc_names := %s; sc_getter := %s; sc_targets := %s; '
                'sc_getter_arity := %d; sc_setter_arity := %d; sc_sets := %s; sc_order := %s; sc_nouts := %s; '
                'sc_opts_anno := %s; sc_target := %s; sc_opts_keys := %s |}' % (
                    sid, kind, vlib.coq_list(vars_t), strs(names), vlib.coq_list(getter), vlib.coq_list(targets), ga, sa, sets,
                    strs([str(q) for q in scope_vars]), ('Some %d' % nouts_seen) if nouts_seen is not None else 'None',
                    ('Some %s' % strs(an)) if an is not None else 'None', vlib.coq_str(target),
                    ('Some %s' % strs(opts)) if opts is not None else 'None'))
        self.static_cases.append((term, {'kind': kind, 'names': names, 'vars': [str(q) for q in scope_vars], 'nouts': nouts_seen,
                                         'opts': opts, 'code': _unparse(new_nodes)[:1500]}))

    def cleanup(self):
        shutil.rmtree(self.tmp, ignore_errors=True)


def expected_opts(src):
    """original line -> (operator, {directive argument: value}, target text), from the original source only;
    also L-key -> line for `for` loops"""
    tree = ast.parse(src)
    fn = tree.body[0]
    out = {}
    keys = {}
    env = {'K1': 11, 'K2': 12}

    def visit(stmts, loop):
        for s in stmts:
            if isinstance(s, ast.Expr) and isinstance(s.value, ast.Call) and ast.unparse(s.value.func) == DIRECTIVE:
                if loop is not None:
                    for kw in s.value.keywords:
                        out[loop][1][kw.arg] = eval(ast.unparse(kw.value), dict(env))
                continue
            if isinstance(s, (ast.While, ast.For)):
                op = 'while_stmt' if isinstance(s, ast.While) else 'for_stmt'
                out[s.lineno] = (op, {}, ast.unparse(s.target) if isinstance(s, ast.For) else None)
                if isinstance(s, ast.For) and isinstance(s.iter, ast.Call) and getattr(s.iter.func, 'id', None) == 'L':
                    keys[s.iter.args[0].value] = s.lineno
                visit(s.body, s.lineno)
                visit(s.orelse, s.lineno)
                continue
            if isinstance(s, (ast.FunctionDef, ast.ClassDef)):
                continue
            for fld in ('body', 'orelse', 'finalbody'):
                visit(getattr(s, fld, []) or [], loop)
            for hd in getattr(s, 'handlers', []) or []:
                visit(hd.body, loop)
    visit(fn.body, None)
    return out, keys


def is_enclosing_for_target(src, module_line, var):
    """classifier of the known finding: `var` is a target of a `for` loop that lexically encloses the
    statement at module_line or starts after it (the for header kills its target also on the loop-exit /
    zero-iteration edge, so liveness does not see the use after that loop)"""
    if module_line is None:
        return False
    line = module_line - SHIFT
    for n in ast.walk(ast.parse(src)):
        # n.lineno == line: an `if` attributed to the line of the for statement itself is a guard synthesised inside that
        # loop's body (`if not do_return:` around the rest of the body after a lowered return)
        if isinstance(n, ast.For) and (n.lineno <= line <= n.end_lineno or n.lineno > line):
            if var in {x.id for x in ast.walk(n.target) if isinstance(x, ast.Name)}:
                return True
    return False


def declared_kinds(new_nodes):
    """statements emitted for one if / while / for -> (operator, symbol names, {function def name: {name: 'global' |
    'nonlocal'}}) for the generated setter and callbacks"""
    call = new_nodes[-1].value
    op = ast.unparse(call.func)[5:]
    names = []
    for a in call.args:
        if isinstance(a, ast.Tuple) and all(isinstance(e, ast.Constant) and isinstance(e.value, str) for e in a.elts):
            names = [e.value for e in a.elts]
    kinds = {}
    for n in new_nodes:
        if isinstance(n, ast.FunctionDef):
            k = {}
            for st in n.body:
                if isinstance(st, ast.Global):
                    k.update({x: 'global' for x in st.names})
                elif isinstance(st, ast.Nonlocal):
                    k.update({x: 'nonlocal' for x in st.names})
            kinds[n.name] = k
    return op, names, kinds


def symtable_decls(src):
    """CPython's own answer: function name -> (names the function itself declares global, names it declares nonlocal)"""
    import symtable
    out = {}

    def walk(t):
        if t.get_type() == 'function':
            g = sorted(sy.get_name() for sy in t.get_symbols() if sy.is_declared_global())
            n = sorted(sy.get_name() for sy in t.get_symbols() if sy.is_nonlocal())
            out.setdefault(t.get_name(), (g, n))
        for c in t.get_children():
            walk(c)
    walk(symtable.symtable(src, '<c03>', 'exec'))
    return out


def scope_tie_failures(h, src):
    """(1) Scope.globals / Scope.nonlocals of every function the control-flow pass sees are exactly the names that
    function itself declares, as CPython's symtable reports them; (2) every simple state variable gets, in the generated
    setter and in every callback that declares it, the declaration kind it has IN THE ENCLOSING FUNCTION: `global` iff
    that function declares it global, `nonlocal` otherwise (getter and setter then denote the same variable)."""
    out = []
    try:
        want = symtable_decls(src)
    except SyntaxError:
        return out
    for name, g, n in h.scope_records:
        key = name[5:] if name.startswith('ag__') and name[5:] in want else name
        if key not in want or g is None:
            continue
        wg, wn = want[key]
        if g != wg:
            out.append(('activity: Scope.globals of function %s is %s, the function itself declares %s global (symtable)'
                        % (key, g, wg), {'function': key, 'scope_globals': g, 'symtable_declared_global': wg}))
        if n != wn:
            out.append(('activity: Scope.nonlocals of function %s is %s, the function itself declares %s nonlocal (symtable)'
                        % (key, n, wn), {'function': key, 'scope_nonlocals': n, 'symtable_declared_nonlocal': wn}))
    for fn, op, names, kinds in h.decl_records:
        key = fn[5:] if fn and fn.startswith('ag__') and fn[5:] in want else fn
        if key not in want:
            continue
        wg = set(want[key][0])
        for v in names:
            if not v.isidentifier():
                continue
            expect = 'global' if v in wg else 'nonlocal'
            for dname, k in sorted(kinds.items()):
                if dname.startswith('get_state'):
                    continue
                got = k.get(v)
                if dname.startswith('set_state') and got is None:
                    out.append(('%s: the generated setter %s assigns state variable %s without declaring it (%s expected)'
                                % (op, dname, v, expect), {'function': key, 'symbol_names': names, 'declarations': kinds}))
                elif got is not None and got != expect:
                    out.append(('%s: generated %s declares state variable %s `%s`, in function %s it is %s: getter and '
                                'setter do not denote the same variable' % (op, dname, v, got, key,
                                'declared global' if expect == 'global' else 'a local / enclosing-function variable'),
                                {'function': key, 'symbol_names': names, 'declarations': kinds}))
    return out


def decision_vectors(rnd, n):
    out = [[1, 2, 1, 0, 1, 3, 0, 1, 1, 0, 2, 1], [0] * 4, [1] * 6 + [0] * 6]
    while len(out) < n:
        out.append([rnd.choice([0, 1, 1, 2, 3]) for _ in range(rnd.randint(2, 14))])
    return out[:n]


def run_fn(h, mod, fn, decisions, monitor=None):
    world = pyrt.World(decisions)
    g = world.globals()
    for nm in ('D', 'L', 'T'):
        g[nm] = h.api.do_not_convert(g[nm])
    mod.__dict__.update(g)
    mod.__dict__['S'] = h.api.do_not_convert(lambda k: Slot(k))
    mod.__dict__['G'] = 0
    for nm in progs.VARS:
        mod.__dict__.pop(nm, None)
    args = fresh_args()
    if monitor is not None:
        monitor.containers = [args[3], args[4], args[5], args[6]]
    old = sys.getrecursionlimit()
    try:
        v = fn(*args)
        res = ('return', repr(v))
    except RecursionError:
        res = ('raise', 'RecursionError')
    except BaseException as e:  # noqa
        res = ('raise', type(e).__name__)
    finally:
        sys.setrecursionlimit(old)
    log = [tuple(x if isinstance(x, (int, str, bool, type(None))) else repr(x) for x in ev) for ev in world.log]
    return (res, log, repr(args[3:]), repr(mod.__dict__.get('G')))


# ======================================================================================= the check

def check(run):
    thorough = run.tier == 'thorough'
    run.rule = ('programs: hand corpus + seeded progs.Gen extended with nested defs / class bodies declaring a local of the '
                'enclosing function global / nonlocal (stream "scopes" and main), nested tries with typed handlers and raises that only '
                'the outer handler catches (stream "tries"), local closures over a state variable called by the statement that rebinds it '
                '(stream "closures"), `del` statements inside branches / loop bodies deleting names, composites and both mixed in one '
                'statement, every variable read at the end (stream "deletes"; each del statement is also a static case of the model '
                'of visit_Delete), stores to items whose index is itself composite (t[p.i], t[d[j]], t[e[p.i]], t[m[j]], t[o.u]; list and '
                'dict containers; the base name of the index first bound inside the very body that stores / before the statement / '
                'a parameter; stream "indices": every composite symbol name must be resolved through names that are bound in the '
                'enclosing function when the operator is called, and the model checks on every converted statement that the support '
                'symbols of an admitted composite are live into it), composite state (o.v, d[\'k\'], d[0]; stream '
                '"missing": o.w / d[\'j\'] unset at entry; stream "order": e[x] with x reassigned) and set_loop_options '
                'directives as first loop statement; each converted with instrumented operators (contract checked on entry; the '
                'state is read again after every branch / iteration, as a staging operator does) and run under several '
                'decision vectors; evaluations = dynamic operator invocations checked + static cases + dynamic model cases; '
                'distinct non-trivial = distinct (operator, symbol_names, nouts/opts keys) seen at run time')
    try:
        generate()
        tie_ok, tie_msg = True, ''
    except c03_contract.Untranslatable as e:
        tie_ok, tie_msg = False, str(e)
        run.note(tie_msg)
    except Exception as e:  # noqa  (source does not even parse / import)
        tie_ok, tie_msg = False, 'translator crashed: %s: %s' % (type(e).__name__, e)
        run.note(tie_msg)
    if tie_ok:
        vlib.standard_proof_step(run, ['Contract/ContractCheck.vo'])

    rnd = random.Random(run.seed)
    h = Harness(run)
    nprog = ({'main': 290, 'missing': 50, 'order': 50, 'scopes': 60, 'tries': 40, 'closures': 40, 'deletes': 60, 'indices': 60} if not thorough else
             {'main': 1200, 'missing': 200, 'order': 200, 'scopes': 250, 'tries': 250, 'closures': 250, 'deletes': 300, 'indices': 300})
    nvec = 3 if not thorough else 5
    programs = list(CORPUS) + corpus_files()
    for stream in ('main', 'missing', 'order', 'scopes'):
        for _ in range(nprog[stream]):
            programs.append((stream, gen_program(rnd, stream)))
    for _ in range(nprog['tries']):
        programs.append(('tries', gen_nested_try(rnd)))
    for _ in range(nprog['closures']):
        programs.append(('closures', gen_closure(rnd)))
    for _ in range(nprog['deletes']):          # appended last: the random streams of the other programs stay what they were
        programs.append(('deletes', gen_program(rnd, 'deletes')))
    for _ in range(nprog['indices']):
        programs.append(('indices', gen_indexed(rnd)))
    failures = []      # (what, replay dict, classify)
    scope_checked = {'functions': 0, 'statements': 0, 'failures': 0}
    conv_errors = 0
    dyn_all = []
    kinds_total = {}
    checked = {'write_read': 0, 'rereads_after_callbacks': 0, 'alias_skipped': 0, 'opts': 0, 'opts_unidentified': 0, 'functional_runs': 0}
    try:
        for pi, (stream, src) in enumerate(programs):
            monitor = Monitor(h.ag, h.op_params)
            monitor.dyn_budget = 2 if len(dyn_all) < (400 if not thorough else 1500) else 0
            try:
                mod = h.load(src)
                monitor.expected_opts, monitor.loop_keys = expected_opts(src)
                monitor.program_src = src
                shift = SHIFT
                monitor.expected_opts = {k + shift: v for k, v in monitor.expected_opts.items()}
                monitor.loop_keys = {k: v + shift for k, v in monitor.loop_keys.items()}
                tf, smap = h.convert(mod, monitor, capture=True)
                monitor.source_map = smap
                for what, detail in scope_tie_failures(h, src):
                    failures.append((what, {'what': what, 'stream': stream, 'program': src, 'detail': detail,
                                            'oracle': 'symtable.symtable(program) -- CPython\'s binding rules',
                                            'generated_code': inspect.getsource(tf)[:6000]}, None))
                    scope_checked['failures'] += 1
                scope_checked['functions'] += len(h.scope_records)
                scope_checked['statements'] += len(h.decl_records)
            except Exception as e:  # noqa
                conv_errors += 1
                if conv_errors <= 3:
                    run.note('conversion failed (%s: %s) for\n%s' % (type(e).__name__, str(e)[:200], src))
                continue
            for dv in decision_vectors(random.Random(run.seed * 7919 + pi), nvec):
                monitor.mode = 'check'
                nf = len(monitor.failures)
                out_checked = run_fn(h, mod, tf, dv, monitor)
                new_fail = monitor.failures[nf:]
                for what, detail, cls in new_fail:
                    failures.append((what, {'what': what, 'stream': stream, 'program': src, 'decisions': dv,
                                            'detail': detail, 'generated_code': inspect.getsource(tf)[:6000],
                                            'replay': 'cd /verif && bin/check C03 --replay <this file>'}, cls))
                # functional emulation of `if`: non-outputs are not passed through
                monitor.mode = 'functional'
                monitor.resets = []
                out_fun = run_fn(h, mod, tf, dv, monitor)
                checked['functional_runs'] += 1
                if out_fun != out_checked and not new_fail:
                    cls_f = KNOWN_FORTARGET if monitor.resets and all(
                        is_enclosing_for_target(src, line, v) for line, vs in monitor.resets for v in vs) else None
                    failures.append(('if_stmt: a variable that is live after the statement is not among the first nouts '
                                     '(resetting the non-outputs to their initial values changes the result)',
                                     {'what': 'outputs-first', 'stream': stream, 'program': src, 'decisions': dv,
                                      'with_contract_checks': repr(out_checked)[:1500], 'functional_if': repr(out_fun)[:1500],
                                      'resets': monitor.resets, 'generated_code': inspect.getsource(tf)[:6000]}, cls_f))
            for k, v in monitor.kinds.items():
                kinds_total[k] = kinds_total.get(k, 0) + v
            run.count(monitor.checked_invocations)
            checked['write_read'] += monitor.write_read_checked
            checked['rereads_after_callbacks'] += monitor.rereads
            checked['alias_skipped'] += monitor.skipped_alias
            checked['opts'] += monitor.opts_checked
            checked['opts_unidentified'] += monitor.opts_unidentified
            for c in monitor.dyn_cases:
                dyn_all.append((c, src))
            if pi % 37 == 0:
                run.sample({'stream': stream, 'program': src, 'operator_invocations': dict(monitor.kinds)})
    finally:
        h.cleanup()
    for term, info in h.static_cases:
        run.nontriv((info['kind'], tuple(info['names']), info['nouts'], tuple(info['opts'] or ())))
    run.extra['operator_invocations'] = kinds_total
    run.extra['checks'] = checked
    run.extra['scope_tie'] = scope_checked
    run.extra['programs'] = len(programs)
    run.extra['conversion_errors'] = conv_errors
    run.extra['static_cases'] = len(h.static_cases)
    run.extra['static_unexported'] = h.static_unexported
    run.extra['del_statement_cases'] = len(h.del_cases)
    run.extra['del_statements_unexported'] = h.del_unexported
    run.extra['dynamic_model_cases'] = len(dyn_all)

    # ---- 3. correspondence inside Coq
    corr_bad = None
    if tie_ok:
        header = ['From Coq Require Import List String Bool ZArith.', 'Import ListNotations.',
                  'Require Import MV.Contract.ContractSyntax MV.Contract.StateModel MV.Contract.Emit MV.Contract.BlockVars '
                  'MV.Contract.Delete MV.Contract.ContractCheck MV.Generated.C03_gen.', 'Local Open Scope string_scope.']
        shards = []
        cs = [t for t, _ in h.static_cases]
        for i in range(0, len(cs), 300):
            shards.append(('static%d' % (i // 300), 'static_case', 'failing_static', cs[i:i + 300]))
        dts = []
        for i, (c, src) in enumerate(dyn_all):
            dts.append('{| dc_id := %d; dc_env := %s; dc_heap := %s; dc_vars := %s; dc_get := %s; dc_vals := %s; '
                       'dc_get_after := %s |}' % (i, c[0], c[1], c[2], c[3], c[4], c[5]))
        for i in range(0, len(dts), 300):
            shards.append(('dyn%d' % (i // 300), 'dyn_case', 'failing_dyn', dts[i:i + 300]))

        dls = ['{| dl_id := %d; %s |}' % (i, t) for i, (t, _) in enumerate(h.del_cases)]
        for i in range(0, len(dls), 400):
            shards.append(('del%d' % (i // 400), 'del_case', 'failing_del', dls[i:i + 400]))
        if not dls and any('del ' in src for _, src in programs) and conv_errors < len(programs) // 3:
            corr_bad = 'no `del` statement of the generated programs reached VariableAccessTransformer.visit_Delete'

        def one(sh):
            name, ty, fn, items = sh
            body = header + ['Definition cases : list %s := [' % ty, ';\n'.join(items), '].',
                             'Eval vm_compute in %s cases.' % fn]
            # per-process file names: concurrent runs of this check must not overwrite each other's cases
            fname = '%s_p%d' % (name, os.getpid())
            rc, out = vlib.coq_eval('C03', fname, '\n'.join(body), timeout=600)
            bad = vlib.parse_coq_list_of_nat(out) if rc == 0 else None
            if rc == 0 and not bad:
                try:
                    os.remove(os.path.join(vlib.BUILD, 'C03', fname + '.v'))
                except OSError:
                    pass
            return name, rc, out, bad
        from concurrent.futures import ThreadPoolExecutor
        with ThreadPoolExecutor(max_workers=6) as ex:
            results = list(ex.map(one, shards))
        for name, rc, out, bad in results:
            if bad is None:
                corr_bad = 'model evaluation failed (%s): %s' % (name, out[-600:])
            elif bad:
                if name.startswith('static'):
                    info = h.static_cases[bad[0]][1]
                    corr_bad = 'static correspondence: model emission differs from the generated code for %s' % json.dumps(info)[:1800]
                elif name.startswith('del'):
                    corr_bad = ('static correspondence: the statements the model (Delete.lower_delete over delete_rule_gen) emits for a '
                                '`del` differ from what visit_Delete returned: %s' % json.dumps(h.del_cases[bad[0]][1])[:1800])
                else:
                    c, src = dyn_all[bad[0]]
                    corr_bad = ('dynamic correspondence: model get/set differs from CPython for state variables %s '
                                '(get_state -> %s, after set_state(%s) -> %s) in program\n%s' % (c[6], c[3], c[4], c[5], src))
                break
        run.count(len(cs) + len(dts) + len(dls))
        run.extra['traces_validated_against_impl'] = len(cs) + len(dts) + len(dls)

    # ---- 5. verdict
    seen = set()
    real = 0
    for what, rep, cls in failures:
        import re
        key = (re.sub(r'\d+', 'N', what.split(' of ')[0].split('=')[0].split(' for ')[0])[:70], cls)
        if key in seen or (cls is None and real >= 4):
            continue
        seen.add(key)
        if run.violation(what, rep, classify=cls):
            real += 1
    if not real:
        if not tie_ok:
            run.violation('translator no longer recognises the source: ' + tie_msg,
                          {'broken_tie': tie_msg, 'searched': '%d programs x %d decision vectors with instrumented operators: '
                           'no contract violation found' % (len(programs), nvec)}, found_input=False)
        elif corr_bad:
            run.violation('correspondence model/implementation broken', {'broken_correspondence': corr_bad,
                          'searched': '%d programs x %d decision vectors with instrumented operators: no contract violation found'
                          % (len(programs), nvec)}, found_input=False)
    if conv_errors > len(programs) // 3:
        run.violation('more than a third of the generated programs could not be converted', {'conversion_errors': conv_errors},
                      found_input=False)
    run.assumptions += [
        'heap objects of the model are plain records (instance __dict__ / dict): look-ups have no side effects; failing '
        'look-ups are KeyError/AttributeError; lists and properties are exercised by the oracle only (list items are not '
        'among the deleted composites: ldu does not catch IndexError, so a list-item state variable whose index is out of range '
        'makes get_state() raise)',
        'a `del` is the only statement that unbinds a name (the implicit unbinding at the end of `except E as n:` is not modelled; the '
        'oracle re-reads the state after every branch / iteration)',
        'templates.replace splices a list bound to a placeholder standing alone in a tuple display / assignment target '
        '(validated by the static correspondence against the code really generated)',
        'Python\'s sorted() returns a permutation ordered by the key (modelled by insertion sort; order compared with the '
        'implementation on every converted statement)',
        'while-loops are identified with their source line through the converted function\'s source map',
    ]


def replay(path):
    doc = json.load(open(path))
    rep = doc.get('replay', {})
    print(json.dumps({k: v for k, v in doc.items() if k != 'replay'}, indent=1))
    if 'program' not in rep:
        print(json.dumps(rep, indent=1))
        return 0

    class R(object):
        seed = doc.get('seed', 0)
        tier = 'quick'
    h = Harness(R())
    try:
        monitor = Monitor(h.ag, h.op_params)
        mod = h.load(rep['program'])
        eo, lk = expected_opts(rep['program'])
        monitor.program_src = rep['program']
        monitor.expected_opts = {k + SHIFT: v for k, v in eo.items()}
        monitor.loop_keys = {k: v + SHIFT for k, v in lk.items()}
        tf, smap = h.convert(mod, monitor, capture=True)
        monitor.source_map = smap
        print(rep['program'])
        for what, detail in scope_tie_failures(h, rep['program']):
            monitor.failures.append((what, detail, None))
        out = run_fn(h, mod, tf, rep['decisions'], monitor)
        print('outcome with contract checks:', out[0])
        for what, detail, cls in monitor.failures:
            print('FAIL%s: %s %s' % (' [known: %s]' % cls if cls else '', what, json.dumps(detail, default=str)[:400]))
        differs = False
        if rep.get('what') == 'outputs-first':
            monitor.mode = 'functional'
            out2 = run_fn(h, mod, tf, rep['decisions'], monitor)
            print('functional if (non-outputs reset to their initial values):', out2[0])
            differs = out2 != out
            if differs:
                print('FAIL: resetting the non-outputs changes the observable outcome')
        real = [f for f in monitor.failures if f[2] is None]
        return 1 if real or differs else 0
    finally:
        h.cleanup()
