"""C10 -- conversion cache: coherent, converts once, thread-safe (DESIGN.md 4/C10).

 1. regenerate coq/Generated/C10_gen.v: the instruction skeleton of
    PyToPy.transform_function + the two key functions (fail closed)
 2. re-check the obligations in coq/Properties/C10 (theorems hold for every
    program with double_checked p = true; per-run: double_checked generated)
 3. correspondence, evaluated in Coq by vm_compute:
      a. the container abstraction key -> option value vs the real CodeObjectCache
      b. the machine on the generated program vs the real PyToPy, on sequential
         histories and on *forced schedules* (every cache / lock / transform /
         create / instantiate operation of the real code is a sync point of a
         deterministic scheduler): event trace, completed requests, transform
         log, errors must agree
 4. property-level oracle on the real code: free-running threads (1..32,
    random start barriers and switch intervals) against the test transpiler
    and against the real malt transpiler (api.PyToPy): every returned function
    vs a cache-less fresh conversion, transform_ast invocations per (code
    class, options) <= 1 per epoch; deterministic overlap probes; a sweep with
    one forced context switch before every line of transform_function (settrace);
    converted_call / to_graph histories incl. the allowlist cache, over a pool of
    RELATED callables (decorator wrappers carrying __wrapped__ -- malt's own
    convert / do_not_convert and a functools.wraps decorator --, one function
    as bound method of two instances, two function objects on one code
    object): every decision of converted_call, nested requests included, is
    logged and judged, and replayed on the allowlist machine with the
    GENERATED key function (UnboundInstanceCache._get_key)
 5. if the discipline / the tie broke: the machine is searched (BFS over a
    Python mirror, result re-validated in Coq) for a violating 2-3 thread
    schedule, which is forced on the real code -> concrete replay.
"""
import ast
import collections
import functools
import gc
import inspect
import itertools
import json
import linecache
import os
import queue
import random
import re
import shutil
import sys
import threading
import time
import traceback
import types

from lib import vlib
from translate import c10_cache

GEN = os.path.join(vlib.COQ, 'Generated', 'C10_gen.v')
KF_ALIAS = 'c10-alias-gc-keyerror'

EV = {'return': 0, 'hit': 1, 'miss': 2, 'get': 3, 'lock': 4, 'unlock': 5, 'transform': 6, 'create': 7,
      'put': 8, 'instantiate': 9, 'fail': 10, 'start': 11, 'gc': 12}
EVNAME = dict((v, k) for k, v in EV.items())


def generate():
    text = c10_cache.translate(vlib.REPO)
    vlib.write_if_changed(GEN, text)
    return text


# ---------------------------------------------------------------------------
# Python mirror of MV.Cache.Machine.  Used ONLY to propose schedules (random
# valid ones for the correspondence, violating ones for the search); whatever
# it proposes is re-run on the Coq model.
# ---------------------------------------------------------------------------
class MState(object):
    __slots__ = ('cache', 'lock', 'thr', 'serial', 'tlog', 'out', 'err')

    def __init__(self):
        self.cache = {}
        self.lock = None
        self.thr = {}          # tid -> (req, cont(tuple), nodes, fac, pend)
        self.serial = 0
        self.tlog = ()
        self.out = ()
        self.err = ()

    def copy(self):
        s = MState()
        s.cache = dict(self.cache)
        s.lock = self.lock
        s.thr = dict(self.thr)
        s.serial = self.serial
        s.tlog, s.out, s.err = self.tlog, self.out, self.err
        return s

    def freeze(self):
        return (tuple(sorted(self.cache.items())), self.lock, tuple(sorted(self.thr.items())), self.tlog,
                self.out, self.err)


def _tup(p):
    return tuple(('IIfHas', _tup(i[1]), _tup(i[2])) if isinstance(i, tuple) and i[0] == 'IIfHas'
                 else ('ILock', _tup(i[1])) if isinstance(i, tuple) else i for i in p)


def m_abort(s, tid, err):
    if s.lock is not None and s.lock[0] == tid:
        s.lock = None
    del s.thr[tid]
    if err:
        s.err = s.err + (tid,)


def m_step(prog, s0, lab):
    """-> (new state, event) or None when the label is not enabled."""
    s = s0.copy()
    kind = lab[0]
    if kind == 'S':
        _, tid, c, o, e = lab
        if tid in s.thr:
            return None
        s.thr[tid] = (((c, o), e), prog, None, None, False)
        return s, (tid, EV['start'])
    if kind == 'G':
        c = lab[1]
        for k in [k for k in s.cache if k[0] == c]:
            del s.cache[k]
        return s, (c, EV['gc'])
    tid = lab[1]
    if tid not in s.thr:
        return None
    req, cont, nodes, fac, pend = s.thr[tid]
    k, e = req
    if kind == 'F':
        if cont and cont[0] in ('ITransform', 'ICreate'):
            m_abort(s, tid, False)
            return s, (tid, EV['fail'])
        return None
    if not cont:
        del s.thr[tid]
        return s, (tid, EV['return'])
    i, r = cont[0], cont[1:]
    if isinstance(i, tuple) and i[0] == 'IIfHas':
        hit = k in s.cache
        s.thr[tid] = (req, (i[1] if hit else i[2]) + r, nodes, fac, pend)
        return s, (tid, EV['hit'] if hit else EV['miss'])
    if isinstance(i, tuple) and i[0] == 'ILock':
        if s.lock is None:
            s.lock = (tid, 1)
        elif s.lock[0] == tid:
            s.lock = (tid, s.lock[1] + 1)
        else:
            return None
        s.thr[tid] = (req, i[1] + ('IUnlock',) + r, nodes, fac, pend)
        return s, (tid, EV['lock'])
    if i == 'IGet':
        if k in s.cache:
            s.thr[tid] = (req, r, nodes, s.cache[k], pend)
        else:
            m_abort(s, tid, True)
        return s, (tid, EV['get'])
    if i == 'IUnlock':
        if s.lock is not None and s.lock[0] == tid and s.lock[1] >= 1:
            s.lock = None if s.lock[1] == 1 else (tid, s.lock[1] - 1)
            s.thr[tid] = (req, r, nodes, fac, pend)
        else:
            m_abort(s, tid, True)
        return s, (tid, EV['unlock'])
    if i == 'ITransform':
        s.tlog = s.tlog + (k,)
        s.thr[tid] = (req, r, k, fac, True)
        return s, (tid, EV['transform'])
    if i == 'ICreate':
        if nodes is None:
            m_abort(s, tid, True)
        else:
            s.thr[tid] = (req, r, nodes, (nodes, s.serial), pend)
            s.serial += 1
        return s, (tid, EV['create'])
    if i == 'IPut':
        if fac is None:
            m_abort(s, tid, True)
        else:
            s.cache[k] = fac
            s.thr[tid] = (req, r, nodes, fac, False)
        return s, (tid, EV['put'])
    if i == 'IInstantiate':
        if fac is None:
            m_abort(s, tid, True)
        else:
            s.out = s.out + ((k, e, fac, e),)
            s.thr[tid] = (req, r, nodes, fac, pend)
        return s, (tid, EV['instantiate'])
    raise ValueError(i)


def m_bad(s):
    """What the property forbids, on a schedule without failures/collections."""
    if s.err:
        return 'a request dies of an internal error (KeyError / unbound local / lock misuse)'
    cnt = collections.Counter(s.tlog)
    if cnt and max(cnt.values()) > 1:
        return 'the source transformation of one (code, options) pair runs %d times' % max(cnt.values())
    for k, e, fac, e2 in s.out:
        if fac[0] != k or e != e2:
            return 'a request is served a factory of another key'
    return None


def search_violation(prog, max_threads=3, budget=400000):
    """BFS for a shortest schedule of 2..3 threads, all asking for the same key,
    that reaches a forbidden state."""
    for n in range(2, max_threads + 1):
        s0 = MState()
        labs0 = []
        for tid in range(n):
            s0, _ = m_step(prog, s0, ('S', tid, 0, 0, tid))
            labs0.append(('S', tid, 0, 0, tid))
        seen = {s0.freeze()}
        frontier = collections.deque([(s0, tuple(labs0))])
        visited = 0
        while frontier and visited < budget:
            s, labs = frontier.popleft()
            visited += 1
            why = m_bad(s)
            if why:
                return list(labs), why
            for tid in range(n):
                r = m_step(prog, s, ('T', tid))
                if r is None:
                    continue
                s2 = r[0]
                fz = s2.freeze()
                if fz in seen:
                    continue
                seen.add(fz)
                frontier.append((s2, labs + (('T', tid),)))
    return None, None


def random_schedule(prog, rnd, nthreads, nreq, ncodes, nopts, nenvs, p_fail=0.15, p_gc=0.05):
    """A random *valid* schedule of the strict machine, run to completion."""
    s = MState()
    pending = dict((tid, nreq) for tid in range(nthreads))
    labs = []
    steps = 0
    while steps < 2000:
        steps += 1
        cand = []
        for tid in range(nthreads):
            if tid in s.thr:
                cand.append(('T', tid))
            elif pending[tid] > 0:
                cand.append(('S', tid))
        if not cand:
            break
        x = rnd.random()
        lab = None
        if x < p_gc:
            c = rnd.randrange(ncodes)
            if not any(t[0][0][0] == c for t in s.thr.values()):
                lab = ('G', c)
        if lab is None:
            ch = rnd.choice(cand)
            if ch[0] == 'S':
                lab = ('S', ch[1], rnd.randrange(ncodes), rnd.randrange(nopts), rnd.randrange(nenvs))
                pending[ch[1]] -= 1
            else:
                cont = s.thr[ch[1]][1]
                if cont and cont[0] == 'ITransform' and rnd.random() < p_fail:
                    lab = ('F', ch[1])
                else:
                    lab = ch
        r = m_step(prog, s, lab)
        if r is None:
            continue       # blocked on the lock: pick another one
        s = r[0]
        labs.append(lab)
    return labs


def alias_schedule(prog):
    """Thread 0 (first load of class 0) completes a request; thread 1 (second
    load: equal code object) is stopped right before it reads the cache; the
    first load dies; thread 1 reads."""
    s = MState()
    labs = [('S', 0, 0, 0, 0, 0)]
    s, _ = m_step(prog, s, ('S', 0, 0, 0, 0))
    for _ in range(200):
        if 0 not in s.thr:
            break
        r = m_step(prog, s, ('T', 0))
        if r is None:
            return None
        s = r[0]
        labs.append(('T', 0))
    labs.append(('S', 1, 0, 0, 1, 1))
    s, _ = m_step(prog, s, ('S', 1, 0, 0, 1))
    for _ in range(200):
        if 1 not in s.thr:
            return None
        cont = s.thr[1][1]
        if cont and cont[0] == 'IGet':
            return labs + [('G', 0), ('T', 1)]
        r = m_step(prog, s, ('T', 1))
        if r is None:
            return None
        s = r[0]
        labs.append(('T', 1))
    return None


def coq_label(l):
    if l[0] == 'S':
        return 'LStart %d (%d, %d) %d' % (l[1], l[2], l[3], l[4])
    if l[0] == 'T':
        return 'LStep %d' % l[1]
    if l[0] == 'F':
        return 'LFail %d' % l[1]
    return 'LGc %d' % l[1]


# ---------------------------------------------------------------------------
# The world of functions the requests are about
# ---------------------------------------------------------------------------
POOL_SRC = '''G = 100
def make(c):
    def f(x, d=5):
        if x > 0:
            r = x + c
        else:
            r = x - c
        return (r, G, d, %(ver)d, '__OPT__')
    return f
'''

MALT_SRC = '''G = 100
def helper(v):
    if v > 2:
        v = v + 1
    return v
def make(c):
    def f(x, d=5):
        s = 0
        i = 0
        while i < x:
            if i %% 2 == 0:
                s = s + c
            else:
                s = s + G
            i = i + 1
        return (s + helper(x), G, d, %(ver)d)
    return f
'''


class World(object):
    """Function objects by (code class, env).  Class = source variant (`ver`);
    every *load* of a variant executes the file again: new code objects, equal
    by value to those of the other loads.  env e = closure 10+e, global 100+e,
    default 1000+e (functions of one load share ONE code object)."""

    def __init__(self, tmpdir, src=POOL_SRC, tag='pool'):
        self.tmpdir = tmpdir
        self.src = src
        self.tag = tag
        self.loads = collections.defaultdict(list)    # class -> list of {'ns':..., 'fns': {env: fn}}

    def filename(self, c):
        p = os.path.join(self.tmpdir, 'c10_%s_v%d.py' % (self.tag, c))
        if not os.path.exists(p):
            with open(p, 'w') as f:
                f.write(self.src % {'ver': c})
        return p

    def load(self, c):
        fname = self.filename(c)
        with open(fname) as f:
            src = f.read()
        ns = {'__name__': 'c10_%s_v%d' % (self.tag, c)}
        exec(compile(src, fname, 'exec'), ns)
        rec = {'ns': ns, 'fns': {}}
        self.loads[c].append(rec)
        return rec

    def fn(self, c, e, load=None):
        if load is None:
            if not self.loads[c]:
                self.load(c)
            rec = self.loads[c][-1]
        else:
            while len(self.loads[c]) <= load:
                self.load(c)
            rec = self.loads[c][load]
        if e not in rec['fns']:
            base = rec['ns']['make'](10 + e)
            g = dict(rec['ns'])
            g['G'] = 100 + e
            rec['fns'][e] = types.FunctionType(base.__code__, g, 'f', (1000 + e,), base.__closure__)
        return rec['fns'][e]

    def gc_class(self, c):
        self.loads[c] = []
        gc.collect()

    def gc_load(self, c, load):
        self.loads[c][load] = {'ns': {}, 'fns': {}}
        gc.collect()

    def env_of(self, closure_val, global_val, default_val):
        e = closure_val - 10
        if global_val - 100 == e and default_val - 1000 == e:
            return e
        return 900 + (closure_val % 7) * 49 + (global_val % 7) * 7 + default_val % 7   # a mixed-up binding

    def clear(self):
        self.loads.clear()
        gc.collect()


class UserCtx(object):
    """user_context of the test transpiler: the caching key is .key"""

    def __init__(self, key, cls=None, fail=False):
        self.key = key
        self.cls = cls
        self.fail = fail


class Injected(Exception):
    pass


class SchedStuck(Exception):
    pass


class Sched(object):
    """Deterministic scheduler: every instrumented operation of the real code
    parks its thread until the controller grants it one step."""

    def __init__(self, timeout=20.0):
        self.cv = threading.Condition()
        self.parked = {}
        self.arrivals = collections.Counter()
        self.finished = collections.Counter()
        self.grant = {}
        self.tids = {}
        self.events = []
        self.free = False
        self.timeout = timeout
        self.serials = {}          # id(module) -> serial
        self.next_serial = 0
        self.keep = []             # keeps modules alive so that ids stay unique

    def me(self):
        return self.tids.get(threading.get_ident())

    def sync(self, kind):
        tid = self.me()
        if tid is None or self.free:
            return 'go'
        with self.cv:
            self.parked[tid] = kind
            self.arrivals[tid] += 1
            self.cv.notify_all()
            end = time.time() + self.timeout
            while tid not in self.grant and not self.free:
                self.cv.wait(0.5)
                if time.time() > end:
                    self.parked.pop(tid, None)
                    raise SchedStuck('thread %d parked at %s was never granted' % (tid, kind))
            g = self.grant.pop(tid, 'go')
            self.parked.pop(tid, None)
        return g

    def log(self, kind):
        tid = self.me()
        if tid is not None and not self.free:
            self.events.append((tid, EV[kind]))

    def wait_parked(self, tid, n0, f0, timeout=None):
        end = time.time() + (timeout or self.timeout)
        with self.cv:
            while self.arrivals[tid] == n0 and self.finished[tid] == f0:
                self.cv.wait(0.2)
                if time.time() > end:
                    return False
        return True

    def advance(self, tid, action='go', timeout=None):
        with self.cv:
            if tid not in self.parked:
                raise SchedStuck('thread %d is not at a sync point' % tid)
            n0, f0 = self.arrivals[tid], self.finished[tid]
            self.grant[tid] = action
            self.cv.notify_all()
        return self.wait_parked(tid, n0, f0, timeout)

    def release_all(self):
        with self.cv:
            self.free = True
            self.cv.notify_all()


class ProxyBucket(object):
    def __init__(self, cache, fn):
        self.cache = cache
        self.fn = fn

    def __getitem__(self, sub):
        s = self.cache.sched
        s.sync('get')
        s.log('get')
        return self.cache.real[self.fn][sub]

    def __setitem__(self, sub, v):
        s = self.cache.sched
        s.sync('put')
        s.log('put')
        self.cache.real[self.fn][sub] = v


class ProxyCache(object):
    def __init__(self, real, sched):
        self.real = real
        self.sched = sched

    def has(self, fn, sub):
        self.sched.sync('has')
        r = self.real.has(fn, sub)
        self.sched.log('hit' if r else 'miss')
        return r

    def __getitem__(self, fn):
        return ProxyBucket(self, fn)

    def __len__(self):
        return len(self.real)


class ProxyLock(object):
    def __init__(self, real, sched):
        self.real = real
        self.sched = sched

    def acquire(self, *a, **k):
        self.sched.sync('lock')
        self.sched.log('lock')
        if self.sched.me() is not None and not self.sched.free:
            if not self.real.acquire(timeout=self.sched.timeout):
                raise SchedStuck('real lock not available although the model says so')
            return True
        return self.real.acquire(*a, **k)

    def release(self):
        self.sched.sync('unlock')
        self.sched.log('unlock')
        self.real.release()

    def __enter__(self):
        self.acquire()
        return self

    def __exit__(self, et, ev, tb):
        if et is not None:
            self.real.release()     # the request dies: the machine's abort
        else:
            self.release()
        return False


def make_transpilers():
    """The test transpiler (cheap transformation that bakes the options id into
    the code) and a counting subclass of the real malt transpiler."""
    from malt.pyct import transpiler
    from malt.impl import api

    class Counting(object):
        def _c10_init(self):
            self.count = collections.Counter()     # (class, key) -> completed transform_ast calls
            self.started = collections.Counter()
            self.sched = None
            self.in_transform = 0
            self.probe = None

    class TT(transpiler.PyToPy, Counting):
        def __init__(self):
            transpiler.PyToPy.__init__(self)
            self._c10_init()

        def get_caching_key(self, ctx):
            return ctx.key

        def get_extra_locals(self):
            return {}

        def transform_ast(self, node, ctx):
            u = ctx.user
            self.started[(u.cls, u.key)] += 1
            if self.sched is not None:
                g = self.sched.sync('transform')
                if g == 'raise':
                    self.sched.log('fail')
                    raise Injected('transform_ast raised (injected)')
                self.sched.log('transform')
            elif u.fail:
                raise Injected('transform_ast raised (injected)')
            if self.probe is not None:
                self.probe(u)
            for n in ast.walk(node):
                if isinstance(n, ast.Constant) and n.value == '__OPT__':
                    n.value = u.key
            self.count[(u.cls, u.key)] += 1
            return node

    class MT(api.PyToPy, Counting):
        def __init__(self):
            api.PyToPy.__init__(self)
            self._c10_init()

        def get_extra_locals(self):
            first = self._extra_locals is None
            r = api.PyToPy.get_extra_locals(self)
            if first:
                ag = r['ag__']
                tr_self = self
                self.hits = []

                def wrap(name, orig):
                    def w(*a, **k):
                        if name == 'converted_call':
                            sc = k.get('caller_fn_scope', a[3] if len(a) > 3 else None)
                            op = k.get('options', a[4] if len(a) > 4 else None)
                            co = op if op is not None else getattr(sc, 'callopts', None)
                            t = None
                            if co is not None:
                                t = (co.recursive, co.user_requested, co.internal_convert_user_code,
                                     tuple(sorted(f.name for f in co.optional_features)))
                            tr_self.hits.append((name, getattr(a[0], '__name__', type(a[0]).__name__), t))
                        else:
                            tr_self.hits.append((name,))
                        return orig(*a, **k)
                    return w
                for name in ('converted_call', 'if_stmt', 'while_stmt', 'for_stmt'):
                    orig = getattr(ag, name, None)
                    if orig is not None:
                        setattr(ag, name, wrap(name, orig))
            return r

        def transform_ast(self, node, ctx):
            u = ctx.user
            key = (getattr(u, 'c10_cls', None), getattr(u, 'c10_key', None))
            self.started[key] += 1
            if self.sched is not None:
                g = self.sched.sync('transform')
                if g == 'raise':
                    self.sched.log('fail')
                    raise Injected('transform_ast raised (injected)')
                self.sched.log('transform')
            if self.probe is not None:
                self.probe(u)
            r = api.PyToPy.transform_ast(self, node, ctx)
            self.count[key] += 1
            return r
    return TT, MT


class FactoryPatch(object):
    """transpiler._PythonFnFactory with create / instantiate as sync points."""

    def __init__(self, sched):
        self.sched = sched

    def __enter__(self):
        from malt.pyct import transpiler
        self.mod = transpiler
        self.orig = orig = transpiler._PythonFnFactory
        sched = self.sched

        class SFactory(orig):
            def create(self, *a, **k):
                sched.sync('create')
                sched.log('create')
                r = orig.create(self, *a, **k)
                sched.serials[id(self.module)] = sched.next_serial
                sched.next_serial += 1
                sched.keep.append(self.module)
                return r

            def instantiate(self, *a, **k):
                sched.sync('instantiate')
                sched.log('instantiate')
                return orig.instantiate(self, *a, **k)
        transpiler._PythonFnFactory = SFactory
        return self

    def __exit__(self, *a):
        self.mod._PythonFnFactory = self.orig
        return False


def observe_tt(world, res, opt_marker=True):
    """What a function returned by the test transpiler is: (class, options id,
    env) read off its behaviour."""
    fn = res[0]
    a = fn(3)
    b = fn(-2)
    cval = a[0] - 3
    if b[0] != -2 - cval or a[1:] != b[1:]:
        return (999, 999, 999)
    return (a[3], a[4] if isinstance(a[4], int) else 998, world.env_of(cval, a[1], a[2]))


def run_schedule(labels, tr_cls, world, mk_ctx, observe, alias_gc=None, step_timeout=30.0):
    """Forces `labels` on the real transpiler.  Returns the observation:
    events, completed requests, transform log, errors."""
    sched = Sched(timeout=step_timeout)
    tr = tr_cls()
    tr.sched = sched
    tr._cache = ProxyCache(tr._cache, sched)
    tr._cache_lock = ProxyLock(tr._cache_lock, sched)
    tids = sorted(set(l[1] for l in labels if l[0] != 'G'))
    qs = dict((t, queue.Queue()) for t in tids)
    outs = []
    errors = []
    tlog = []

    class LogCounter(collections.Counter):
        def __setitem__(self, k, v):
            if v > self.get(k, 0):
                tlog.append(k)
            collections.Counter.__setitem__(self, k, v)
    tr.count = LogCounter()

    def worker(tid):
        sched.tids[threading.get_ident()] = tid
        while True:
            item = qs[tid].get()
            if item is None:
                return
            c, o, e, load = item
            fn = res = None
            try:
                try:
                    fn = world.fn(c, e, load)
                    res = tr.transform_function(fn, mk_ctx(c, o))
                    del fn
                    sched.sync('return')
                    sched.log('return')
                    oc, oo, oe = observe(world, res)
                    serial = sched.serials.get(id(res[1]), 997)
                    del res
                    # the machine records a completed request when it is instantiated
                    at = max([i for i, ev in enumerate(sched.events) if ev == (tid, EV['instantiate'])] or [0])
                    outs.append((at, (c, o, e, oc, oo, serial, oe)))
                except Injected:
                    pass
                except SchedStuck as ex:
                    errors.append((tid, 'SchedStuck', str(ex)))
                except Exception as ex:    # noqa
                    errors.append((tid, type(ex).__name__, str(ex)[:200]))
                    ex.__traceback__ = None
                    del ex
            finally:
                fn = res = None      # a failed request must not keep its function alive
                with sched.cv:
                    sched.finished[tid] += 1
                    sched.cv.notify_all()

    threads = [threading.Thread(target=worker, args=(t,), daemon=True) for t in tids]
    stuck = None
    done_labels = 0
    with FactoryPatch(sched):
        for t in threads:
            t.start()
        try:
            for l in labels:
                if l[0] == 'S':
                    tid = l[1]
                    n0, f0 = sched.arrivals[tid], sched.finished[tid]
                    sched.events.append((tid, EV['start']))
                    qs[tid].put((l[2], l[3], l[4], l[5] if len(l) > 5 else None))
                    if not sched.wait_parked(tid, n0, f0):
                        stuck = 'thread %d did not reach its first cache operation' % tid
                        break
                elif l[0] == 'T':
                    if not sched.advance(l[1], 'go', timeout=step_timeout):
                        stuck = 'thread %d did not come back from step %d (%s)' % (l[1], done_labels, l)
                        break
                elif l[0] == 'F':
                    if not sched.advance(l[1], 'raise'):
                        stuck = 'thread %d did not come back from the injected failure' % l[1]
                        break
                elif l[0] == 'G':
                    sched.events.append((l[1], EV['gc']))
                    if alias_gc is not None and l[1] == alias_gc[0]:
                        world.gc_load(l[1], alias_gc[1])
                    else:
                        world.gc_class(l[1])
                done_labels += 1
        except SchedStuck as ex:
            stuck = str(ex)
        finally:
            sched.release_all()
            for t in tids:
                qs[t].put(None)
            for t in threads:
                t.join(10)
    outs = [o for _, o in sorted(outs)]
    return {'events': list(sched.events), 'outs': outs, 'tlog': list(tlog), 'errors': errors, 'stuck': stuck,
            'done_labels': done_labels}


def case_text(idx, labels, obs):
    return '(%d, [%s], [%s], [%s], [%s], %d)' % (
        idx, '; '.join(coq_label(l) for l in labels),
        '; '.join('(%d, %d)' % e for e in obs['events']),
        '; '.join('(%d, %d, %d, %d, %d, %d, %d)' % o for o in obs['outs']),
        '; '.join('(%d, %d)' % k for k in obs['tlog']),
        len(obs['errors']))


def pretty_events(evs):
    return ['t%d:%s' % (t, EVNAME[k]) if k != EV['gc'] else 'gc(class %d)' % t for t, k in evs]


def judge_obs(labels, obs):
    """The property text on one forced run (no model involved): returns a list
    of (what, detail)."""
    bad = []
    if obs['stuck']:
        return [('the schedule cannot be forced on the real code (its sync points differ from the extracted skeleton)',
                 obs['stuck'])]
    for tid, tname, msg in obs['errors']:
        bad.append(('a conversion request died of %s' % tname, 'thread %d: %s' % (tid, msg)))
    for (c, o, e, oc, oo, serial, oe) in obs['outs']:
        if (oc, oo, oe) != (c, o, e):
            bad.append(('a request was served the wrong function',
                        'asked (class %d, options %d, env %d), got behaviour of (class %s, options %s, env %s)' % (
                            c, o, e, oc, oo, oe)))
    # transforms per key per epoch: epochs end at a collection of the class or a failed request of that key
    cnt = collections.Counter()
    for k in obs['tlog']:
        cnt[k] += 1
    has_reset = any(l[0] in ('G', 'F') for l in labels)
    if not has_reset:
        for k, n in cnt.items():
            if n > 1:
                bad.append(('the source transformation of one (code, options) pair ran %d times' % n,
                            'key (class %d, options %d)' % k))
    return bad


# ---------------------------------------------------------------------------
def container_cases(rnd, n, tmpdir):
    """Random op sequences on the real CodeObjectCache -> ccase terms."""
    from malt.pyct import cache as cache_mod
    world = World(tmpdir, tag='cont')
    cases = []
    for idx in range(n):
        c = cache_mod.CodeObjectCache()
        ops = []
        world.clear()
        for _ in range(rnd.randint(4, 30)):
            code = rnd.randrange(3)
            sub = rnd.randrange(3)
            x = rnd.random()
            # a function of that class: any env, first or second load (equal-by-value code objects)
            fn = world.fn(code, rnd.randrange(3), load=rnd.choice([None, 0, 1]) if x < 0.9 else None)
            if x < 0.35:
                ops.append('CHas %d %d %s' % (code, sub, vlib.coq_bool(c.has(fn, sub))))
            elif x < 0.6:
                v = rnd.randrange(50)
                c[fn][sub] = v
                ops.append('CSet %d %d %d' % (code, sub, v))
            elif x < 0.85:
                # mirror of _cached_factory; a miss must not be visible to later `has`
                try:
                    v = c[fn][sub]
                    ops.append('CGet %d %d (Some %d)' % (code, sub, v))
                except KeyError:
                    ops.append('CGet %d %d None' % (code, sub))
            else:
                del fn
                world.gc_class(code)
                ops.append('CGc %d' % code)
            fn = None
        cases.append('(%d, [%s])' % (idx, '; '.join(ops)))
    world.clear()
    return cases


def eval_cases(name, kind, cases, timeout=300):
    """kind 'c' container, 'm' machine.  -> (ok, failing indices | message)"""
    if not cases:
        return True, []
    body = ['From Coq Require Import List Arith Bool.', 'Import ListNotations.',
            'Require Import MV.Cache.Machine MV.Cache.KeySrc MV.Generated.C10_gen MV.Cache.MachineCheck.']
    if kind == 'c':
        body += ['Definition cases : list ccase := [', ';\n'.join(cases), '].',
                 'Eval vm_compute in (cfailing cases).']
    else:
        body += ['Definition cases : list case := [', ';\n'.join(cases), '].',
                 'Eval vm_compute in (failing transform_function_prog cases).']
    rc, out = vlib.coq_eval('C10', name, '\n'.join(body), timeout=timeout)
    bad = vlib.parse_coq_list_of_nat(out) if rc == 0 else None
    if bad is None:
        return False, 'model evaluation failed: ' + out[-600:]
    return True, bad


def coq_verdict(labels, timeout=600):
    """Re-runs a proposed schedule on the Coq machine: (errors, max transforms of key (0,0), coherent)."""
    body = ['From Coq Require Import List Arith Bool.', 'Import ListNotations.',
            'Require Import MV.Cache.Machine MV.Cache.KeySrc MV.Generated.C10_gen MV.Cache.MachineCheck.',
            'Eval vm_compute in (verdict transform_function_prog [%s] [(0, 0)]).' % '; '.join(coq_label(l) for l in labels)]
    rc, out = vlib.coq_eval('C10', 'verdict', '\n'.join(body), timeout=timeout)
    m = re.search(r'Some\s*\((\d+),\s*(\d+),\s*(true|false)\)', out)
    if rc != 0 or not m:
        return None
    return int(m.group(1)), int(m.group(2)), m.group(3) == 'true'


# ---------------------------------------------------------------------------
# property-level oracle: free-running threads
# ---------------------------------------------------------------------------
def stress_round(rnd, tr, world, mk_ctx, observe, nthreads, nreq, ncodes, nopts, nenvs, fail_rate=0.0,
                 reference=None):
    """One round of free-running threads.  -> list of (what, detail, request)."""
    reqs = []
    for t in range(nthreads):
        rs = []
        for _ in range(nreq):
            rs.append((rnd.randrange(ncodes), rnd.randrange(nopts), rnd.randrange(nenvs),
                       rnd.random() < fail_rate, rnd.random() * 0.0004 if rnd.random() < 0.3 else 0.0))
        reqs.append(rs)
    # all functions exist (and stay alive) before the threads start
    for rs in reqs:
        for c, o, e, _, _ in rs:
            world.fn(c, e)
    barrier = threading.Barrier(nthreads)
    results = [[] for _ in range(nthreads)]
    old = sys.getswitchinterval()
    sys.setswitchinterval(rnd.choice([1e-6, 1e-5, 1e-4, 5e-3]))

    def worker(t):
        try:
            barrier.wait(30)
        except threading.BrokenBarrierError:
            pass
        for c, o, e, fail, delay in reqs[t]:
            if delay:
                time.sleep(delay)
            try:
                ctx = mk_ctx(c, o)
                if fail:
                    ctx.fail = True
                res = tr.transform_function(world.fn(c, e), ctx)
                results[t].append(((c, o, e), observe(world, res), None))
            except Injected:
                results[t].append(((c, o, e), None, 'injected'))
            except Exception as ex:    # noqa
                results[t].append(((c, o, e), None, '%s: %s' % (type(ex).__name__, str(ex)[:300])))
    threads = [threading.Thread(target=worker, args=(t,), daemon=True) for t in range(nthreads)]
    for t in threads:
        t.start()
    for t in threads:
        t.join(120)
    sys.setswitchinterval(old)
    bad = []
    for t in range(nthreads):
        if len(results[t]) != len(reqs[t]):
            bad.append(('a conversion request never returned (deadlock?)', 'thread %d' % t, None))
        for (c, o, e), obs, err in results[t]:
            if err == 'injected':
                continue
            if err:
                bad.append(('a conversion request died of ' + err.split(':')[0], err, (c, o, e)))
            else:
                want = reference(c, o, e) if reference else (c, o, e)
                if obs != want:
                    bad.append(('a request was served the wrong function',
                                'asked (class %d, options %d, env %d): fresh conversion gives %r, cache gave %r' % (
                                    c, o, e, want, obs), (c, o, e)))
    return bad


def check(run):
    run.rule = ('container: random has/set/get/collect sequences on CodeObjectCache (3 code classes x 2 loads x 3 subkeys); '
                'machine: random valid schedules of 1-4 threads x 1-3 requests over 2-3 code classes x 2 options x 3 envs with '
                'injected failures and collections, forced on the real PyToPy; oracle: free-running 1..32 threads with random '
                'barriers / switch intervals on the test transpiler and on api.PyToPy; allowlist cache: forced request histories over 8 related '
                'callables (plain functions, do_not_convert / convert / functools.wraps wrappers of them, bound methods, a twin on the '
                'same code object), all ordered related pairs + random ones, decision log incl. nested requests; '
                'entry layer: ask / rebind in place (__defaults__, __kwdefaults__, __code__, closure cell, global) / ask again for 5 '
                'function objects x every entry point (to_graph, reused convert wrapper, converted_call, via a converted caller), the '
                'same object under 3 option sets, random mixes with 1-3 threads, each vs CPython now and vs the request made alone; '
                'distinct non-trivial = distinct event traces / decision logs')
    tmp = vlib.ensure_dir(os.path.join(vlib.BUILD, 'tmp', str(os.getpid())))
    os.environ['TMPDIR'] = tmp
    import tempfile
    tempfile.tempdir = tmp
    try:
        _check(run, tmp)
    finally:
        tempfile.tempdir = None
        shutil.rmtree(tmp, ignore_errors=True)


def _check(run, tmp):
    thorough = run.tier == 'thorough'
    rnd = random.Random(run.seed * 7919 + 10)
    # 1. regenerate
    tie_msg = None
    prog = None
    funnel = None
    try:
        text = generate()
        prog = _tup(c10_cache.parse_prog(text))
        funnel = re.search(r'Definition entry_funnel : funnel := (.*?)\.\n', text).group(1)
    except c10_cache.Untranslatable as e:
        tie_msg = str(e)
        run.note(tie_msg)
    # 2. proofs
    dc_ok = False
    if tie_msg is None:
        vlib.standard_proof_step(run, ['Cache/MachineCheck.vo', 'Cache/AllowlistCheck.vo', 'Cache/EntryCheck.vo'])
        # the obligation of the entry layer (funnel_ok entry_funnel) is searched by the rebinding histories below,
        # those of the machine by the schedule search of step 5
        dc_ok = all(o.discharged() for o in run.obligations if o.name != 'entry_coherent')
    TT, MT = make_transpilers()
    failures = []          # (title, replay dict, classify)

    def mk_ctx(c, o):
        return UserCtx(o, cls=c)

    # 3a. container correspondence
    corr_bad = None
    ccases = container_cases(rnd, 450 if thorough else 120, tmp)
    run.count(len(ccases))
    if tie_msg is None:
        ok, bad = eval_cases('container', 'c', ccases)
        if not ok:
            corr_bad = bad
        elif bad:
            corr_bad = 'container abstraction and CodeObjectCache disagree on op sequences %s, e.g. %s' % (
                bad[:5], ccases[bad[0]][:600])
    # 3b. machine vs real PyToPy on forced schedules
    world = World(tmp)
    mcases = []
    sched_records = []
    nsched = (1500 if thorough else 70) if prog is not None else 0
    for idx in range(nsched):
        if idx < nsched // 4:
            nthreads = 1
            nreq = rnd.randint(2, 6)
        else:
            nthreads = rnd.randint(2, 4)
            nreq = rnd.randint(1, 3)
        labels = random_schedule(prog, rnd, nthreads, nreq, rnd.randint(1, 3), 2, 3)
        world.clear()
        obs = run_schedule(labels, TT, world, mk_ctx, observe_tt)
        run.count()
        run.nontriv(tuple(obs['events']))
        mcases.append(case_text(idx, labels, obs))
        sched_records.append((labels, obs))
        if idx in (0, nsched // 2, nsched - 1):
            run.sample({'schedule': [coq_label(l) for l in labels], 'events_on_real_code': pretty_events(obs['events'])[:40]})
        for what, detail in judge_obs(labels, obs):
            failures.append((what, {'what': what, 'detail': detail, 'kind': 'forced-schedule', 'transpiler': 'TT',
                                    'schedule': [list(l) for l in labels],
                                    'events_observed': pretty_events(obs['events'])}, None))
    if prog is not None and corr_bad is None:
        ok, bad = True, []
        from concurrent.futures import ThreadPoolExecutor
        shards = [mcases[i:i + 300] for i in range(0, len(mcases), 300)]
        with ThreadPoolExecutor(max_workers=4) as ex:
            for okk, b in ex.map(lambda ic: eval_cases('machine%d' % ic[0], 'm', ic[1], timeout=600), enumerate(shards)):
                if not okk:
                    ok, bad = False, b
                elif ok:
                    bad = bad + b
        if not ok:
            corr_bad = bad
        elif bad:
            labels, obs = sched_records[bad[0]]
            corr_bad = 'machine and real PyToPy disagree on %d schedules, e.g. #%d: %s / observed %s' % (
                len(bad), bad[0], [coq_label(l) for l in labels], pretty_events(obs['events']))
        else:
            run.extra['traces_validated_against_impl'] = len(mcases)
    # 3c. the known finding, reproduced on the real code by the schedule of the `_refuted` theorem
    alias_labels = alias_schedule(prog) if prog is not None else None
    if alias_labels:
        world.clear()
        obs = run_schedule(alias_labels, TT, world, mk_ctx, observe_tt, alias_gc=(0, 0))
        run.count()
        keyerr = [e for e in obs['errors'] if e[1] == 'KeyError']
        run.extra['alias_gc_probe'] = {'events': pretty_events(obs['events']), 'errors': obs['errors']}
        if keyerr and not obs['stuck']:
            failures.append(('KeyError in _cached_factory when an equal-by-value code object dies between has() and the read',
                             {'what': 'bucket keyed weakly by the first of two equal code objects is collected under a request in flight',
                              'kind': 'alias-gc', 'schedule': [list(l) for l in alias_labels],
                              'events_observed': pretty_events(obs['events']), 'errors': obs['errors']}, KF_ALIAS))
        elif obs['errors'] or obs['stuck']:
            failures.append(('alias/collection probe failed in an unexpected way',
                             {'kind': 'alias-gc', 'schedule': [list(l) for l in alias_labels], 'errors': obs['errors'],
                              'stuck': obs['stuck']}, None))
    # 4. property-level oracle
    failures += oracle(run, rnd, tmp, TT, MT, thorough)
    failures += nested_histories(run, rnd, tmp, thorough)
    failures += redefinition_histories(run, rnd, tmp, thorough)
    mu_fail, mu_corr = mutation_histories(run, rnd, tmp, thorough, tie_msg is None, funnel)
    failures += mu_fail
    al_fail, al_corr = allowlist_histories(run, rnd, tmp, thorough, tie_msg is None)
    failures += al_fail
    if al_corr and corr_bad is None:
        corr_bad = al_corr
    if mu_corr and corr_bad is None:
        corr_bad = mu_corr
    # 5. search, if the discipline or the tie broke
    searched = ''
    if prog is not None and not dc_ok:
        labels, why = search_violation(prog)
        searched = 'machine search found no violating schedule of 2-3 threads'
        if labels:
            v = coq_verdict(labels)
            world.clear()
            obs = run_schedule(labels, TT, world, mk_ctx, observe_tt)
            bad = judge_obs(labels, obs)
            searched = 'machine schedule %s (%s; Coq machine verdict %s) ' % ([coq_label(l) for l in labels], why, v)
            if bad:
                failures.append((bad[0][0], {'what': bad[0][0], 'detail': bad[0][1], 'kind': 'forced-schedule-min',
                                             'transpiler': 'TT', 'found_by': 'search of the machine for a schedule violating: ' + why,
                                             'coq_machine_verdict(errors,max_transforms,coherent)': v,
                                             'schedule': [list(l) for l in labels],
                                             'events_observed': pretty_events(obs['events'])}, None))
            else:
                searched += 'did not reproduce on the real code'
    # verdict
    seen = set()
    order = {'forced-schedule-min': -1, 'mutation-history': 1, 'allowlist-history': 1, 'nested-history': 1, 'redefinition-history': 1, 'option-field-history': 2, 'forced-schedule': 0, 'overlap-probe': 1, 'preemption-sweep': 1, 'sequential-history': 2, 'redefinition': 2}
    failures.sort(key=lambda f: order.get(f[1].get('kind'), 5))
    for title, rep, cls in failures:
        norm = re.sub(r'\d+', 'N', title)
        if (norm, cls) in seen:
            continue
        seen.add((norm, cls))
        rep = dict(rep)
        rep['command'] = 'cd /verif && VERIF_REPO=%s bin/check C10 --replay <this file>' % vlib.REPO
        run.violation(title, rep, found_input=True, classify=cls)
    real_fail = [f for f in failures if f[2] is None]
    if not real_fail:
        if tie_msg is not None:
            run.violation('translator no longer recognises the cache-access code: ' + tie_msg,
                          {'broken_tie': tie_msg, 'searched': 'forced-overlap probes, sequential histories and free-running '
                           'threads on the real code found no failing input'}, found_input=False)
        elif corr_bad:
            run.violation('correspondence model/implementation broken', {'broken_correspondence': corr_bad,
                          'searched': 'oracle found no failing input'}, found_input=False)
        elif not dc_ok and searched:
            run.extra['search'] = searched
    run.assumptions += [
        'single dict / WeakKeyDictionary operations (get, in, setitem) are atomic under the GIL',
        'threading.RLock is a re-entrant mutex; `with` releases it on every exit',
        'weakref callbacks remove a bucket only when its key code object is dead; code objects compare by value',
        'instantiate() is a function of (factory, globals, closure, defaults, kwdefaults) -- exercised by the oracle, not proved',
        'ConversionOptions eq/hash agree with the attribute tuple (C20)',
        'entry layer: attributes of a function object are rebound between the requests on that object, not while one is in flight; '
        'one to_graph / converted_call / wrapper call = one request reading the attributes once',
        'allowlist machine: the context-independent reasons to run a callable as-is (artifact, unsupported, allowlisted module, '
        'no source) are properties of the function object -- for a bound method, of its __func__, not of the instance it is bound to',
    ]


# ---------------------------------------------------------------------------
def overlap_probe(TT, world, mk_ctx, nwaiters=2, hold=0.25):
    """Model-independent forced overlap: thread A is held inside transform_ast
    while the others ask for the same key.  -> (what, detail) list"""
    tr = TT()
    entered = threading.Event()
    release = threading.Event()
    inside = []
    lock = threading.Lock()

    def probe(u):
        with lock:
            inside.append(threading.get_ident())
            first = len(inside) == 1
        if first:
            entered.set()
            release.wait(20)
    tr.probe = probe
    fns = [world.fn(0, e) for e in range(nwaiters + 1)]
    res = [None] * (nwaiters + 1)

    def worker(i):
        try:
            r = tr.transform_function(fns[i], mk_ctx(0, 1))
            res[i] = observe_tt(world, r)
        except Exception as ex:   # noqa
            res[i] = 'ERR %s: %s' % (type(ex).__name__, ex)
    ths = [threading.Thread(target=worker, args=(i,), daemon=True) for i in range(nwaiters + 1)]
    ths[0].start()
    entered.wait(20)
    for t in ths[1:]:
        t.start()
    time.sleep(hold)
    overlapped = len(inside)
    release.set()
    for t in ths:
        t.join(30)
    bad = []
    n = tr.count[(0, 1)]
    if overlapped > 1:
        bad.append(('two threads are inside the source transformation of the same (code, options) at the same time',
                    '%d threads entered transform_ast while the first one was still inside' % overlapped))
    if n != 1:
        bad.append(('the source transformation of one (code, options) pair ran %d times' % n,
                    'thread 0 held inside transform_ast, %d threads asking for the same key meanwhile' % nwaiters))
    for i, r in enumerate(res):
        if r != (0, 1, i):
            bad.append(('a request was served the wrong function', 'thread %d asked (class 0, options 1, env %d), got %r' % (i, i, r)))
    return bad


def preemption_sweep(TT, world, mk_ctx, block_wait=0.15, max_points=140, only=None):
    """Model-independent forced interleavings at *line* granularity: thread A
    is stopped before its n-th line event (every n) inside
    PyToPy.transform_function / _cached_factory AND inside every method of the
    cache classes of malt/pyct/cache.py it calls (has, __getitem__, _get_key:
    the lock-free probe must be atomic w.r.t. the other threads), thread B then
    makes a request for the same key and runs until it returns or blocks; A
    resumes.  -> (what, detail, n, schedule) list"""
    from malt.pyct import transpiler
    from malt.pyct import cache as cache_mod
    target = transpiler.PyToPy.transform_function.__code__
    extra = getattr(transpiler.PyToPy, '_cached_factory', None)
    targets = {target} | ({extra.__code__} if extra is not None else set())
    for cls in (cache_mod._TransformedFnCache, cache_mod.CodeObjectCache):
        for v in vars(cls).values():
            if isinstance(v, types.FunctionType):
                targets.add(v.__code__)

    def one(n):
        tr = TT()
        state = {'lines': 0, 'trace': []}
        parked = threading.Event()
        resume = threading.Event()
        res = [None, None]

        def local(frame, event, arg):
            if event == 'line':
                state['lines'] += 1
                if state['lines'] <= n:
                    state['trace'].append('%s:%d(%s)' % (os.path.basename(frame.f_code.co_filename), frame.f_lineno,
                                                         frame.f_code.co_name))
                if state['lines'] == n:
                    parked.set()
                    resume.wait(20)
            return local

        def tracer(frame, event, arg):
            if frame.f_code in targets:
                return local
            return None

        def run_a():
            sys.settrace(tracer)
            try:
                res[0] = observe_tt(world, tr.transform_function(world.fn(0, 0), mk_ctx(0, 1)))
            except Exception as ex:   # noqa
                res[0] = 'ERR %s: %s' % (type(ex).__name__, ex)
            finally:
                sys.settrace(None)
                parked.set()

        def run_b():
            try:
                res[1] = observe_tt(world, tr.transform_function(world.fn(0, 1), mk_ctx(0, 1)))
            except Exception as ex:   # noqa
                res[1] = 'ERR %s: %s' % (type(ex).__name__, ex)
        ta = threading.Thread(target=run_a, daemon=True)
        tb = threading.Thread(target=run_b, daemon=True)
        ta.start()
        parked.wait(20)
        reached = state['lines'] >= n and ta.is_alive()
        if reached:
            tb.start()
            tb.join(block_wait)
        resume.set()
        ta.join(30)
        if reached:
            tb.join(30)
        return reached, tr, res, state['trace']
    bad = []
    n = only or 1
    while n <= max_points:
        reached, tr, res, trace = one(n)
        if not reached:
            break
        cnt = tr.count[(0, 1)]
        at = trace[-1] if trace else '?'
        where = ('thread A (request: class 0, options 1, env 0) stopped before executing %s (its line event #%d), '
                 'thread B asked for the same key (env 1) meanwhile and ran until it returned or blocked, then A resumed' % (at, n))
        sched = {'thread_A_lines_executed_before_the_switch': trace[:-1], 'thread_A_paused_before': at,
                 'then': 'thread B: transform_function(same code object, same options) until return/block; thread A resumes',
                 'transform_ast_runs_for_the_key': cnt, 'results(A,B)': [repr(r) for r in res]}
        if cnt != 1:
            bad.append(('the source transformation of one (code, options) pair ran %d times' % cnt, where, n, sched))
        for i in (0, 1):
            if res[i] != (0, 1, i):
                bad.append(('a request was served the wrong function' if not str(res[i]).startswith('ERR')
                            else 'a conversion request died of ' + str(res[i])[4:].split(':')[0],
                            where + '; thread %s got %r' % ('AB'[i], res[i]), n, sched))
        if only:
            break
        n += 1
    return bad, n - 1


def oracle(run, rnd, tmp, TT, MT, thorough):
    failures = []
    world = World(tmp, tag='orc')

    def mk_ctx(c, o):
        return UserCtx(o, cls=c)

    def rep(kind, what, detail, **kw):
        d = {'what': what, 'detail': detail, 'kind': kind}
        d.update(kw)
        return d
    # -- deterministic overlap probes
    for nw in ((1, 2, 3) if not thorough else (1, 2, 3, 5, 8)):
        world.clear()
        for what, detail in overlap_probe(TT, world, mk_ctx, nwaiters=nw):
            failures.append((what, rep('overlap-probe', what, detail, waiters=nw), None))
        run.count()
    # -- one context switch at every line of transform_function
    world.clear()
    sweep_bad, npoints = preemption_sweep(TT, world, mk_ctx)
    run.count(npoints)
    run.extra['preemption_points_swept'] = npoints
    for what, detail, n, sched in sweep_bad:
        failures.append((what, rep('preemption-sweep', what, detail, point=n, schedule=sched), None))
    # -- sequential histories: sharing, aliasing, redefinition, collection
    for what, detail, hist in sequential_histories(rnd, TT, world, mk_ctx, 400 if thorough else 20):
        failures.append((what, rep('sequential-history', what, detail, history=hist), None))
    run.count(400 if thorough else 20)
    # -- free running threads on the test transpiler
    rounds = 200 if thorough else 14
    sizes = [1, 2, 3, 4, 8, 16, 32]
    for r in range(rounds):
        nthreads = sizes[r % len(sizes)] if r < 2 * len(sizes) else rnd.randint(1, 32)
        tr = TT()
        world.clear()
        ncodes, nopts, nenvs = rnd.randint(1, 3), rnd.randint(1, 3), rnd.randint(1, 4)
        nreq = rnd.randint(1, 6)
        seed_state = rnd.getstate()
        bad = stress_round(rnd, tr, world, mk_ctx, observe_tt, nthreads, nreq, ncodes, nopts, nenvs,
                           fail_rate=0.1 if r % 3 == 2 else 0.0)
        run.count(nthreads * nreq)
        for (k, n) in tr.count.items():
            if n > 1:
                bad.append(('the source transformation of one (code, options) pair ran %d times' % n,
                            'free-running: key (class %s, options %s), %d threads' % (k[0], k[1], nthreads), None))
        for what, detail, req in bad:
            failures.append((what, rep('free-running', what, detail, threads=nthreads, requests_per_thread=nreq,
                                       code_classes=ncodes, options=nopts, envs=nenvs, round=r,
                                       note='non-deterministic: the replay repeats the round up to 200 times'), None))
    # -- the real malt transpiler
    failures += malt_oracle(run, rnd, tmp, MT, thorough)
    failures += field_histories(run, tmp, MT, thorough)
    world.clear()
    return failures


def sequential_histories(rnd, TT, world, mk_ctx, n):
    """Histories with shared code objects, equal-by-value code objects,
    redefinitions and collections on one thread; every answer is compared with
    the cache-less expectation and transforms are counted per epoch."""
    bad = []
    for h in range(n):
        tr = TT()
        world.clear()
        hist = []
        epoch = collections.Counter()
        for _ in range(rnd.randint(3, 14)):
            x = rnd.random()
            c, o, e = rnd.randrange(3), rnd.randrange(3), rnd.randrange(4)
            if x < 0.12:
                world.gc_class(c)
                hist.append(['collect', c])
                for k in list(tr.count):
                    if k[0] == c:
                        epoch[k] = tr.count[k]
                continue
            load = rnd.choice([None, None, 0, 1])
            hist.append(['request', c, o, e, load])
            before = tr.count[(c, o)]
            try:
                got = observe_tt(world, tr.transform_function(world.fn(c, e, load), mk_ctx(c, o)))
            except Exception as ex:   # noqa
                bad.append(('a conversion request died of ' + type(ex).__name__, str(ex)[:200], list(hist)))
                break
            if got != (c, o, e):
                bad.append(('a request was served the wrong function',
                            'asked (class %d, options %d, env %d), got %r' % (c, o, e, got), list(hist)))
                break
            if tr.count[(c, o)] - epoch[(c, o)] > 1:
                bad.append(('the source transformation of one (code, options) pair ran %d times' % (
                    tr.count[(c, o)] - epoch[(c, o)]), 'key (class %d, options %d) without a collection in between' % (c, o),
                    list(hist)))
                break
    return bad


FIELD_SRC = '''from malt.core import ag_ctx
G = 100
def helper(v):
    if v > 2:
        v = v + 1
    return v
def make(c):
    def f(x, d=5):
        st = ag_ctx.control_status_ctx().status.name
        s = 0
        i = 0
        while i < x:
            if i %% 2 == 0:
                s = s + c
            else:
                s = s + G
            i = i + 1
        return (s + helper(x), G, d, %(ver)d, st)
    return f
'''


def field_variants(Feature):
    """Pairs of option values differing in exactly ONE field: (field, kwargs A, kwargs B)."""
    bases = [dict(recursive=True, user_requested=True, internal_convert_user_code=True, optional_features=None),
             dict(recursive=False, user_requested=False, internal_convert_user_code=True,
                  optional_features=(Feature.LISTS,))]
    out = []
    for b in bases:
        for fld in ('recursive', 'user_requested', 'internal_convert_user_code'):
            o = dict(b)
            o[fld] = not b[fld]
            out.append((fld, b, o))
        for other in (None, (Feature.LISTS,), Feature.EQUALITY_OPERATORS, (Feature.LISTS, Feature.BUILTIN_FUNCTIONS)):
            if other != b['optional_features']:
                o = dict(b)
                o['optional_features'] = other
                out.append(('optional_features', b, o))
    return out


def opt_repr(kw):
    f = kw['optional_features']
    fs = 'None' if f is None else ('(%s)' % ', '.join(x.name for x in f) if isinstance(f, tuple) else f.name)
    return 'ConversionOptions(recursive=%r, user_requested=%r, internal_convert_user_code=%r, optional_features=%s)' % (
        kw['recursive'], kw['user_requested'], kw['internal_convert_user_code'], fs)


def field_observe(tr, res):
    """Generated source text + run-time behaviour (value, conversion status seen
    inside, overloaded-operator hits with the call options they were given)."""
    fn, module, _ = res
    try:
        with open(module.__file__) as f:
            src = f.read()
    except OSError:
        src = '<no source>'
    tr.hits = []
    try:
        val = repr(fn(4))
    except Exception as ex:   # noqa
        val = 'raised %s: %s' % (type(ex).__name__, str(ex)[:120])
    hits = list(tr.hits)
    tr.hits = []
    return {'source': src, 'value': val, 'operator_hits': hits}


def run_field_history(MT, world, hist, converter):
    """hist: list of option kwargs, all for the same function object.  Every
    answer of ONE transpiler is compared with a fresh transpiler's answer to
    the same single request.  -> None or a failure description"""
    class PC(converter.ProgramContext):
        pass
    fn = world.fn(0, 1)
    tr = MT()
    tr.get_extra_locals()
    for idx, kw in enumerate(hist):
        got = field_observe(tr, tr.transform_function(fn, PC(options=converter.ConversionOptions(**kw))))
        fresh = MT()
        fresh.get_extra_locals()
        want = field_observe(fresh, fresh.transform_function(fn, PC(options=converter.ConversionOptions(**kw))))
        diffs = [k for k in ('source', 'value', 'operator_hits') if got[k] != want[k]]
        if diffs:
            d = {'request_index': idx, 'differs_in': diffs}
            if 'source' in diffs:
                gl, wl = got['source'].split('\n'), want['source'].split('\n')
                dl = [(a.strip(), b.strip()) for a, b in zip(gl, wl) if a != b][:3]
                d['source_lines(cache, fresh)'] = dl
            if 'value' in diffs:
                d['value(cache, fresh)'] = (got['value'], want['value'])
            if 'operator_hits' in diffs:
                d['operator_hits(cache, fresh)'] = (repr(got['operator_hits'])[:400], repr(want['operator_hits'])[:400])
            return d
    return None


def field_histories(run, tmp, MT, thorough):
    """The same function object requested under option values that differ in
    exactly one field, in both orders (and with a repeat)."""
    from malt.core import converter
    failures = []
    world = World(tmp, src=FIELD_SRC, tag='fld')
    variants = field_variants(converter.Feature)
    if not thorough:
        variants = [v for v in variants if v[1]['recursive']]      # first base only
    n = 0
    for fld, a, b in variants:
        for hist in ([a, b], [b, a], [a, b, a]):
            n += 1
            try:
                d = run_field_history(MT, world, hist, converter)
            except Exception as ex:   # noqa
                d = {'raised': '%s: %s' % (type(ex).__name__, str(ex)[:300]), 'traceback': traceback.format_exc()[-1200:]}
            if d:
                what = 'a request is served the conversion made for options that differ only in %s' % fld
                rep = {'what': what, 'kind': 'option-field-history', 'field': fld,
                       'history': [opt_repr(k) for k in hist], 'history_kwargs': [enc_kw(k) for k in hist],
                       'function': 'f = make(11) of FIELD_SRC (tools/props/c10.py), same function object in every request',
                       'detail': 'request #%s of the history differs from a fresh transpiler converting the same function '
                                 'under the same options' % d.get('request_index')}
                rep.update(d)
                failures.append((what, rep, None))
                break
    run.count(n)
    run.extra['option_field_histories'] = n
    world.clear()
    return failures


def enc_kw(kw):
    f = kw['optional_features']
    k = dict(kw)
    k['optional_features'] = None if f is None else ([x.name for x in f] if isinstance(f, tuple) else f.name)
    return k


def dec_kw(k, Feature):
    f = k['optional_features']
    k = dict(k)
    k['optional_features'] = None if f is None else (tuple(Feature[x] for x in f) if isinstance(f, list) else Feature[f])
    return k



AL_SRC = '''def f0(x):
    return (RUNS('f0'), x + 1)
def f1(x):
    return (RUNS('f1'), x * 2)
def leaf(x):
    return (RUNS('leaf'), x + 1)
@DNC
def apply_quietly(cb, x):
    return cb(x)
def outer(x):
    def callback(v):
        return leaf(v)
    inside = apply_quietly(callback, x)
    after = leaf(x)
    return (inside, after)
class Holder(object):
    def m(self, x):
        return (RUNS('m'), x + 1)
def deco(fn):
    @WRAPS(fn)
    def w(x):
        return fn(x)
    return w
'''

# The callables a history asks converted_call about: (description, base function whose body runs, kind).
# Indices 0/1 are the two plain functions; the others are RELATED to them the ways function objects are related in
# practice: decorator wrappers carrying __wrapped__ (malt's own do_not_convert / convert, a user functools.wraps
# decorator), one function handed over as bound method of two instances, a second function object on the same
# code object.  kind 'artifact' = has a context-independent reason to run as-is under every option set.
AL_ENTITIES = [
    ('f0', 'f0', 'plain'),
    ('f1', 'f1', 'plain'),
    ('do_not_convert(f0)', 'f0', 'artifact'),
    ('convert(recursive=True)(f1)', 'f1', 'artifact'),
    ('deco(f1)  [user decorator built with functools.wraps]', 'f1', 'plain'),
    ('Holder().m  [bound method, instance a]', 'm', 'plain'),
    ('Holder().m  [bound method, instance b]', 'm', 'plain'),
    ('autograph_artifact(types.FunctionType(f0.__code__, ...))  [second function object on the code object of f0]', 'f0',
     'artifact'),
]
AL_GROUPS = [[0, 2, 7], [1, 3, 4], [5, 6]]


def allowlist_histories(run, rnd, tmp, thorough, tie_ok, only_hist=None):
    """The allowlist cache (second cache on the request path): histories mixing
    requests made from a DISABLED calling context and enabled requests for the
    same function object and options, 1..N threads, in a forced order (each
    request runs in its own thread's context) and free-running.  Every enabled
    request must run CONVERTED code; observed outcomes are also compared with
    the allowlist machine (evaluated in Coq).

    The callables are AL_ENTITIES: the plain functions and callables related
    to them (wrappers carrying __wrapped__, bound methods, a second function
    object on the same code object); every ordered pair of related callables
    is requested in both orders.  What is judged is the log of ALL decisions
    of converted_call (hooks on _convert_actual / _call_unconverted), i.e.
    also the nested requests issued by wrappers and by converted code: an
    enabled request for a (function object, options) pair without a
    context-independent reason to run as-is must be converted whatever was
    requested before for OTHER function objects.  The same log is the input
    of the machine with the generated key function (ecase / echeck)."""
    from malt.core import ag_ctx, converter
    from malt.impl import api
    failures = []
    fname = os.path.join(tmp, 'c10_allow.py')
    with open(fname, 'w') as f:
        f.write(AL_SRC)

    @api.do_not_convert
    def RUNS(name):
        fr = sys._getframe()
        while fr is not None:
            if fr.f_code.co_name == 'ag__' + name:
                return True
            fr = fr.f_back
        return False

    def load():
        ns = {'__name__': 'c10_allow', 'RUNS': RUNS, 'DNC': api.do_not_convert, 'WRAPS': functools.wraps}
        exec(compile(AL_SRC, fname, 'exec'), ns)
        return ns

    def entities(ns):
        f0, f1 = ns['f0'], ns['f1']
        a, b = ns['Holder'](), ns['Holder']()
        twin = types.FunctionType(f0.__code__, f0.__globals__, 'f0', f0.__defaults__, f0.__closure__)
        return [f0, f1, api.do_not_convert(f0), api.convert(recursive=True)(f1), ns['deco'](f1), a.m, b.m,
                api.autograph_artifact(twin)]
    OPTS = [converter.ConversionOptions(recursive=True, user_requested=True, optional_features=None),
            converter.ConversionOptions(recursive=False, user_requested=False, internal_convert_user_code=False,
                                        optional_features=None)]       # the second one: context-independent "run as-is"
    OPT_TXT = ['ConversionOptions(recursive=True, user_requested=True, optional_features=None)',
               'ConversionOptions(recursive=False, user_requested=False, internal_convert_user_code=False, optional_features=None)']
    want_val = {'f0': lambda x: x + 1, 'f1': lambda x: x * 2, 'm': lambda x: x + 1}

    def request(fn, opt, disabled, x):
        status = ag_ctx.Status.DISABLED if disabled else ag_ctx.Status.UNSPECIFIED
        with ag_ctx.ControlStatusCtx(status=status):
            return api.converted_call(fn, (x,), None, options=OPTS[opt])

    def describe(hist):
        return ['thread %d: with ControlStatusCtx(%s): converted_call(%s, (3,), None, options=%s)' % (
            t, 'DISABLED' if d else 'UNSPECIFIED', AL_ENTITIES[fi][0], OPT_TXT[o]) for (t, fi, o, d) in hist]

    class Registry(object):
        """The function objects / option values the requests of one history
        are about (requests issued by the harness AND the nested ones issued by
        the code they run), numbered for the machine."""

        def __init__(self, ents):
            self.objs = []        # function objects, by identity
            self.kinds = []
            self.names = []
            self.opts = list(OPTS)
            for e, (name, _, kind) in zip(ents, AL_ENTITIES):
                self.fn_id(e, kind, name.split('  [')[0])
            self.fn_id(RUNS, 'artifact', 'RUNS  [do_not_convert helper called by the bodies]')

        def fn_id(self, f, kind=None, name=None):
            base = f.__func__ if inspect.ismethod(f) else f
            for i, o in enumerate(self.objs):
                if o is base:
                    return i
            self.objs.append(base)
            self.kinds.append(kind)          # None: a callable the harness did not create
            self.names.append(name or getattr(base, '__qualname__', type(base).__name__))
            return len(self.objs) - 1

        def opt_id(self, o):
            for i, q in enumerate(self.opts):
                if q == o:
                    return i
            self.opts.append(o)
            return len(self.opts) - 1

        def static(self, fn, o):
            return self.kinds[fn] == 'artifact' or not self.opts[o].internal_convert_user_code

        def table(self):
            """(id, __wrapped__ id or None, code class) per function object"""
            codes = []
            rows = []
            i = 0
            while i < len(self.objs):          # fn_id below may append the wrapped functions
                f = self.objs[i]
                w = getattr(f, '__wrapped__', None)
                wid = self.fn_id(w, 'plain', 'the function wrapped by ' + self.names[i]) if inspect.isfunction(w) else None
                c = getattr(f, '__code__', None)
                for ci, q in enumerate(codes):
                    if q is c:
                        break
                else:
                    codes.append(c)
                    ci = len(codes) - 1
                rows.append((i, wid, ci))
                i += 1
            return rows

        def related(self, a, b):
            fa, fb = self.objs[a], self.objs[b]
            if getattr(fa, '__wrapped__', None) is fb:
                return 'a wrapper of it (wrapper.__wrapped__ is the function)'
            if getattr(fb, '__wrapped__', None) is fa:
                return 'the function it wraps (its __wrapped__)'
            if getattr(fa, '__code__', 0) is getattr(fb, '__code__', 1):
                return 'another function object with the same code object'
            return None

    def run_forced(hist):
        """each request is executed by its own thread, one after the other;
        every decision of api.converted_call (also for the nested requests made
        by the code a request runs) is logged: _convert_actual = converts,
        _call_unconverted = runs as-is"""
        ns = load()
        ents = entities(ns)
        reg = Registry(ents)
        tids = sorted(set(h[0] for h in hist))
        qs = dict((t, queue.Queue()) for t in tids)
        done = queue.Queue()
        tid_of = {}
        log = []
        o_unconv, o_conv, o_fall = api._call_unconverted, api._convert_actual, api._fall_back_unconverted

        failed = {}

        def entry(f, options, conv):
            t = tid_of.get(threading.get_ident())
            if t is not None:
                e = {'tid': t, 'fn': reg.fn_id(f), 'bound': bool(inspect.ismethod(f)), 'opt': reg.opt_id(options),
                     'disabled': ag_ctx.control_status_ctx().status == ag_ctx.Status.DISABLED, 'conv': conv,
                     'obj': None}
                e['obj'] = reg.names[e['fn']] + (' (as bound method)' if e['bound'] else '')
                if not conv and t in failed:
                    e['failed'] = failed.pop(t)
                log.append(e)

        def h_unconv(f, args, kwargs, options, update_cache=True):
            entry(f, options, False)
            return o_unconv(f, args, kwargs, options, update_cache)

        def h_conv(entity, program_ctx):
            entry(entity, program_ctx.options, True)
            return o_conv(entity, program_ctx)

        def h_fall(f, args, kwargs, options, exc):
            t = tid_of.get(threading.get_ident())
            for i in range(len(log) - 1, -1, -1):      # the conversion attempt of this request failed: it runs as-is
                if log[i]['tid'] == t:
                    if log[i]['conv']:
                        log[i]['drop'] = True
                    break
            if t is not None:
                failed[t] = '%s: %s' % (type(exc).__name__, str(exc)[:160])
            return o_fall(f, args, kwargs, options, exc)

        def worker(t):
            tid_of[threading.get_ident()] = t
            while True:
                it = qs[t].get()
                if it is None:
                    return
                fi, o, d = it
                try:
                    done.put(request(ents[fi], o, d, 3))
                except Exception as ex:   # noqa
                    done.put('ERR %s: %s' % (type(ex).__name__, str(ex)[:200]))
        api._call_unconverted, api._convert_actual, api._fall_back_unconverted = h_unconv, h_conv, h_fall
        try:
            ths = [threading.Thread(target=worker, args=(t,), daemon=True) for t in tids]
            for th in ths:
                th.start()
            obs = []
            spans = []
            for (t, fi, o, d) in hist:
                n0 = len(log)
                qs[t].put((fi, o, d))
                obs.append(done.get(timeout=60))
                spans.append((n0, len(log)))
            for t in tids:
                qs[t].put(None)
            for th in ths:
                th.join(10)
        finally:
            api._call_unconverted, api._convert_actual, api._fall_back_unconverted = o_unconv, o_conv, o_fall
        log = [e for e in log if not e.get('drop')]
        return obs, {'log': log, 'spans': spans, 'reg': reg}

    def show(e):
        return 'thread %d, %s context: converted_call(%s, options #%d) -> %s' % (
            e['tid'], 'DISABLED' if e['disabled'] else 'enabled', e['obj'], e['opt'],
            'converted' if e['conv'] else 'run as-is' + (' (conversion failed: %s)' % e['failed'] if e.get('failed') else ''))

    def judge(hist, obs, mode, trace=None):
        for idx, ((t, fi, o, d), r) in enumerate(zip(hist, obs)):
            if isinstance(r, str):
                return ('a converted_call request died of ' + r[4:].split(':')[0], idx, r)
            conv, val = r
            _, base, kind = AL_ENTITIES[fi]
            if val != want_val[base](3):
                return ('converted_call changes the result', idx, repr(r))
            if kind != 'plain':
                continue
            plain_fn = fi in (0, 1, 5, 6)        # the callable IS the function whose body reports RUNS
            if not d and o == 0 and not conv and plain_fn and trace is None:
                return ('an enabled request runs the unconverted function because of an earlier request from a '
                        'DISABLED context (allowlist cache)', idx, repr(r))
            if d and conv and mode == 'forced':
                return ('a request made with AutoGraph disabled in context runs converted code', idx, repr(r))
        if trace is None:
            return None
        # the decisions themselves, nested requests included: the statement of enabled_entity_requests_converted
        reg, log = trace['reg'], trace['log']
        for n, e in enumerate(log):
            idx = [i for i, (a, b) in enumerate(trace['spans']) if a <= n < b]
            idx = idx[0] if idx else len(hist) - 1
            if reg.kinds[e['fn']] is None:
                return ('a converted_call request is about a callable the history did not create', idx, show(e))
            st = reg.static(e['fn'], e['opt'])
            if not e['disabled'] and not st and not e['conv']:
                earlier = [q for q in log[:n] if q['opt'] == e['opt']]
                same = [q for q in earlier if q['fn'] == e['fn'] and q['disabled']]
                other = [(q, reg.related(q['fn'], e['fn'])) for q in earlier if q['fn'] != e['fn']]
                other = [(q, rel) for q, rel in other if rel]
                if e.get('failed'):
                    what = 'a request that must be converted runs as-is because its conversion failed'
                elif same:
                    what = ('an enabled request runs the unconverted function because of an earlier request from a '
                            'DISABLED context (allowlist cache)')
                elif other:
                    what = ('an enabled request for a function runs it unconverted because of an earlier request, under the same '
                            'options, for ANOTHER function object -- %s: the allowlist cache confuses the two' % other[-1][1])
                else:
                    what = 'an enabled request with no context-independent reason to run as-is runs the unconverted function'
                return (what, idx, show(e) + (' ; earlier: ' + show(other[-1][0]) if other and not same else ''))
            if e['disabled'] and e['conv'] and mode == 'forced':
                return ('a request made with AutoGraph disabled in context runs converted code', idx, show(e))
        # what ran agrees with what was decided (two independent observations)
        for idx, ((t, fi, o, d), r) in enumerate(zip(hist, obs)):
            a, b = trace['spans'][idx]
            if fi in (0, 1, 5, 6) and b > a and log[a:b] and bool(log[a]['conv']) != bool(r[0]):
                return ('converted_call decides one thing and runs another', idx, '%s ; the body reports ran_converted=%s' % (
                    show(log[a]), r[0]))
        return None
    if only_hist is not None:
        obs, trace = run_forced(only_hist)
        bad = judge(only_hist, obs, 'forced', trace)
        return bad, [repr(o) for o in obs] + ['decisions: ' + '; '.join(show(e) for e in trace['log'])]
    nh = 60 if thorough else 16
    hists = [[(0, 0, 0, True), (1, 0, 0, False)],          # disabled first, then enabled, other thread
             [(0, 0, 0, False), (0, 0, 0, True), (0, 0, 0, False)]]
    # every ordered pair of RELATED callables (wrapper / wrapped, two bound methods of one function, two function
    # objects on one code object), same options, both requests enabled, different threads
    for grp in AL_GROUPS:
        for a in grp:
            for b in grp:
                if a != b:
                    hists.append([(0, a, 0, False), (1, b, 0, False)])
                    if thorough:
                        hists.append([(0, a, 1, False), (0, b, 0, False), (1, a, 0, False)])
                        hists.append([(0, a, 0, True), (1, b, 0, False), (1, a, 0, False)])
    for h in range(2, nh):
        nthreads = rnd.randint(1, 4)
        n = rnd.randint(2, 7)
        grp = AL_GROUPS[rnd.randrange(len(AL_GROUPS))] if h % 2 else [0, 1]

        def pick():
            return rnd.choice(grp) if rnd.random() < 0.8 else rnd.randrange(len(AL_ENTITIES))
        hists.append([(rnd.randrange(nthreads), pick(), 0 if rnd.random() < 0.8 else 1, rnd.random() < 0.45)
                      for _ in range(n)])
    cases = []
    for h, hist in enumerate(hists):
        obs, trace = run_forced(hist)
        run.count(len(hist))
        run.nontriv(('allowlist', tuple((e['fn'], e['bound'], e['opt'], e['disabled'], e['conv']) for e in trace['log'])))
        bad = judge(hist, obs, 'forced', trace)
        if bad:
            failures.append((bad[0], {'what': bad[0], 'kind': 'allowlist-history', 'history': describe(hist),
                                      'history_raw': [list(x) for x in hist], 'failing_request_index': bad[1],
                                      'observed': bad[2],
                                      'all_observed(ran_converted, value)': [repr(o) for o in obs],
                                      'all_decisions_of_converted_call': [show(e) for e in trace['log']],
                                      'callables': 'AL_ENTITIES over f0 / f1 / Holder.m of AL_SRC (tools/props/c10.py), fresh '
                                                   'function objects per history'}, None))
            break
        if all(not isinstance(r, str) for r in obs) and not any(e.get('failed') for e in trace['log']):
            reg, log = trace['reg'], trace['log']
            tbl = reg.table()
            st = [(f, o) for f in range(len(reg.objs)) for o in range(len(reg.opts)) if reg.static(f, o)]
            cases.append('(%d, [%s], [%s], [%s], [%s])' % (
                h, '; '.join('(%d, %s, %d)' % (i, 'None' if w is None else 'Some %d' % w, c) for (i, w, c) in tbl),
                '; '.join('(%d, %d)' % k for k in st),
                '; '.join('(%d, %d, %s, %d, %s)' % (e['tid'], e['fn'], vlib.coq_bool(e['bound']), e['opt'],
                                                     vlib.coq_bool(e['disabled'])) for e in log),
                '; '.join(vlib.coq_bool(bool(e['conv'])) for e in log)))
    # the route through a do_not_convert helper (callback invoked with AutoGraph disabled, then a normal call)
    try:
        ns = load()
        for attempt in (1, 2):
            inside, after = api.to_graph(ns['outer'], recursive=True)(1)
            if inside != (False, 2) or after != (True, 2):
                what = 'a function first reached from a do_not_convert region stays unconverted for enabled callers'
                failures.append((what, {'what': what, 'kind': 'allowlist-callback',
                                        'history': ['to_graph(outer)(1), run #%d: outer calls apply_quietly(callback, x) '
                                                    '(@do_not_convert; callback calls leaf) and then leaf(x) directly' % attempt],
                                        'leaf inside the do_not_convert region (ran_converted, value)': repr(inside),
                                        'leaf called from converted code afterwards': repr(after),
                                        'expected': '(False, 2) and (True, 2)'}, None))
                break
        run.count(2)
    except Exception as ex:   # noqa
        failures.append(('do_not_convert callback route raised ' + type(ex).__name__,
                         {'kind': 'allowlist-callback', 'traceback': traceback.format_exc()[-1200:]}, None))
    # free-running threads: half of them in a DISABLED context
    for rd in range(6 if thorough else 2):
        ns = load()
        N = [4, 16, 8, 32, 2, 12][rd]
        barrier = threading.Barrier(N)
        res = [None] * N
        old = sys.getswitchinterval()
        sys.setswitchinterval(rnd.choice([1e-6, 1e-5, 1e-4]))

        def worker(i):
            d = (i % 2 == 0)
            try:
                barrier.wait(30)
            except threading.BrokenBarrierError:
                pass
            out = []
            for k in range(6):
                try:
                    out.append(request(ns['f0'], 0, d, 3))
                except Exception as ex:   # noqa
                    out.append('ERR %s: %s' % (type(ex).__name__, str(ex)[:200]))
            res[i] = out
        ths = [threading.Thread(target=worker, args=(i,), daemon=True) for i in range(N)]
        for th in ths:
            th.start()
        for th in ths:
            th.join(120)
        sys.setswitchinterval(old)
        run.count(N * 6)
        for i in range(N):
            hist = [(i, 0, 0, i % 2 == 0)] * 6
            bad = judge(hist, res[i] or [], 'free')
            if bad:
                failures.append((bad[0], {'what': bad[0], 'kind': 'allowlist-free-running', 'threads': N,
                                          'history': ['%d threads, even ones in ControlStatusCtx(DISABLED), odd ones UNSPECIFIED, '
                                                      'each 6 x converted_call(f0, (3,), None, options=%s)' % (N, OPT_TXT[0])],
                                          'thread': i, 'failing_request_index': bad[1], 'observed': bad[2]}, None))
                break
    corr = None
    if tie_ok and cases and not failures:
        body = ['From Coq Require Import List Arith Bool.', 'Import ListNotations.',
                'Require Import MV.Cache.Machine MV.Cache.KeySrc MV.Cache.Allowlist MV.Generated.C10_gen MV.Cache.AllowlistCheck.',
                'Definition cases : list ecase := [', ';\n'.join(cases), '].',
                'Eval vm_compute in (efailing allowlist_key_chain allowlist_exits cases).']
        rc, out = vlib.coq_eval('C10', 'allowlist', '\n'.join(body), timeout=300)
        bad = vlib.parse_coq_list_of_nat(out) if rc == 0 else None
        if bad is None:
            corr = 'allowlist machine evaluation failed: ' + out[-500:]
        elif bad:
            corr = 'allowlist machine and api.converted_call disagree on histories %s, e.g. %s' % (bad[:5], [c for c in cases if c.startswith('(%d,' % bad[0])][:1])
        else:
            run.extra['allowlist_histories_validated_against_impl'] = len(cases)
    return failures, corr



NESTED_SCRIPT = '''import json, sys
from malt.core import converter
from malt.impl import api
F = converter.Feature


class Probe(object):
    def __init__(self, log):
        self.log = log

    def __eq__(self, other):
        self.log.append('__eq__')
        return False

    def __ne__(self, other):
        self.log.append('__ne__')
        return False
    __hash__ = object.__hash__


def make_pair():
    tag = object()

    def inner(a, b):
        r = a != b
        return r, tag is not None

    def outer(a, b):
        return inner(a, b)

    def outer_lambda(a, b):
        g = lambda u, v: inner(u, v)
        return g(a, b)
    return outer, outer_lambda, inner


def feats(spec):
    if spec is None:
        return None
    if isinstance(spec, list):
        return tuple(F[x] for x in spec)
    return F[spec]


def observe(fn):
    log = []
    try:
        value, _ = fn(Probe(log), Probe(log))
        return [repr(value), log]
    except Exception as ex:
        return ['raised %s: %s' % (type(ex).__name__, str(ex)[:150]), log]


def main():
    out = []
    for which, spec in json.loads(sys.argv[1]):
        outer, outer_lambda, inner = make_pair()
        fn = {'outer': outer, 'outer_lambda': outer_lambda, 'inner': inner}[which]
        out.append(observe(api.to_graph(fn, recursive=True, experimental_optional_features=feats(spec))))
    print('RESULT ' + json.dumps(out))


main()
'''


def nested_histories(run, rnd, tmp, thorough):
    """Option sets that differ ONLY in optional_features; the outer function
    calls an inner user function (directly / through a lambda) whose conversion
    depends on the feature (`!=` under EQUALITY_OPERATORS uses __eq__, else
    __ne__).  Every history runs in a fresh process; every request is compared
    with a single fresh conversion of `inner` under the same options in a
    process of its own (and with the prediction)."""
    from concurrent.futures import ThreadPoolExecutor
    failures = []
    script = os.path.join(tmp, 'c10_nested.py')
    with open(script, 'w') as f:
        f.write(NESTED_SCRIPT)
    specs = [None, 'EQUALITY_OPERATORS', ['EQUALITY_OPERATORS', 'LISTS'], 'LISTS', ['LISTS', 'BUILTIN_FUNCTIONS']]

    def txt(spec):
        return 'None' if spec is None else ('(%s)' % ', '.join('Feature.' + x for x in spec) if isinstance(spec, list) else 'Feature.' + spec)

    def predict(spec):
        uses = spec is not None and ('EQUALITY_OPERATORS' in (spec if isinstance(spec, list) else [spec]))
        return ['True', ['__eq__']] if uses else ['False', ['__ne__']]     # not_(eq(a, b)) vs a.__ne__(b)

    def proc(hist):
        rc, out = vlib.sh([vlib.PY, script, json.dumps(hist)], timeout=300, env=vlib.repo_env({'TMPDIR': tmp}))
        m = re.search(r'^RESULT (.*)$', out, re.M)
        if not m:
            return None, out[-800:]
        return json.loads(m.group(1)), None
    hists = []
    pairs = [(specs[0], specs[1]), (specs[1], specs[2]), (specs[1], specs[3])]
    for a, b in pairs:
        hists.append([['outer', a], ['outer', b]])
        hists.append([['outer', b], ['outer', a]])
    hists.append([['outer_lambda', specs[0]], ['outer_lambda', specs[1]], ['outer', specs[0]]])
    hists.append([['outer_lambda', specs[1]], ['outer', specs[0]], ['outer', specs[2]]])
    for _ in range(12 if thorough else 2):
        hists.append([[rnd.choice(['outer', 'outer_lambda', 'inner']), rnd.choice(specs)] for _ in range(rnd.randint(2, 5))])
    refs = [[['inner', sp]] for sp in specs]
    with ThreadPoolExecutor(max_workers=6) as ex:
        results = list(ex.map(proc, refs + hists))
    fresh = {}
    for sp, (res, err) in zip(specs, results[:len(refs)]):
        if res is None:
            failures.append(('fresh-process conversion failed', {'kind': 'nested-history', 'spec': txt(sp), 'output': err}, None))
            return failures
        fresh[json.dumps(sp)] = res[0]
        if res[0] != predict(sp):
            what = 'a single fresh conversion does not honour optional_features'
            failures.append((what, {'what': what, 'kind': 'nested-history', 'history': ['to_graph(inner, recursive=True, experimental_optional_features=%s)' % txt(sp)],
                                    'observed(value, comparison methods used)': res[0], 'expected': predict(sp)}, None))
    run.count(len(refs))
    for hist, (res, err) in zip(hists, results[len(refs):]):
        run.count(len(hist))
        desc = ['to_graph(%s, recursive=True, experimental_optional_features=%s)(Probe, Probe)' % (w, txt(sp)) for w, sp in hist]
        if res is None:
            failures.append(('a nested-call history crashed', {'kind': 'nested-history', 'history': desc, 'output': err}, None))
            continue
        for idx, ((w, sp), got) in enumerate(zip(hist, res)):
            want = fresh[json.dumps(sp)]
            if got != want:
                what = ('a nested callee is converted under the options of an EARLIER, unrelated request '
                        '(option sets differing only in optional_features alias)')
                failures.append((what, {'what': what, 'kind': 'nested-history', 'history (fresh process)': desc,
                                        'history_raw': hist, 'failing_request_index': idx,
                                        'observed(value, comparison methods the inner `a != b` used)': got,
                                        'fresh conversion of inner under the same options, in a process of its own': want,
                                        'functions': 'make_pair() of NESTED_SCRIPT (tools/props/c10.py): outer(a, b) calls inner(a, b): r = a != b'},
                                 None))
                break
        if failures:
            break
    run.extra['nested_call_histories'] = len(hists)
    return failures



REDEF_SCRIPT = r'''import importlib, json, os, sys, threading
from malt.impl import api
from malt.core import converter
F = converter.Feature
BODIES = {
    1: "    return (x + 1, d, K)\n",
    2: "    y = x * 2\n    return (y + 20, d, K)\n",
    3: "    if x > 1:\n        x = x - 300\n    return (x, d, K, 3)\n",
}
OPTS = [dict(recursive=True, experimental_optional_features=None),
        dict(recursive=False, experimental_optional_features=None),
        dict(recursive=True, experimental_optional_features=F.EQUALITY_OPERATORS)]


def text(v):
    return "K = %d\ndef f(x, d=%d):\n%s" % (v * 10, v, BODIES[v])


def main():
    d = sys.argv[2]
    modname = sys.argv[3]
    sys.path.insert(0, d)
    path = os.path.join(d, modname + '.py')
    out = []
    mod = None
    for step in json.loads(sys.argv[1]):
        if step[0] == 'define':
            with open(path, 'w') as f:
                f.write(text(step[1]))
            importlib.invalidate_caches()
            mod = importlib.reload(mod) if mod is not None else importlib.import_module(modname)
        else:
            _, o, nthreads = step
            fn = mod.f
            res = [None] * nthreads

            def work(i):
                try:
                    g = api.to_graph(fn, **OPTS[o])
                    with open(g.ag_module.__file__) as fh:
                        src = fh.read()
                    res[i] = [repr(g(5)), repr(fn(5)), src]
                except Exception as ex:
                    res[i] = ['raised %s: %s' % (type(ex).__name__, str(ex)[:150]), repr(fn(5)), '']
            ths = [threading.Thread(target=work, args=(i,)) for i in range(nthreads)]
            for t in ths:
                t.start()
            for t in ths:
                t.join()
            out.append(res)
    print('RESULT ' + json.dumps(out))


main()
'''


def redefinition_histories(run, rnd, tmp, thorough):
    """convert f; rewrite its module file with another body at the same line
    and name; reload; convert the NEW function object (several option sets,
    several threads).  Each history runs in a fresh process; every answer is
    compared with the new function itself and with a conversion of that
    definition in a process that never saw another one."""
    from concurrent.futures import ThreadPoolExecutor
    failures = []
    script = os.path.join(tmp, 'c10_redef.py')
    with open(script, 'w') as f:
        f.write(REDEF_SCRIPT)
    counter = [0]

    def proc(hist):
        counter[0] += 1
        d = vlib.ensure_dir(os.path.join(tmp, 'redef%d_%d' % (counter[0], rnd.randrange(10 ** 6))))
        rc, out = vlib.sh([vlib.PY, script, json.dumps(hist), d, 'c10_redef_mod'], timeout=300,
                          env=vlib.repo_env({'TMPDIR': tmp}))
        m = re.search(r'^RESULT (.*)$', out, re.M)
        return (json.loads(m.group(1)), None) if m else (None, out[-800:])
    OPT_TXT = ['recursive=True', 'recursive=False', 'recursive=True, experimental_optional_features=Feature.EQUALITY_OPERATORS']
    hists = [[['define', 1], ['convert', 0, 1], ['define', 2], ['convert', 0, 1]],
             [['define', 2], ['convert', 0, 1], ['define', 1], ['convert', 0, 1]],
             [['define', 1], ['convert', 0, 1], ['define', 3], ['convert', 1, 1], ['convert', 2, 4], ['convert', 0, 3]],
             [['define', 3], ['convert', 2, 2], ['define', 2], ['convert', 2, 1], ['define', 1], ['convert', 1, 4]]]
    for _ in range(10 if thorough else 1):
        h = []
        for _ in range(rnd.randint(2, 4)):
            h.append(['define', rnd.randint(1, 3)])
            for _ in range(rnd.randint(1, 2)):
                h.append(['convert', rnd.randrange(3), rnd.choice([1, 1, 2, 5])])
        hists.append(h)
    refs = [[['define', v], ['convert', o, 1]] for v in (1, 2, 3) for o in range(3)]
    with ThreadPoolExecutor(max_workers=6) as ex:
        results = list(ex.map(proc, refs + hists))
    fresh = {}
    for ref, (res, err) in zip(refs, results[:len(refs)]):
        if res is None:
            failures.append(('fresh-process conversion failed', {'kind': 'redefinition-history', 'output': err}, None))
            return failures
        fresh[(ref[0][1], ref[1][1])] = res[0][0]
    run.count(len(refs))

    def desc(hist):
        return ['write module c10_redef_mod with body version %d (def f at the same line), %s' % (
            st[1], 'import' if i == 0 else 'importlib.reload') if st[0] == 'define'
            else '%d thread(s): g = to_graph(mod.f, %s); g(5)' % (st[2], OPT_TXT[st[1]]) for i, st in enumerate(hist)]
    for hist, (res, err) in zip(hists, results[len(refs):]):
        run.count(len(hist))
        if res is None:
            failures.append(('a redefinition history crashed', {'kind': 'redefinition-history', 'history': desc(hist), 'output': err}, None))
            continue
        cur = None
        ci = 0
        for idx, st in enumerate(hist):
            if st[0] == 'define':
                cur = st[1]
                continue
            want = fresh[(cur, st[1])]
            for th, got in enumerate(res[ci]):
                if got[0] != got[1] or got[0] != want[0] or got[2] != want[2]:
                    what = 'a redefined function is served the conversion of its previous definition (stale source)'
                    dl = [(a.strip(), b.strip()) for a, b in zip(got[2].split('\n'), want[2].split('\n')) if a != b][:3]
                    failures.append((what, {'what': what, 'kind': 'redefinition-history', 'history (fresh process)': desc(hist),
                                            'history_raw': hist, 'failing_step_index': idx, 'thread': th,
                                            'converted g(5)': got[0], 'the new function itself f(5)': got[1],
                                            'conversion of this definition in a process that never saw another one: g(5)': want[0],
                                            'generated source lines (history, fresh)': dl}, None))
                    return failures
            ci += 1
    run.extra['redefinition_histories'] = len(hists)
    return failures



MUT_SCRIPT = r'''import importlib.util, json, os, sys, threading
from malt.impl import api
from malt.core import converter
F = converter.Feature

POOL = """import sys
from malt.impl import api
G = 100


@api.do_not_convert
def CONV(name):
    fr = sys._getframe()
    while fr is not None:
        n = fr.f_code.co_name
        if n == 'ag__' + name:
            return True
        if n == name:
            return False
        fr = fr.f_back
    return None


class P(object):
    def __eq__(self, other):
        return False

    def __ne__(self, other):
        return 'ne'
    __hash__ = object.__hash__


PA = P()
PB = P()


def scale(x, k=2, *, bias=1):
    if x > 0:
        r = x * k
    else:
        r = -x * k
    return (('scale', 1, r + bias, k, bias, G), (PA != PB, CONV('scale')))


def scale__alt(x, k=2, *, bias=1):
    r = 0
    while x > 0:
        r = r + k
        x = x - 1
    return (('scale', 2, r + bias + 1000, k, bias, G), (PA != PB, CONV('scale__alt')))


def helper(x, k=7):
    if x > 0:
        v = x + k
    else:
        v = -k
    return (('helper', 1, v, k, G), (PA != PB, CONV('helper')))


def helper__alt(x, k=7):
    v = k
    for i in range(3):
        if x > i:
            v = v + 100
    return (('helper', 2, v, k, G), (PA != PB, CONV('helper__alt')))


def caller(x):
    h = helper(x)
    return (('caller',) + h[0], (CONV('caller'),) + h[1])


def make(n):
    def add(x, d=0):
        if x > 0:
            v = x + n + d
        else:
            v = n + d
        return (('add', 1, v, d, n, G), (PA != PB, CONV('add')))

    def add__alt(x, d=0):
        v = n
        while x > 0:
            v = v + d + 1
            x = x - 1
        return (('add', 2, v, d, n, G), (PA != PB, CONV('add__alt')))
    return add, add__alt


class Holder(object):
    def m(self, x, k=3):
        if x > 0:
            v = x * k
        else:
            v = k
        return (('m', 1, v, k, G), (PA != PB, CONV('m')))

    def m__alt(self, x, k=3):
        v = 0
        while x > 0:
            v = v + k
            x = x - 1
        return (('m', 2, v + 500, k, G), (PA != PB, CONV('m__alt')))
"""
OPTS = [dict(recursive=True, feat=None), dict(recursive=True, feat='EQUALITY_OPERATORS'), dict(recursive=False, feat=None)]
XS = (3, -2)


def feat(o):
    f = OPTS[o]['feat']
    return None if f is None else F[f]


class Run(object):
    def __init__(self, d, tag):
        path = os.path.join(d, 'c10_mut_%s.py' % tag)
        with open(path, 'w') as f:
            f.write(POOL)
        spec = importlib.util.spec_from_file_location('c10_mut_%s' % tag, path)
        self.mod = mod = importlib.util.module_from_spec(spec)
        sys.modules[spec.name] = mod
        spec.loader.exec_module(mod)
        a0, a0alt = mod.make(1)
        a1, a1alt = mod.make(100)
        self.fns = {'scale': mod.scale, 'helper': mod.helper, 'add0': a0, 'add1': a1, 'm': mod.Holder.m,
                    'caller': mod.caller}
        self.alt = {'scale': mod.scale__alt.__code__, 'helper': mod.helper__alt.__code__, 'add0': a0alt.__code__,
                    'add1': a1alt.__code__, 'm': mod.Holder.m__alt.__code__}
        self.orig = dict((k, v.__code__) for k, v in self.fns.items())
        self.holder = mod.Holder()
        self.wrappers = {}

    def mutate(self, target, what, value):
        fn = self.fns[target]
        if what == 'defaults':
            fn.__defaults__ = tuple(value)
        elif what == 'kwdefaults':
            fn.__kwdefaults__ = dict(value)
        elif what == 'code':
            fn.__code__ = self.alt[target] if value == 'alt' else self.orig[target]
        elif what == 'cell':
            fn.__closure__[0].cell_contents = value
        elif what == 'global':
            self.mod.G = value
        else:
            raise ValueError(what)

    def callee(self, target):
        """what user code would call"""
        return self.holder.m if target == 'm' else self.fns[target]

    def request(self, entry, target, o):
        if entry in ('via_caller', 'via_convert_caller'):
            target = 'caller'
        f = self.callee(target)
        src = ''
        if entry in ('to_graph', 'via_caller'):
            g = api.to_graph(f, recursive=OPTS[o]['recursive'], experimental_optional_features=feat(o))
            got = [g(self.holder, x) if target == 'm' else g(x) for x in XS]
            try:
                with open(g.ag_module.__file__) as fh:
                    src = fh.read()
            except Exception as ex:
                src = 'no source: %s' % type(ex).__name__
        elif entry in ('convert', 'via_convert_caller'):
            key = (target, o)
            if key not in self.wrappers:
                self.wrappers[key] = api.convert(recursive=OPTS[o]['recursive'], optional_features=feat(o))(self.fns[target])
            w = self.wrappers[key]
            got = [w(self.holder, x) if target == 'm' else w(x) for x in XS]
        elif entry == 'converted_call':
            opts = converter.ConversionOptions(recursive=OPTS[o]['recursive'], user_requested=True, optional_features=feat(o))
            got = [api.converted_call(f, (x,), None, options=opts) for x in XS]
        else:
            raise ValueError(entry)
        return got, src

    def step_req(self, entry, target, o, nthreads):
        res = [None] * nthreads
        tgt = 'caller' if entry in ('via_caller', 'via_convert_caller') else target

        def work(i):
            try:
                got, src = self.request(entry, target, o)
            except Exception as ex:
                got, src = 'raised %s: %s' % (type(ex).__name__, str(ex)[:200]), ''
            try:
                direct = [self.callee(tgt)(x) for x in XS]
            except Exception as ex:
                direct = 'raised %s: %s' % (type(ex).__name__, str(ex)[:200])
            res[i] = {'got': got, 'direct': direct, 'src': src}
        if nthreads == 1:
            work(0)
        else:
            ths = [threading.Thread(target=work, args=(i,)) for i in range(nthreads)]
            for t in ths:
                t.start()
            for t in ths:
                t.join()
        return res


def main():
    runs = json.loads(sys.argv[1]) if not sys.argv[1].startswith('@') else json.load(open(sys.argv[1][1:]))
    d = sys.argv[2]
    out = []
    for tag, steps in runs:
        try:
            r = Run(d, tag)
            obs = []
            for st in steps:
                if st[0] == 'mut':
                    r.mutate(st[1], st[2], st[3])
                else:
                    obs.append(r.step_req(st[1], st[2], st[3], st[4]))
            out.append(obs)
        except Exception as ex:
            out.append('crashed %s: %s' % (type(ex).__name__, str(ex)[:300]))
    print('RESULT ' + json.dumps(out))


main()
'''

MUT_OPT_TXT = ['recursive=True', 'recursive=True, optional features=Feature.EQUALITY_OPERATORS', 'recursive=False']
MUT_RECURSIVE = [True, True, False]
MUT_FEATURE = [False, True, False]
MUT_TARGETS = ['scale', 'helper', 'add0', 'add1', 'm']
MUT_FID = {'scale': 0, 'helper': 1, 'add0': 2, 'add1': 3, 'm': 4, 'caller': 5}
MUT_FAMILY = {'scale': 'scale', 'helper': 'helper', 'add0': 'add', 'add1': 'add', 'm': 'm', 'caller': 'caller'}
MUT_WHAT_TXT = {'defaults': '__defaults__', 'kwdefaults': '__kwdefaults__', 'code': '__code__ (definition replaced in place)',
                'cell': 'the contents of its closure cell', 'global': 'a global it reads'}
# what can be rebound on which object, with the values used
MUT_CHOICES = {
    'scale': [('defaults', [5]), ('defaults', [11]), ('kwdefaults', {'bias': 40}), ('code', 'alt'), ('code', 'orig'), ('global', 7)],
    'helper': [('defaults', [9]), ('code', 'alt'), ('code', 'orig'), ('global', 7)],
    'add0': [('defaults', [4]), ('code', 'alt'), ('code', 'orig'), ('cell', 55), ('global', 7)],
    'add1': [('defaults', [4]), ('code', 'alt'), ('code', 'orig'), ('cell', 66), ('global', 7)],
    'm': [('defaults', [8]), ('code', 'alt'), ('code', 'orig'), ('global', 7)],
}
MUT_ENTRIES = {'scale': ['to_graph', 'convert', 'converted_call'], 'add0': ['to_graph', 'convert', 'converted_call'],
               'add1': ['to_graph', 'convert', 'converted_call'], 'm': ['to_graph', 'convert', 'converted_call'],
               'helper': ['to_graph', 'convert', 'converted_call', 'via_caller', 'via_convert_caller']}


class MutState(object):
    """The attributes the function objects of one run of MUT_SCRIPT have NOW (a
    mirror kept by the harness: what a fresh conversion must reflect), and
    their numbering for the entry-layer machine."""

    def __init__(self, reg):
        self.reg = reg                       # shared registries: {'code': {}, 'env': {}}
        self.ver = dict((t, 1) for t in MUT_FID)
        self.defaults = {'scale': (2,), 'helper': (7,), 'add0': (0,), 'add1': (0,), 'm': (3,), 'caller': ()}
        self.kw = {'scale': 1}
        self.cell = {'add0': 1, 'add1': 100}
        self.G = 100

    def apply(self, target, what, value):
        if what == 'defaults':
            self.defaults[target] = tuple(value)
        elif what == 'kwdefaults':
            self.kw[target] = value['bias']
        elif what == 'code':
            self.ver[target] = 2 if value == 'alt' else 1
        elif what == 'cell':
            self.cell[target] = value
        elif what == 'global':
            self.G = value

    def _id(self, which, key):
        d = self.reg[which]
        if key not in d:
            d[key] = len(d) + 1
        return d[key]

    def code_id(self, family, ver):
        return self._id('code', (family, ver))

    def env_id(self, defaults, kw, cells_of):
        """env = what instantiate BINDS per request: the defaults, the kwdefaults and WHICH closure cells / globals
        dict (those of which object) -- not the contents of the cells and of the globals, which every served function
        shares by reference with the source function (rebinding those is judged by the CPython comparison only)."""
        return self._id('env', (tuple(defaults), kw, cells_of))

    def attrs(self, t):
        return (self.code_id(MUT_FAMILY[t], self.ver[t]),
                self.env_id(self.defaults[t], self.kw.get(t), t if t in self.cell else None))

    def cell_owner(self, n):
        own = [t for t, v in self.cell.items() if v == n]
        return own[0] if len(own) == 1 else 'unknown cell'

    def decode(self, t, core):
        """(code class, env) a served function shows in its behaviour"""
        try:
            if t == 'scale':
                _, ver, _, k, bias, g = core
                return (self.code_id('scale', ver), self.env_id((k,), bias, None))
            if t == 'helper':
                _, ver, _, k, g = core
                return (self.code_id('helper', ver), self.env_id((k,), None, None))
            if t in ('add0', 'add1'):
                _, ver, _, d, n, g = core
                return (self.code_id('add', ver), self.env_id((d,), None, self.cell_owner(n)))
            if t == 'm':
                _, ver, _, k, g = core
                return (self.code_id('m', ver), self.env_id((k,), None, None))
            if t == 'caller':
                return (self.code_id('caller', 1), self.env_id((), None, None))
        except Exception:   # noqa
            pass
        return (999, 999)


def mut_describe(hist):
    out = []
    for st in hist:
        if st[0] == 'mut':
            _, t, what, v = st
            if what == 'global':
                out.append('module.G = %r   (a global every function of the pool reads)' % v)
            elif what == 'code':
                out.append('%s.__code__ = %s.__code__   (definition replaced in place, as a hot reloader does)' % (
                    t, (t.rstrip('01') if t.startswith('add') else t) + ('__alt' if v == 'alt' else ' [its original]')))
            elif what == 'cell':
                out.append('%s.__closure__[0].cell_contents = %r' % (t, v))
            else:
                out.append('%s.%s = %r' % (t, MUT_WHAT_TXT[what], tuple(v) if what == 'defaults' else v))
        else:
            _, entry, t, o, n = st
            how = {'to_graph': 'g = api.to_graph(%s, %s); g(3), g(-2)' % (t, MUT_OPT_TXT[o]),
                   'convert': 'w = api.convert(%s)(%s) [wrapper made once, reused]; w(3), w(-2)' % (MUT_OPT_TXT[o], t),
                   'converted_call': 'api.converted_call(%s, (x,), None, options=ConversionOptions(%s, user_requested=True)) for x in (3, -2)' % (t, MUT_OPT_TXT[o]),
                   'via_caller': 'g = api.to_graph(caller, %s); g(3), g(-2)   [caller calls %s: nested converted_call]' % (MUT_OPT_TXT[o], t),
                   'via_convert_caller': 'w = api.convert(%s)(caller) [made once, reused]; w(3), w(-2)   [caller calls %s]' % (MUT_OPT_TXT[o], t)}[entry]
            out.append(('%d threads at once: ' % n if n > 1 else '') + how)
    return out


def mut_core(v):
    return [x[0] for x in v] if isinstance(v, list) else v


def mut_histories_for(rnd, thorough):
    hists = []
    # systematic: ask, rebind in place, ask again -- every kind of rebinding x every entry point
    for t in MUT_TARGETS:
        for what, val in MUT_CHOICES[t]:
            if what == 'code' and val == 'orig':
                continue
            if (what, val) == ('defaults', [11]):
                continue
            for entry in MUT_ENTRIES[t]:
                hists.append([['req', entry, t, 0, 1], ['mut', t, what, val], ['req', entry, t, 0, 1]])
    # the same object under the three option sets, then the first again (no rebinding)
    for t in MUT_TARGETS:
        for entry in ('to_graph', 'converted_call'):
            hists.append([['req', entry, t, 0, 1], ['req', entry, t, 1, 1], ['req', entry, t, 2, 1], ['req', entry, t, 0, 1]])
    # replaced and restored; two entry points sharing the funnel; sibling closures
    hists.append([['req', 'to_graph', 'scale', 0, 1], ['mut', 'scale', 'code', 'alt'], ['req', 'to_graph', 'scale', 0, 1],
                  ['mut', 'scale', 'code', 'orig'], ['req', 'to_graph', 'scale', 0, 3]])
    hists.append([['req', 'convert', 'helper', 0, 1], ['mut', 'helper', 'defaults', [9]], ['req', 'via_caller', 'helper', 0, 1],
                  ['mut', 'helper', 'code', 'alt'], ['req', 'via_convert_caller', 'helper', 0, 1], ['req', 'converted_call', 'helper', 0, 2]])
    hists.append([['req', 'to_graph', 'add0', 0, 1], ['req', 'to_graph', 'add1', 0, 1], ['mut', 'add1', 'defaults', [4]],
                  ['req', 'to_graph', 'add1', 0, 1], ['req', 'to_graph', 'add0', 0, 1], ['mut', 'add0', 'code', 'alt'],
                  ['req', 'converted_call', 'add1', 0, 1], ['req', 'converted_call', 'add0', 0, 1]])
    for _ in range(150 if thorough else 14):
        h = []
        pool = rnd.sample(MUT_TARGETS, rnd.randint(1, 2))
        for _ in range(rnd.randint(3, 9)):
            t = rnd.choice(pool)
            if h and rnd.random() < 0.4:
                what, val = rnd.choice(MUT_CHOICES[t])
                h.append(['mut', t, what, val])
            else:
                h.append(['req', rnd.choice(MUT_ENTRIES[t]), t, rnd.choice([0, 0, 0, 1, 2]), rnd.choice([1, 1, 1, 3])])
        if not any(st[0] == 'req' for st in h):
            h.append(['req', 'to_graph', pool[0], 0, 1])
        hists.append(h)
    return hists


def mut_run_batches(tmp, script, runs, tagbase, chunk=16):
    """runs: list of step lists -> list of results (one per run), several runs per process, each run on its own
    freshly written module file (distinct code objects, distinct function objects)."""
    from concurrent.futures import ThreadPoolExecutor
    chunks = [runs[i:i + chunk] for i in range(0, len(runs), chunk)]

    def proc(ic):
        i, ch = ic
        d = vlib.ensure_dir(os.path.join(tmp, '%s_%d' % (tagbase, i)))
        arg = os.path.join(d, 'runs.json')
        with open(arg, 'w') as f:
            json.dump([['%s%d_%d' % (tagbase, i, j), steps] for j, steps in enumerate(ch)], f)
        rc, out = vlib.sh([vlib.PY, script, '@' + arg, d], timeout=600, env=vlib.repo_env({'TMPDIR': tmp}))
        m = re.search(r'^RESULT (.*)$', out, re.M)
        if not m:
            return ['crashed: ' + out[-600:]] * len(ch)
        return json.loads(m.group(1))
    res = []
    with ThreadPoolExecutor(max_workers=6) as ex:
        for r in ex.map(proc, enumerate(chunks)):
            res.extend(r)
    return res


def mut_pristine(hist, idx):
    """The request #idx of the history as the ONLY request: same rebindings, no earlier request."""
    st = hist[idx]
    return [s for s in hist[:idx] if s[0] == 'mut'] + [[st[0], st[1], st[2], st[3], 1]]


def mut_src_norm(src):
    return re.sub(r'c10_mut_\w+', 'c10_mut', src or '')


def mut_judge(hist, res, refs):
    """-> None | (title, failing step index, detail dict).  Every answer is compared with the function object itself,
    run by CPython now (the attributes it has NOW), and with the same request made as the only request of a fresh
    process-local world (same rebindings, no earlier request)."""
    if isinstance(res, str):
        return ('an in-place rebinding history crashed', 0, {'output': res})
    ri = 0
    last_mut = {}
    nreq = 0
    for idx, st in enumerate(hist):
        if st[0] == 'mut':
            last_mut[st[1] if st[2] != 'global' else '*'] = (idx, st[2])
            continue
        _, entry, t, o, n = st
        obs = res[ri]
        ri += 1
        nreq += 1
        ref = refs.get(json.dumps(mut_pristine(hist, idx))) if nreq > 1 else None
        for th, ob in enumerate(obs):
            got, direct = ob['got'], ob['direct']
            changed = [w for k, (i, w) in last_mut.items() if k in (t, '*')]
            if isinstance(got, str) and not isinstance(direct, str):
                return ('a conversion request died of ' + got[7:].split(':')[0], idx, {'thread': th, 'raised': got})
            if mut_core(got) != mut_core(direct):
                if changed and nreq > 1:
                    what = ('a function object rebound in place (%s) between two requests is served the conversion made for it '
                            'before the change' % ' / '.join(sorted(set(MUT_WHAT_TXT[w] for w in changed))))
                else:
                    what = 'a request is served a function that does not behave like the requested function object'
                return (what, idx, {'thread': th, 'served function returned (x=3, x=-2)': repr(mut_core(got)),
                                    'the function object itself, called by CPython at that moment': repr(mut_core(direct))})
            if ref is not None and not isinstance(ref, str):
                r0 = ref[0][0]
                if got != r0['got'] or mut_src_norm(ob['src']) != mut_src_norm(r0['src']):
                    dl = [(a.strip(), b.strip()) for a, b in zip(mut_src_norm(ob['src']).split('\n'),
                                                                   mut_src_norm(r0['src']).split('\n')) if a != b][:3]
                    what = ('a request differs from the same request made first (same function object state, same options): '
                            'it depends on what was requested before')
                    return (what, idx, {'thread': th, 'in the history (values, [`!=` uses, runs converted])': repr(got),
                                        'as only request': repr(r0['got']), 'generated source lines (history, alone)': dl})
    return None


def mut_model_case(idx, hist, res, reg):
    """The history as operations of the entry-layer machine + the rows observed on the real code."""
    ms = MutState(reg)
    ops = []
    rows = []
    cur = {}
    for t in sorted(MUT_FID, key=MUT_FID.get):
        cur[t] = ms.attrs(t)
        ops.append('HMut %d %d %d' % ((MUT_FID[t],) + cur[t]))
    ri = 0
    for st in hist:
        if st[0] == 'mut':
            ms.apply(st[1], st[2], st[3])
            for t in sorted(MUT_FID, key=MUT_FID.get):
                a = ms.attrs(t)
                if a != cur[t]:
                    cur[t] = a
                    ops.append('HMut %d %d %d' % ((MUT_FID[t],) + a))
            continue
        _, entry, t, o, n = st
        obs = res[ri]
        ri += 1
        for th, ob in enumerate(obs):
            got = ob['got']
            if isinstance(got, str):
                return None

            def row(target, oid, core, marks):
                c, e = ms.decode(target, core)
                feature_seen = marks[0] is True
                oo = oid if feature_seen == MUT_FEATURE[oid % 10] else 900
                rows.append('(%d, %d, %d, %d, %d)' % (MUT_FID[target], oid, c, oo, e))
                ops.append('HReq %d %d %d' % (th, MUT_FID[target], oid))
            if entry in ('via_caller', 'via_convert_caller'):
                per_call = entry == 'via_convert_caller'
                for xi, (core, marks) in enumerate(got):
                    if per_call or xi == 0:
                        row('caller', o, ['caller', core[-1]], [marks[1]])
                    if MUT_RECURSIVE[o]:
                        row('helper', o + 10, core[1:], marks[1:])
            elif entry == 'to_graph':
                if ms.decode(t, got[0][0]) != ms.decode(t, got[1][0]):
                    return None
                row(t, o, got[0][0], got[0][1])
            else:
                for core, marks in got:
                    row(t, o, core, marks)
    return '(%d, [%s], [%s])' % (idx, '; '.join(ops), '; '.join(rows))


def mutation_histories(run, rnd, tmp, thorough, tie_ok, funnel, only_hist=None):
    """Histories of requests through the PUBLIC entry points (to_graph, a reused
    convert wrapper, converted_call, a converted caller that calls the object)
    for function objects that are REBOUND IN PLACE between the requests:
    __defaults__, __kwdefaults__, __code__ (hot-reload style), the contents of
    a closure cell, a global -- and the same object under several option sets.
    Each history runs in a fresh process on freshly written module files; every
    answer is judged against the function object itself (CPython, at that
    moment) and against the same request made as the only one; the histories
    are also the cases of the entry-layer machine (MV.Cache.Entry, evaluated in
    Coq with the GENERATED funnel)."""
    failures = []
    script = os.path.join(tmp, 'c10_mut.py')
    with open(script, 'w') as f:
        f.write(MUT_SCRIPT)
    hists = [only_hist] if only_hist is not None else mut_histories_for(rnd, thorough)
    ref_runs = {}
    for h in hists:
        first = True
        for idx, st in enumerate(h):
            if st[0] == 'req':
                if not first:
                    p = mut_pristine(h, idx)
                    ref_runs[json.dumps(p)] = p
                first = False
    keys = sorted(ref_runs)
    results = mut_run_batches(tmp, script, hists, 'h')
    ref_results = mut_run_batches(tmp, script, [ref_runs[k] for k in keys], 'r')
    refs = dict(zip(keys, ref_results))
    if only_hist is not None:
        return mut_judge(only_hist, results[0], refs), results[0]
    cases = []
    reg = {'code': {}, 'env': {}}
    for i, (h, res) in enumerate(zip(hists, results)):
        nreq = sum(st[4] for st in h if st[0] == 'req')
        run.count(nreq)
        if not isinstance(res, str):
            run.nontriv(('mutation', json.dumps([[ob['got'] for ob in step] for step in res])))
        bad = mut_judge(h, res, refs) if len(failures) < 4 else None
        if bad and bad[0] in [f[0] for f in failures]:
            bad = None          # one replay per kind of failure
        if bad:
            what, idx, detail = bad
            rep = {'what': what, 'kind': 'mutation-history', 'history (fresh process, pool = MUT_SCRIPT of tools/props/c10.py)': mut_describe(h),
                   'history_raw': h, 'failing_step_index': idx, 'failing_step': mut_describe([h[idx]])[0],
                   'entry_funnel_translated_from_api._convert_actual': funnel}
            rep.update(detail)
            failures.append((what, rep, None))
        if not isinstance(res, str):
            c = mut_model_case(i, h, res, reg)
            if c:
                cases.append(c)
    run.extra['mutation_histories'] = len(hists)
    run.sample({'in_place_rebinding_history': mut_describe(hists[0])})
    corr = None
    if tie_ok and cases:
        from concurrent.futures import ThreadPoolExecutor
        shards = [cases[k:k + 60] for k in range(0, len(cases), 60)]

        def ev(ic):
            body = ['From Coq Require Import List Arith Bool.', 'Import ListNotations.',
                    'Require Import MV.Cache.Machine MV.Cache.KeySrc MV.Cache.Entry MV.Generated.C10_gen MV.Cache.EntryCheck.',
                    'Definition cases : list hcase := [', ';\n'.join(ic[1]), '].',
                    'Eval vm_compute in (hfailing entry_funnel transform_function_prog cases).']
            rc, out = vlib.coq_eval('C10', 'entry%d' % ic[0], '\n'.join(body), timeout=600)
            return vlib.parse_coq_list_of_nat(out) if rc == 0 else ('entry-layer machine evaluation failed: ' + out[-500:])
        bad = []
        with ThreadPoolExecutor(max_workers=4) as ex:
            for b in ex.map(ev, enumerate(shards)):
                if isinstance(b, str) or b is None:
                    corr = b or 'entry-layer machine evaluation failed'
                    break
                bad += b
        if corr is None and bad:
            corr = 'entry-layer machine (funnel %s) and the real entry points disagree on histories %s, e.g. %s / case %s' % (
                funnel, bad[:5], mut_describe(hists[bad[0]]), [c for c in cases if c.startswith('(%d,' % bad[0])][:1])
        elif corr is None:
            run.extra['entry_layer_histories_validated_against_impl'] = len(cases)
        if corr:
            run.extra['entry_layer_correspondence_broken'] = corr[:3000]
    return failures, corr



def malt_oracle(run, rnd, tmp, MT, thorough):
    """The real transpiler: options are ConversionOptions values, the reference
    is a conversion by a fresh (empty-cache) transpiler and the original
    function itself."""
    from malt.core import converter
    from malt.impl import api
    from malt.impl import conversion
    failures = []
    F = converter.Feature
    optset = [dict(recursive=True, user_requested=True, optional_features=None),
              dict(recursive=False, user_requested=True, optional_features=None),
              dict(recursive=True, user_requested=True, optional_features=(F.LISTS,)),
              dict(recursive=True, user_requested=False, optional_features=F.EQUALITY_OPERATORS)]
    world = World(tmp, src=MALT_SRC, tag='malt')

    class PC(converter.ProgramContext):
        pass

    def mk_ctx(c, o):
        p = PC(options=converter.ConversionOptions(**optset[o]))
        p.c10_cls, p.c10_key = c, o
        p.fail = False
        return p

    def observe(world_, res):
        fn, module, _ = res
        a = fn(4)
        src = ''
        try:
            with open(module.__file__) as f:
                src = f.read()
        except OSError:
            pass
        o = 998
        for i, kw in enumerate(optset):
            if ast.unparse(converter.ConversionOptions(**kw).to_ast()) in src:
                o = i
        cval = (a[0] - (4 + 1) - 2 * a[1]) // 2      # s = 2*c + 2*G ; helper(4) = 5
        return (a[3], o, world_.env_of(cval, a[1], a[2]), a)
    ref_cache = {}

    def reference(c, o, e):
        k = (c, o, e)
        if k not in ref_cache:
            fresh = MT()
            fn = world.fn(c, e)
            r = observe(world, fresh.transform_function(fn, mk_ctx(c, o)))
            if r[3] != fn(4) or r[:3] != (c, o, e):
                failures.append(('a cache-less conversion does not behave like the function itself',
                                 {'what': 'reference conversion differs from the original', 'kind': 'malt-reference',
                                  'request': list(k), 'got': repr(r), 'original': repr(fn(4))}, None))
            ref_cache[k] = r
        return ref_cache[k]
    rounds = 40 if thorough else 4
    sizes = [1, 4, 8, 32, 2, 16, 3, 5, 12, 24]
    for r in range(rounds):
        tr = MT()
        nthreads = sizes[r % len(sizes)]
        ncodes, nopts, nenvs = 2, len(optset), 3
        nreq = 3 if nthreads <= 8 else 2
        bad = stress_round(rnd, tr, world, mk_ctx, observe, nthreads, nreq, ncodes, nopts, nenvs, reference=reference)
        run.count(nthreads * nreq)
        for (k, n) in tr.count.items():
            if n > 1:
                bad.append(('the source transformation of one (code, options) pair ran %d times' % n,
                            'api.PyToPy free-running: key (class %s, options %s), %d threads' % (k[0], k[1], nthreads), None))
        for what, detail, req in bad:
            failures.append((what, {'what': what, 'detail': detail, 'kind': 'malt-free-running', 'threads': nthreads,
                                    'options': [repr(o) for o in optset], 'round': r}, None))
    # -- the public entry points share one transpiler: to_graph / converted_call, and the allowlist cache
    try:
        f0 = world.fn(0, 0)
        f1 = world.fn(0, 1)
        before = collections.Counter()
        calls = []
        orig = api._TRANSPILER.transform_ast

        def counting(node, ctx):
            calls.append((ctx.info.name, ctx.user.options))
            return orig(node, ctx)
        api._TRANSPILER.transform_ast = counting
        try:
            g0 = api.to_graph(f0, recursive=True)
            g1 = api.to_graph(f1, recursive=True)
            n_rec = len(calls)
            g0n = api.to_graph(f0, recursive=False)
            n_nonrec = len(calls)
            res = [g0(4), g1(4), g0n(4)]
            want = [f0(4), f1(4), f0(4)]
            if res != want:
                failures.append(('to_graph serves the wrong function', {'kind': 'to_graph', 'got': repr(res), 'want': repr(want)}, None))
            if n_rec != 1 or n_nonrec != 2:
                failures.append(('to_graph: transformations per (code, options) is not one',
                                 {'kind': 'to_graph', 'transform_ast_calls_after_two_recursive_requests': n_rec,
                                  'after_one_more_nonrecursive_request': n_nonrec, 'expected': [1, 2]}, None))
            # allowlist cache: an entry made under options A must not decide for options B
            o_noconv = converter.ConversionOptions(recursive=False, user_requested=False, internal_convert_user_code=False,
                                                  optional_features=None)
            o_conv = converter.ConversionOptions(recursive=True, user_requested=True, optional_features=None)
            h = world.fn(1, 2)
            n0 = len(calls)
            r_a = api.converted_call(h, (4,), None, options=o_noconv)
            cached_a = conversion.is_in_allowlist_cache(h, o_noconv)
            aliased = conversion.is_in_allowlist_cache(h, o_conv)
            r_b = api.converted_call(h, (4,), None, options=o_conv)
            n1 = len(calls)
            if r_a != h(4) or r_b != h(4):
                failures.append(('converted_call changes the result', {'kind': 'converted_call', 'got': repr((r_a, r_b)), 'want': repr(h(4))}, None))
            if not cached_a or aliased or n1 == n0:
                failures.append(('allowlist cache aliases different option sets',
                                 {'kind': 'allowlist-cache', 'cached_under_its_own_options': cached_a,
                                  'visible_under_other_options': aliased,
                                  'converted_under_other_options': n1 > n0}, None))
            # same code, other function object: the allowlist entry is per function object
            h2 = world.fn(1, 3)
            if conversion.is_in_allowlist_cache(h2, o_noconv):
                failures.append(('allowlist cache confuses two function objects sharing code',
                                 {'kind': 'allowlist-cache'}, None))
        finally:
            del api._TRANSPILER.transform_ast
        run.count(6)
    except Exception as ex:   # noqa
        failures.append(('public entry points raised ' + type(ex).__name__,
                         {'kind': 'to_graph', 'traceback': traceback.format_exc()[-1500:]}, None))
    world.clear()
    return failures


# ---------------------------------------------------------------------------
def replay(path):
    with open(path) as f:
        doc = json.load(f)
    rep = doc.get('replay', {})
    print(json.dumps(doc, indent=1)[:6000])
    kind = rep.get('kind')
    tmp = vlib.ensure_dir(os.path.join(vlib.BUILD, 'tmp', 'replay%d' % os.getpid()))
    os.environ['TMPDIR'] = tmp
    import tempfile
    tempfile.tempdir = tmp
    try:
        TT, MT = make_transpilers()

        def mk_ctx(c, o):
            return UserCtx(o, cls=c)
        world = World(tmp)
        if kind == 'preemption-sweep':
            bad, _ = preemption_sweep(TT, world, mk_ctx, only=rep.get('point'))
            for what, detail, n, sched in bad:
                print('REPRODUCED:', what, '--', detail)
                print(json.dumps(sched, indent=1))
            if not bad:
                print('not reproduced')
            return 1 if bad else 0
        if kind in ('forced-schedule', 'forced-schedule-min', 'alias-gc'):
            labels = [tuple(l) for l in rep['schedule']]
            obs = run_schedule(labels, TT, world, mk_ctx, observe_tt, alias_gc=(0, 0) if kind == 'alias-gc' else None)
            print('events on the real code now:', pretty_events(obs['events']))
            print('errors:', obs['errors'], 'transform log:', obs['tlog'], 'completed:', obs['outs'])
            if obs['stuck']:
                print('NOT REPRODUCED: the schedule does not fit the cache-access code of this tree (%s)' % obs['stuck'])
                return 0
            bad = judge_obs(labels, obs)
            for what, detail in bad:
                print('REPRODUCED:', what, '--', detail)
            return 1 if bad else 0
        if kind == 'overlap-probe':
            bad = overlap_probe(TT, world, mk_ctx, nwaiters=rep.get('waiters', 2))
            for what, detail in bad:
                print('REPRODUCED:', what, '--', detail)
            return 1 if bad else 0
        if kind == 'sequential-history':
            tr = TT()
            rc = 0
            for op in rep['history']:
                if op[0] == 'collect':
                    world.gc_class(op[1])
                    print('collect class', op[1])
                else:
                    _, c, o, e, load = op
                    try:
                        got = observe_tt(world, tr.transform_function(world.fn(c, e, load), mk_ctx(c, o)))
                    except Exception as ex:   # noqa
                        got = 'raised %s: %s' % (type(ex).__name__, ex)
                    print('request (class %d, options %d, env %d) -> %r   transform counts %r' % (c, o, e, got, dict(tr.count)))
                    if got != (c, o, e):
                        rc = 1
            if any(n > 1 for n in tr.count.values()) and not any(op[0] == 'collect' for op in rep['history']):
                rc = 1
            print('REPRODUCED' if rc else 'not reproduced')
            return rc
        if kind == 'nested-history' and rep.get('history_raw'):
            script = os.path.join(tmp, 'c10_nested.py')
            with open(script, 'w') as f:
                f.write(NESTED_SCRIPT)
            rc = 0
            outs = []
            for h in (rep['history_raw'], [rep['history_raw'][rep['failing_request_index']]]):
                _, out = vlib.sh([vlib.PY, script, json.dumps(h)], timeout=300, env=vlib.repo_env({'TMPDIR': tmp}))
                outs.append(json.loads(re.search(r'^RESULT (.*)$', out, re.M).group(1)))
            got, want = outs[0][rep['failing_request_index']], outs[1][0]
            print('in the history:', got, '| alone in a fresh process:', want)
            print('REPRODUCED' if got != want else 'not reproduced')
            return 1 if got != want else 0
        if kind == 'redefinition-history' and rep.get('history_raw'):
            script = os.path.join(tmp, 'c10_redef.py')
            with open(script, 'w') as f:
                f.write(REDEF_SCRIPT)
            d = vlib.ensure_dir(os.path.join(tmp, 'redef_replay'))
            _, out = vlib.sh([vlib.PY, script, json.dumps(rep['history_raw']), d, 'c10_redef_mod'], timeout=300,
                             env=vlib.repo_env({'TMPDIR': tmp}))
            res = json.loads(re.search(r'^RESULT (.*)$', out, re.M).group(1))
            rc = 0
            for step in res:
                for got in step:
                    print('converted g(5) = %s ; the function itself f(5) = %s' % (got[0], got[1]))
                    if got[0] != got[1]:
                        rc = 1
            print('REPRODUCED' if rc else 'not reproduced')
            return rc
        if kind == 'mutation-history' and rep.get('history_raw'):
            bad, res = mutation_histories(None, None, tmp, False, False, None, only_hist=rep['history_raw'])
            for line in mut_describe(rep['history_raw']):
                print('   ', line)
            if not isinstance(res, str):
                for step in res:
                    for ob in step:
                        print('served function returned %r ; the function object itself (CPython) %r' % (
                            mut_core(ob['got']), mut_core(ob['direct'])))
            print('REPRODUCED: %s (step #%d: %s)' % (bad[0], bad[1], json.dumps(bad[2])[:1200]) if bad else 'not reproduced')
            return 1 if bad else 0
        if kind == 'allowlist-history':
            hist = [tuple(x) for x in rep['history_raw']]
            bad, obs = allowlist_histories(None, None, tmp, False, False, only_hist=hist)
            print('observed (ran_converted, value) per request:', obs)
            print('REPRODUCED: %s (request #%d: %s)' % bad if bad else 'not reproduced')
            return 1 if bad else 0
        if kind == 'option-field-history':
            from malt.core import converter
            hist = [dec_kw(k, converter.Feature) for k in rep['history_kwargs']]
            d = run_field_history(MT, World(tmp, src=FIELD_SRC, tag='fld'), hist, converter)
            print('REPRODUCED: %s' % json.dumps(d, default=str)[:1500] if d else 'not reproduced')
            return 1 if d else 0
        if kind == 'free-running':
            for attempt in range(200):
                rnd = random.Random(attempt)
                tr = TT()
                world.clear()
                bad = stress_round(rnd, tr, world, mk_ctx, observe_tt, rep['threads'], rep['requests_per_thread'],
                                   rep['code_classes'], rep['options'], rep['envs'])
                bad += [('transform ran %d times' % n, str(k), None) for k, n in tr.count.items() if n > 1]
                if bad:
                    print('REPRODUCED at attempt %d:' % attempt, bad[0][0], '--', bad[0][1])
                    return 1
            print('not reproduced in 200 attempts')
            return 0
        print('(no executable replay for this kind; the document above describes the failure)')
        return 0
    finally:
        tempfile.tempdir = None
        shutil.rmtree(tmp, ignore_errors=True)
