"""C05 -- the control-flow graph contains every control path that can execute (DESIGN.md 4/C05).

Model (coq/Cfg/Skel.v): control skeleton, decision-driven trace semantics `exec_fn` (S) and the
edges `cfg_fn` the graph must contain (H).  Theorem (coq/Properties/C05): every execution trace is a
path of `cfg_fn` from the entry to an exit/raise node (guard: no jump in an except body of a try with
finally -- known finding).  Ties, checked on every run on generated programs:
   * cfg_fn(model) is a sub-graph of what malt.pyct.cfg.build returns, same nodes, same error nodes
   * exec_fn(model) reproduces the node trace of a real CPython run under the logged decisions
Property-level oracle on the implementation: well-formedness of the returned Graph (next/prev mirror,
entry, stmt_prev/stmt_next recomputed from lexical containment) and "the executed trace is a path".
"""
import ast
import itertools
import os
import random
import re

from lib import vlib, pyrt
from gen import progs
from export import skel as skel_mod

KNOWN = 'cfg-jump-in-handler-of-try-finally'


def generate():
    pass


def build_impl(src):
    from malt.pyct import cfg
    tree = ast.parse(src)
    fn = tree.body[0]
    graphs = cfg.build(fn)
    return fn, graphs


def wf_failures(g):
    """Well-formedness of one Graph, judged directly on the implementation's object."""
    out = []
    nodes = list(g.index.values())
    nset = set(nodes)
    for n in nodes:
        for m in n.next:
            if m not in nset:
                out.append('successor %r of %r is not in index' % (m, n))
            elif n not in m.prev:
                out.append('%r -> %r in next but not mirrored in prev' % (n, m))
        for m in n.prev:
            if n not in m.next:
                out.append('%r in prev of %r but not mirrored in next' % (m, n))
    if g.entry not in nset:
        out.append('entry not in index')
    if len(list(g.entry.prev)):
        # a loop may flow back to the first statement, never to the args node
        out.append('entry node has predecessors')
    for n in g.exit:
        if n not in nset:
            out.append('exit node not in index')
    # every node is reachable from the entry or is dead code: a dead node is only reachable from nodes
    # that are dead themselves, i.e. no edge from a reachable node to an unreachable node (trivial by
    # definition) and an unreachable node never has a reachable predecessor.
    seen = set()
    todo = [g.entry]
    while todo:
        n = todo.pop()
        if n in seen:
            continue
        seen.add(n)
        todo.extend(n.next)
    for n in nodes:
        if n not in seen and any(p in seen for p in n.prev):
            out.append('unreachable node %r has a reachable predecessor' % (n,))
    return out, seen


def descendants(stmt):
    return set(id(x) for x in ast.walk(stmt))


def stmt_edge_failures(g):
    out = []
    nodes = list(g.index.values())
    for stmt, nxt in g.stmt_next.items():
        inside = descendants(stmt)
        want_next = set()
        want_prev = set()
        for n in nodes:
            for m in n.next:
                a = id(n.ast_node) in inside
                b = id(m.ast_node) in inside
                if a and not b:
                    want_next.add(m)
                if b and not a:
                    want_prev.add(n)
        if set(nxt) != want_next:
            out.append('stmt_next of %s at line %s is %s, node graph says %s' % (
                type(stmt).__name__, getattr(stmt, 'lineno', '?'), sorted(map(repr, nxt)), sorted(map(repr, want_next))))
        if set(g.stmt_prev.get(stmt, ())) != want_prev:
            out.append('stmt_prev of %s at line %s is %s, node graph says %s' % (
                type(stmt).__name__, getattr(stmt, 'lineno', '?'), sorted(map(repr, g.stmt_prev.get(stmt, ()))),
                sorted(map(repr, want_prev))))
    return out


def run_trace(src, sk, decisions):
    """Real CPython run of the program under the decision vector -> (labels executed, model decisions,
    returned?, escaped_at) ; None when the program does something outside the trace semantics."""
    world = pyrt.World(decisions)
    glb = world.globals()
    code = compile(src, '<c05>', 'exec')
    exec(code, glb)
    f = glb['f']
    fcode = f.__code__
    labels = []
    state = {'escaped': None, 'unknown': False}

    # with items: the `with` line also gets a line event when the block is left (the __exit__ call),
    # so item nodes are logged when the context manager expression is evaluated instead
    item_of_k = {}
    for l, kd in sk.kind.items():
        if kd == 'item':
            ce = sk.node_of[l].context_expr
            if isinstance(ce, ast.Call) and isinstance(ce.func, ast.Name) and ce.func.id == 'CM' and ce.args \
                    and isinstance(ce.args[0], ast.Constant):
                item_of_k[ce.args[0].value] = l
            else:
                state['unknown'] = True
    world.hook = lambda kind, k: labels.append(item_of_k[k])

    def on_line(co, line):
        if co is not fcode:
            return
        if line == -1:
            labels.append(1)
            return
        for l in sk.line_labels.get(line, ()):
            if sk.kind[l] == 'item':
                continue
            labels.append(l)
            if sk.kind[l] == 'raise':
                ds = sk.raise_decisions.get(l)
                if ds is None:
                    state['unknown'] = True
                else:
                    world.dlog.extend(ds)
                    if (not ds or ds[-1] == 0) and state['escaped'] is None:
                        state['escaped'] = len(labels)    # trace positions after this are not claimed

    kind, val, _ = pyrt.run_traced(f, (1, 2, 3), world, code_filter=lambda co: co is fcode, on_line=on_line)
    if state['unknown']:
        return None
    if kind == 'raise' and val not in ('E0', 'E1', 'E2', 'E3'):
        return None     # implicit exception (not an explicit raise): outside the property
    return labels, list(world.dlog), kind == 'return', state['escaped']


def gen_sibling_finally(rnd):
    """several try/finally statements side by side (and nested) inside an enclosing try/finally, each with a jump that
    has to run its own finally body and then the enclosing ones -- the shape in which the edges between finally
    sections are shared by several jumps"""
    k = [0]

    def K():
        k[0] += 1
        return k[0]

    def jump(in_loop):
        c = rnd.choice(['return', 'return', 'raise'] + (['break', 'continue', 'break'] if in_loop else []))
        return {'return': 'return T(%d)' % K(), 'raise': 'raise E0()', 'break': 'break', 'continue': 'continue'}[c]

    def sib(ind, in_loop, depth):
        pad = '    ' * ind
        out = [pad + 'try:']
        if depth < 2 and rnd.random() < 0.3:
            for _ in range(rnd.randint(1, 2)):
                out += sib(ind + 1, in_loop, depth + 1)
        if rnd.random() < 0.85:
            out += [pad + '    if D(%d):' % K(), pad + '        ' + jump(in_loop)]
        out += [pad + '    T(%d)' % K()]
        if rnd.random() < 0.25:
            out += [pad + 'except E0:', pad + '    T(%d)' % K()]
        out += [pad + 'finally:', pad + '    T(%d)' % K()]
        return out
    lines = ['def f(a, b, c):']
    in_loop = rnd.random() < 0.5
    ind = 1
    if in_loop:
        lines.append('    while D(%d):' % K() if rnd.random() < 0.5 else '    for i1 in L(%d):' % K())
        ind = 2
    pad = '    ' * ind
    lines.append(pad + 'try:')
    for _ in range(rnd.randint(2, 3)):
        lines += sib(ind + 1, in_loop, 0)
    lines += [pad + 'finally:', pad + '    T(%d)' % K()]
    lines.append('    return T(%d)' % K())
    return '\n'.join(lines) + '\n'


def gen_layered_jumps(rnd):
    """Jumps with DIFFERENT targets behind the SAME guards.  The function is a stack of layers (try/finally with or
    without handlers, while / for loops with or without else, if, with) nested 2..6 deep; at every level, before and
    after the inner layer, there are groups of guarded jumps `if D(k): break | continue | return | raise`.  A break /
    continue stops at its loop, a return / raise goes on to the function (or a handler), so jumps that share their
    innermost finally guards have chains of different length whenever another try/finally lies between the loop and
    the function; statements follow the loops and the try statements, so the target of every chain is a node of its
    own.  Finally bodies have one or several end nodes (an if inside).

    -> (source, directed decision vectors): one vector per jump site that drives the execution (first iteration of
    every loop, every earlier guard not taken) to that jump and takes it, so that every jump's whole chain
    jump -> finally bodies -> target is executed at least once."""
    k = [0]
    lines = ['def f(a, b, c):']
    directed = []

    def K():
        k[0] += 1
        return k[0]

    def emit(ind, text):
        lines.append('    ' * ind + text)

    def jump_group(ind, in_loop, path):
        """path: decisions consumed so far on the way here; -> path after the group when no jump is taken"""
        kinds = ['return', 'return', 'raise'] + (['break', 'continue'] * 2 if in_loop else [])
        for c in rnd.sample(kinds, rnd.randint(1, min(3, len(kinds)))):
            emit(ind, 'if D(%d):' % K())
            if c == 'return':
                emit(ind + 1, 'return T(%d)' % K() if rnd.random() < 0.7 else 'return')
            elif c == 'raise':
                emit(ind + 1, 'raise %s()' % rnd.choice(['E0', 'E1']))
            else:
                emit(ind + 1, c)
            directed.append(path + [1])
            path = path + [0]
        return path

    def fin_body(ind):
        emit(ind, 'T(%d)' % K())
        c = rnd.random()
        if c < 0.3:
            emit(ind, 'if D(%d):' % K())
            emit(ind + 1, 'T(%d)' % K())
            if rnd.random() < 0.5:
                emit(ind, 'else:')
                emit(ind + 1, 'T(%d)' % K())
        elif c < 0.45:
            emit(ind, 'T(%d)' % K())

    def layer(ind, depth, in_loop, path, want):
        """emits one compound statement; want: layer kinds still to be placed (outermost first); -> path behind it
        on the all-guards-false, loops-run-once execution, or None when that execution does not come back here"""
        if want:
            kind = want[0]
            want = want[1:]
        else:
            kind = rnd.choice(['try', 'try', 'try', 'loop', 'loop', 'if', 'with'])

        def inner(ind, in_loop, path):
            if rnd.random() < 0.5:
                emit(ind, 'T(%d)' % K())
            if rnd.random() < (0.9 if depth == 0 else 0.45):
                path = jump_group(ind, in_loop, path)
            if depth > 0:
                path = layer(ind, depth - 1, in_loop, path, want)
                if rnd.random() < 0.6:
                    emit(ind, 'T(%d)' % K())       # the statement behind the inner loop / try: a target of its own
                if rnd.random() < 0.3:
                    path = jump_group(ind, in_loop, path)
            emit(ind, 'T(%d)' % K())
            return path

        if kind == 'try':
            emit(ind, 'try:')
            path = inner(ind + 1, in_loop, path)
            if rnd.random() < 0.3:
                emit(ind, 'except %s:' % rnd.choice(['E0', 'E1', 'Exception', '(E0, E1)']))
                emit(ind + 1, 'T(%d)' % K())
                if rnd.random() < 0.4:
                    # not on the directed execution (no raise is taken on it): the path is unchanged
                    emit(ind + 1, 'if D(%d):' % K())
                    emit(ind + 2, rnd.choice(['return T(%d)' % K()] + (['break', 'continue'] if in_loop else [])))
                if rnd.random() < 0.3:
                    emit(ind, 'else:')
                    emit(ind + 1, 'T(%d)' % K())
            emit(ind, 'finally:')
            # a finally body consumes decisions only for its own `if`; on the directed execution they come after
            # the jump of interest or are recorded here
            n0 = len(lines)
            fin_body(ind + 1)
            if any('if D(' in l for l in lines[n0:]):
                path = path + [0]
            return path
        if kind == 'loop':
            if rnd.random() < 0.5:
                emit(ind, 'while D(%d):' % K())
                path = inner(ind + 1, True, path + [1])
                path = path + [0]                   # second evaluation of the test: leave the loop
            else:
                emit(ind, 'for i%d in L(%d):' % (K(), K()))
                path = inner(ind + 1, True, path + [1])
            if rnd.random() < 0.25:
                emit(ind, 'else:')
                emit(ind + 1, 'T(%d)' % K())
                if rnd.random() < 0.4:
                    path = jump_group(ind + 1, in_loop, path)
            return path
        if kind == 'if':
            emit(ind, 'if D(%d):' % K())
            path = inner(ind + 1, in_loop, path + [1])
            if rnd.random() < 0.3:
                emit(ind, 'else:')
                emit(ind + 1, 'T(%d)' % K())
            return path
        emit(ind, 'with CM(%d):' % K())
        return inner(ind + 1, in_loop, path)

    depth = rnd.randint(1, 5)
    # at least: a try/finally around a loop around a try/finally, somewhere in the stack (in this order, other
    # layers in between), in two programs out of three
    want = []
    if rnd.random() < 0.67:
        must = ['try', 'loop', 'try']
        depth = max(depth, 2)
        slots = sorted(rnd.sample(range(depth + 1), 3))
        want = [None] * (depth + 1)
        for s, m in zip(slots, must):
            want[s] = m
        want = [w or rnd.choice(['try', 'try', 'loop', 'if', 'with']) for w in want]
    if rnd.random() < 0.4:
        emit(1, 'T(%d)' % K())
    layer(1, depth, False, [], want)
    if rnd.random() < 0.8:
        emit(1, 'return T(%d)' % K())
    return '\n'.join(lines) + '\n', directed


def decision_vectors(rnd, n):
    out = [[], [1], [1, 0], [0, 1, 1], [1, 1, 0, 1], [2, 1, 0, 2, 1, 0, 1]]
    while len(out) < n:
        out.append([rnd.choice([0, 1, 1, 2, 3]) for _ in range(rnd.randint(1, 10))])
    return out[:n]


def check_trace_on_impl(g, sk, labels, escaped):
    """Is the executed trace a path of the implementation's graph (lambda nodes contracted) from the
    entry, ending in an exit or error node?  Returns None or (i, a, b, why)."""
    edges, nodes, errors = skel_mod.impl_graph(g, sk)
    eset = set(edges)
    upto = escaped if escaped is not None else len(labels)
    tr = labels[:upto]
    if not tr or tr[0] != sk.label[id(g.entry.ast_node)]:
        return (0, None, tr[0] if tr else None, 'trace does not start at the entry node')
    for i in range(len(tr) - 1):
        if (tr[i], tr[i + 1]) not in eset:
            return (i, tr[i], tr[i + 1], 'no edge')
    last = tr[-1]
    if escaped is not None:
        if last not in errors:
            return (len(tr) - 1, last, None, 'escaping raise is not an error node')
    elif (last, 0) not in eset and last not in errors:
        return (len(tr) - 1, last, None, 'last executed node is neither an exit nor a raise node')
    return None


def is_known_handler_jump(sk, a, b):
    """failing transition a -> b: a is a break/continue/return inside an except body of a try statement
    with finally, b lies in that try's finally body."""
    if a is None or b is None or sk.kind.get(a) not in ('break', 'continue', 'return'):
        return False
    an = sk.node_of[a]
    bn = sk.node_of[b]
    for t in ast.walk(sk.fn):
        if isinstance(t, ast.Try) and t.finalbody:
            in_h = any(id(an) in descendants(h) for h in t.handlers)
            in_f = any(id(bn) in descendants(s) for s in t.finalbody)
            if in_h and in_f:
                return True
    return False


def check(run):
    quick = run.tier == 'quick'
    nprog = 260 if quick else 2500
    nvec = 6 if quick else 14
    run.rule = ('seeded random functions (tools/gen/progs.py: assign/if/elif/while/for(+else)/break/continue/return/'
                'raise/try-except-else-finally/with, depth<=4) x decision vectors driving every test, loop trip count and '
                'the handler each raise reaches; + layered-jumps stream: stacks of try/finally, loops, if, with 2..6 deep with '
                'groups of guarded break/continue/return/raise at every level (jumps with different targets behind the same '
                'finally guards), each jump site driven once by a directed decision vector; '
                'non-trivial = program with a loop, a try or a jump; distinct by source text')
    vlib.standard_proof_step(run, ['Cfg/SkelCheck.vo'])
    rnd = random.Random(run.seed * 7919 + 5)
    graph_cases = []
    trace_cases = []
    meta = []        # per program: (src, sk, graph)
    failures = []    # property-level failures on the implementation
    known_seen = 0
    hist = {}
    streams = [('main', progs.Opts(reads='none', max_stmts=16)),
               ('no-try', progs.Opts(reads='none', try_=False, max_stmts=12)),
               ('handler-jump', progs.Opts(reads='none', jump_in_handler_finally=True, max_stmts=16)),
               ('rich-finally', progs.Opts(reads='none', rich_finally=True, max_stmts=18, max_depth=5)),
               ('rich-finally-jumps', progs.Opts(reads='none', rich_finally=True, jump_in_handler_finally=True, max_stmts=18, max_depth=5)),
               # dense nesting of try/finally inside finally bodies with jumps
               ('finally-nest', progs.Opts(reads='none', rich_finally=True, jump_in_handler_finally=True, max_stmts=16, max_depth=6,
                                           finally_prob=0.85, only={'if', 'try', 'while', 'for', 'break', 'continue', 'return', 'expr'}))]
    streams.append(('sibling-finally', None))
    weights = [0.35, 0.1, 0.15, 0.1, 0.1, 0.1, 0.1]
    seen_src = set()
    pi = 0
    tcount = 0
    corpus = []
    cdir = os.path.join(vlib.ROOT, 'corpus', 'C05')
    if os.path.isdir(cdir):
        for fnm in sorted(os.listdir(cdir)):
            if fnm.endswith('.py'):
                text = open(os.path.join(cdir, fnm)).read()
                first, rest = text.split('\n', 1)
                corpus.append((rest, eval(first.split(':', 1)[1])))
    # the layered-jumps stream comes after the others (and draws its programs from its own generator state), so
    # that the programs and decision vectors of the older streams do not depend on it
    nlay = 70 if quick else 700
    rnd_lay = random.Random(run.seed * 7919 + 6)
    for it in range(nprog + len(corpus) + nlay):
        directed = []
        if it < len(corpus):
            src, cdv = corpus[it]
            sname = 'corpus'
        elif it >= nprog + len(corpus):
            cdv = None
            sname = 'layered-jumps'
            src, directed = gen_layered_jumps(rnd_lay)
        else:
            cdv = None
            sname, opts = rnd.choices(streams, weights)[0]
            src = progs.gen_function(rnd, opts) if opts is not None else gen_sibling_finally(rnd)
        if src in seen_src:
            continue
        seen_src.add(src)
        try:
            fn, graphs = build_impl(src)
        except Exception as e:  # noqa
            failures.append(('cfg.build raised %s: %s' % (type(e).__name__, e), src, None, None))
            continue
        try:
            sk = skel_mod.Skel(fn)
        except skel_mod.Unsupported:
            continue
        g = graphs[fn]
        run.count()
        for kw in ('while', 'for', 'try', 'finally', 'except', 'break', 'continue', 'return', 'raise', 'with', 'else'):
            if re.search(r'\b%s\b' % kw, src):
                hist[kw] = hist.get(kw, 0) + 1
        if re.search(r'\b(while|for|try|break|continue|raise)\b', src):
            run.nontriv(src)
        # oracle (a): well-formedness on the implementation
        wf, reachable = wf_failures(g)
        for w in wf + stmt_edge_failures(g):
            failures.append((w, src, None, None))
        edges, nodes, errors = skel_mod.impl_graph(g, sk)
        idx = len(meta)
        meta.append((src, sk, g, sname))
        if True:
            graph_cases.append('(%d, %s, %s, %s, %s)' % (idx, sk.term, skel_mod.coq_edges(edges),
                                                        skel_mod.coq_nats(nodes), skel_mod.coq_nats(errors)))
        # traces
        for dv in ([cdv] if cdv is not None else []) + directed + decision_vectors(rnd, nvec):
            try:
                r = run_trace(src, sk, dv)
            except RecursionError:
                r = None
            if r is None:
                continue
            labels, mdec, returned, escaped = r
            tcount += 1
            bad = check_trace_on_impl(g, sk, labels, escaped)
            if bad:
                i, a, b, why = bad
                if is_known_handler_jump(sk, a, b):
                    known_seen += 1
                    run.violation('executed trace is not a path of the CFG', {}, classify=KNOWN)
                else:
                    failures.append(('executed trace is not a path of the CFG built by malt.pyct.cfg: %s between node %s (%s) and node %s (%s)' % (
                        why, a, node_text(sk, a), b, node_text(sk, b)), src, dv, labels))
            if True:
                trace_cases.append('(%d, %s, %s, %s, %s)' % (idx, sk.term, skel_mod.coq_nats(mdec),
                                                            skel_mod.coq_nats(labels), vlib.coq_bool(returned)))
            if pi < 4 and len(labels) > 4:
                run.sample({'program': src, 'decisions': dv, 'executed_node_labels': labels, 'returned': returned})
                pi += 1
    run.count(tcount)
    run.extra['programs'] = len(meta)
    run.extra['traces_validated_against_impl'] = tcount
    run.extra['construct_histogram'] = hist
    run.extra['known_finding_traces'] = known_seen

    # correspondence in Coq (sharded)
    bad_graphs, extras = coq_cases('graph', graph_cases, 'graph_case', 'failing_graphs', run)
    bad_traces, _ = coq_cases('trace', trace_cases, 'trace_case', 'failing_traces', run)
    run.extra['graph_cases'] = len(graph_cases)
    run.extra['trace_cases'] = len(trace_cases)

    seen = set()
    for what, src, dv, labels in failures:
        key = what.split(':')[0]
        if key in seen:
            continue
        seen.add(key)
        run.violation(what, {'program': src, 'decisions': dv, 'executed': labels,
                             'replay': 'bin/check C05 --replay <this file>'})
    broken = []
    if bad_graphs is None or bad_traces is None:
        broken.append('model evaluation failed')
    else:
        if bad_graphs:
            broken.append('cfg_fn(model) is not a sub-graph of cfg.build on programs %s' % sorted(set(bad_graphs))[:8])
        if bad_traces:
            broken.append('exec_fn(model) differs from the CPython trace on programs %s' % sorted(set(bad_traces))[:8])
    if broken and not failures:
        # search: drive the programs on which the graphs disagree with many more decision vectors
        found = None
        for idx in sorted(set(bad_graphs or [])):
            src, sk, g, _ = meta[idx]
            found = search_failing_trace(src, sk, g, rnd)
            if found:
                break
            # the missing edge may be one that this program cannot take because of its exception classes:
            # try the variant in which every handler catches everything that is raised
            var = re.sub(r'except [^:]*:', 'except Exception:', src)
            if var != src:
                try:
                    vfn, vgraphs = build_impl(var)
                    vsk = skel_mod.Skel(vfn)
                    found = search_failing_trace(var, vsk, vgraphs[vfn], rnd)
                except Exception:   # noqa
                    found = None
                if found:
                    break
        if found:
            run.violation(found[0], found[1])
        else:
            ex = meta[(bad_graphs or bad_traces or [0])[0]][0] if meta else ''
            run.violation('correspondence between the Coq model and the implementation broke: ' + '; '.join(broken),
                          {'broken': broken, 'example_program': ex,
                           'searched': 'decision vectors up to length 9 on every disagreeing program: no executed trace left the graph'},
                          found_input=False)
    run.assumptions += [
        'ordinary statements do not raise (the property and cfg.py both exclude implicit exceptions)',
        'an exception that leaves a try statement with a finally clause ends the claimed trace (OEscaped)',
        'lambda nodes are contracted; nested function bodies have their own graphs']


def node_text(sk, l):
    if l is None or l not in sk.node_of:
        return '?'
    n = sk.node_of[l]
    try:
        return ast.unparse(n).split('\n')[0][:40]
    except Exception:  # noqa
        return type(n).__name__


def coq_cases(name, cases, ctype, fname, run):
    if not cases:
        return [], []
    bad = []
    shards = [cases[i:i + 250] for i in range(0, len(cases), 250)]
    from concurrent.futures import ThreadPoolExecutor

    def one(args):
        i, sh = args
        body = ['From Coq Require Import List Arith Bool.', 'Import ListNotations.',
                'Require Import MV.Cfg.Skel MV.Cfg.SkelCheck.',
                'Definition cases : list %s := [' % ctype, ';\n'.join(sh), '].',
                'Eval vm_compute in %s cases.' % fname]
        return vlib.coq_eval('C05', '%s_%d' % (name, i), '\n'.join(body), timeout=900)

    with ThreadPoolExecutor(max_workers=8) as ex:
        results = list(ex.map(one, enumerate(shards)))
    for rc, out in results:
        r = vlib.parse_coq_list_of_nat(out) if rc == 0 else None
        if r is None:
            run.note('coq evaluation of %s cases failed: %s' % (name, out[-400:]))
            return None, None
        bad.extend(r)
    return bad, []


def search_failing_trace(src, sk, g, rnd):
    """Targeted search on a program whose graphs disagree: short exhaustive decision vectors first, then
    many random ones; every executed trace is judged against the implementation's graph."""
    def vectors():
        for n in range(0, 7):
            for dv in itertools.product([1, 0, 2], repeat=n):
                yield list(dv)
        for _ in range(1500):
            yield [rnd.choice([0, 1, 1, 2, 3]) for _ in range(rnd.randint(3, 12))]
    for dv in vectors():
        try:
            r = run_trace(src, sk, dv)
        except RecursionError:
            r = None
        if r is None:
            continue
        labels, mdec, returned, escaped = r
        bad = check_trace_on_impl(g, sk, labels, escaped)
        if bad and not is_known_handler_jump(sk, bad[1], bad[2]):
            i, a, b, why = bad
            return ('executed trace is not a path of the CFG: %s between node %s (%s) and node %s (%s)' % (
                why, a, node_text(sk, a), b, node_text(sk, b)),
                {'program': src, 'decisions': list(dv), 'executed': labels})
    return None


def replay(path):
    import json
    doc = json.load(open(path))
    rp = doc.get('replay', {})
    src = rp.get('program')
    if not src or rp.get('decisions') is None:
        print(json.dumps(doc, indent=1))
        return 0
    fn, graphs = build_impl(src)
    sk = skel_mod.Skel(fn)
    r = run_trace(src, sk, rp['decisions'])
    print(src)
    print('decisions', rp['decisions'], '-> executed', r[0] if r else None)
    bad = check_trace_on_impl(graphs[fn], sk, r[0], r[3]) if r else None
    print('not a path: %r' % (bad,) if bad else 'trace is a path of the graph')
    return 1 if bad else 0
