"""C14 -- builtin overloads behave like the builtins on ordinary Python values (DESIGN.md 4/C14).

 1. regenerate coq/Generated/C14_gen.v from malt/operators/py_builtins.py + api.converted_call (fail closed)
 2. re-check the obligations in coq/Properties/C14
 3. correspondence, evaluated inside Coq:
      a. the generated overload model vs the real overloads (builtins replaced by recorders, argument
         values are tokens) on every call shape up to the bounds, with and without registered overrides
      b. Binding.bind vs CPython's own call binding on random `def` signatures
      c. the documented signatures of DocSigs.v vs the real builtins (which shapes are accepted)
      d. Frames.find_frame vs the real _find_originating_frame on real call stacks
      e. Namespaces.run (handout read from the source: own mapping / copy) vs converted programs rendered from
         traces of operations on the mapping returned by globals() / locals(); Namespaces.spec_run vs plain CPython
      + the list of builtins whose forwarding theorem does not apply (`nonconforming`), each with its
        refuting shapes, which are then run on the real overload
 4. property-level oracle on the real code: overload_of(b)(*a, **k) and converted_call(b, a, k) against
    b(*a, **k) over value families (equal value / equal item sequence with equal laziness / equal
    output / equal exception type); converted functions that call eval / locals / globals / super at
    every nesting of functionalised loops and branches against the unconverted function; programs that write
    through / compare / re-read the mapping returned by globals() and locals() (outcome and state left in the module)
"""
import ast
import contextlib
import importlib.util
import io
import itertools
import json
import os
import random
import re
import shutil
import sys

from lib import vlib
from translate import c14_builtins

PID = 'C14'
BUILTINS = ['abs', 'all', 'any', 'enumerate', 'filter', 'float', 'int', 'len', 'map', 'print', 'range', 'sorted', 'zip']
KF_ENUM = 'C14-enumerate-iterable-keyword'
KF_CTX = 'C14-ctx-builtin-in-functionalised-body'


def generate():
    text = c14_builtins.translate(vlib.REPO)
    vlib.write_if_changed(os.path.join(vlib.COQ, 'Generated', 'C14_gen.v'), text)


# ----------------------------------------------------------------------------------------------
# tokens: the argument values of the correspondence (Coq side: naturals)
class TokBoolError(Exception):
    pass


class K0(object):
    pass


class K1(object):
    pass


class K2(object):
    pass


class K3(object):
    pass


KS = [K0, K1, K2, K3]
_TOKS = {}


def tok(n):
    if n not in _TOKS:
        cls = KS[(n // 3) % 4]
        t = cls()
        t.n = n
        _TOKS[n] = t
    return _TOKS[n]


def _tok_bool(self):
    if self.n % 3 == 2:
        raise TokBoolError(self.n)
    return self.n % 3 == 1


for _k in KS:
    _k.__bool__ = _tok_bool
    _k.__repr__ = lambda self: 'tok(%d)' % self.n


class Ret(object):
    pass


def coq_val(v, unspec):
    if type(v) in KS:
        return 'VV %d' % v.n
    if v is unspec:
        return 'VC CUnspec'
    if v is True:
        return 'VC CTrue'
    if v is False:
        return 'VC CFalse'
    if v is None:
        return 'VC CNone'
    if type(v) is int and v == 0:
        return 'VC CInt0'
    if type(v) is str:
        return 'VC (CStr %s)' % vlib.coq_str(v)
    return None


def coq_kws(k):
    return '[' + '; '.join('(%s, %d)' % (vlib.coq_str(n), v) for n, v in k) + ']'


def observe_overload(pb, b, args, kws, regspec):
    """Run the real overload of builtin `b` on tokens with every builtin replaced by a recorder.
    -> Gallina `result nat` term describing what happened."""
    calls = []
    ret = Ret()
    saved = {}
    saved_regs = {}

    def rec(name):
        def r(*a, **k):
            calls.append(('call', name, a, k))
            return ret
        return r

    overrides = {}

    def override(regname, oid):
        # one function object per (registry, id): zip_/map_ compare overrides by identity
        if (regname, oid) not in overrides:
            def r(*a, **k):
                calls.append(('override', regname, oid, a, k))
                return ret
            overrides[(regname, oid)] = r
        return overrides[(regname, oid)]
    try:
        for name in BUILTINS:
            saved[name] = pb.__dict__.get(name, saved)
            setattr(pb, name, rec(name))
        for (rn, cls, oid) in regspec:
            reg = getattr(pb, rn)
            if rn not in saved_regs:
                saved_regs[rn] = reg._registry
                reg._registry = {}
            if KS[cls] not in reg._registry:
                reg._registry[KS[cls]] = override(rn, oid)
        # overload_of keys on the real builtin object
        real = getattr(__import__('builtins'), b)
        try:
            out = pb.overload_of(real)(*[tok(a) for a in args], **{k: tok(v) for k, v in kws})
            exc = None
        except TokBoolError as e:
            return 'RTruthExc %d' % e.args[0]
        except TypeError:
            return 'RExc ETypeError'
        except ValueError:
            return 'RExc EValueError'
        except Exception as e:   # noqa
            return 'RStuck (* %s *)' % type(e).__name__
    finally:
        for name, v in saved.items():
            if v is saved:
                delattr(pb, name)
            else:
                setattr(pb, name, v)
        for rn, d in saved_regs.items():
            getattr(pb, rn)._registry = d
    if len(calls) != 1:
        return 'RStuck (* %d calls *)' % len(calls)
    c = calls[0]
    a, k = c[-2], c[-1]
    pa = [coq_val(x, pb.UNSPECIFIED) for x in a]
    ka = [(n, coq_val(x, pb.UNSPECIFIED)) for n, x in k.items()]
    if any(x is None for x in pa) or any(x is None for _, x in ka):
        return 'RStuck (* unexpected value forwarded *)'
    pas = '[' + '; '.join(pa) + ']'
    kas = '[' + '; '.join('(%s, %s)' % (vlib.coq_str(n), x) for n, x in ka) + ']'
    if c[0] == 'call':
        if out is ret:
            rv = 'true'
        elif out is None:
            rv = 'false'
        else:
            return 'RStuck (* result of the call is not returned *)'
        return 'RCall %s %s %s %s' % (vlib.coq_str(c[1]), pas, kas, rv)
    if out is not ret:
        return 'RStuck (* result of the override is not returned *)'
    return 'ROverride %s %d %s %s' % (vlib.coq_str(c[1]), c[2], pas, kas)


DOC_KW = {'enumerate': ['iterable', 'start'], 'int': ['base'], 'print': ['sep', 'end', 'file', 'flush'],
          'sorted': ['key', 'reverse'], 'zip': ['strict']}
DOC_NPOS = {'abs': 1, 'all': 1, 'any': 1, 'len': 1, 'enumerate': 2, 'filter': 2, 'float': 1, 'int': 2, 'map': 2,
            'print': 0, 'range': 3, 'sorted': 1, 'zip': 0}


def overload_cases(pb, rnd, thorough):
    import inspect
    cases = []
    for b in BUILTINS:
        try:
            ov = pb.BUILTIN_FUNCTIONS_MAP[b]
            own = [p.name for p in inspect.signature(ov).parameters.values()
                   if p.kind in (p.POSITIONAL_OR_KEYWORD, p.KEYWORD_ONLY)]
        except Exception:   # noqa
            own = []
        names = []
        for n in DOC_KW.get(b, []) + own + ['bogus']:
            if n not in names:
                names.append(n)
        kwlists = [()] + [(n,) for n in names]
        pairs = list(itertools.permutations(names, 2))
        if len(names) > 4 and not thorough:
            pairs = rnd.sample(pairs, 14)
        kwlists += pairs
        if b == 'print':
            kwlists += [tuple(rnd.sample(DOC_KW['print'], k)) for k in (3, 3, 4, 4)]
        regname = b + '_registry'
        has_reg = hasattr(pb, regname)
        for npos in range(DOC_NPOS[b] + 3):
            for kl in kwlists:
                truths = [1]
                if 'strict' in kl or 'flush' in kl or 'reverse' in kl:
                    truths = [0, 1, 2]
                for t in truths:
                    args = [3 * i + 1 for i in range(npos)]
                    kws = [(n, 3 * (100 + 4 * j) + (t if n in ('strict', 'flush', 'reverse') else 1)) for j, n in enumerate(kl)]
                    cases.append((b, args, kws, []))
        if has_reg:
            specs = [[(regname, 0, 7)], [(regname, 1, 7)], [(regname, 0, 7), (regname, 1, 7)],
                     [(regname, 0, 7), (regname, 1, 8)], [(regname, 0, 7), (regname, 1, 7), (regname, 2, 7)]]
            for spec in specs:
                for npos in range(DOC_NPOS[b] + 3):
                    for kl in [()] + [(n,) for n in names[:3]]:
                        # argument classes: position i has class i % 4; also a variant where all share class 0
                        for same in (False, True):
                            args = [(3 * (4 * i) + 1) if same else (3 * i + 1) for i in range(npos)]
                            kws = [(n, 3 * (100 + 4 * j) + 1) for j, n in enumerate(kl)]
                            cases.append((b, args, kws, spec))
    return cases


# ----------------------------------------------------------------------------------------------
def bind_cases(rnd, n):
    """Random `def` signatures x random calls; CPython is the oracle for Binding.bind."""
    D = object()
    out = []
    for idx in range(n):
        names = ['a', 'b', 'c', 'd', 'e', 'f']
        rnd.shuffle(names)
        npo, npk, nko = rnd.randint(0, 2), rnd.randint(0, 2), rnd.randint(0, 2)
        pos = names[:npo + npk]
        ko = names[npo + npk:npo + npk + nko]
        ndef = rnd.randint(0, len(pos))
        posdef = [i >= len(pos) - ndef for i in range(len(pos))]
        kodef = [rnd.random() < 0.5 for _ in ko]
        star = rnd.random() < 0.35
        dstar = rnd.random() < 0.35
        parts = []
        for i, p in enumerate(pos):
            parts.append(p + ('=D' if posdef[i] else ''))
            if i == npo - 1:
                parts.append('/')
        if star:
            parts.append('*va')
        elif ko:
            parts.append('*')
        for p, d in zip(ko, kodef):
            parts.append(p + ('=D' if d else ''))
        if dstar:
            parts.append('**vk')
        allp = pos + ko
        src = 'def f(%s):\n  return ((%s), %s, %s)\n' % (
            ', '.join(parts), ''.join('(%r, %s), ' % (p, p) for p in allp), 'va' if star else '()', 'vk' if dstar else '{}')
        ns = {'D': D}
        exec(src, ns)
        f = ns['f']
        sig_params = []
        for i, p in enumerate(pos):
            sig_params.append('mkparam %s %s %s' % (vlib.coq_str(p), 'PosOnly' if i < npo else 'PosOrKw',
                                                    '(Default CNone)' if posdef[i] else 'Required'))
        for p, d in zip(ko, kodef):
            sig_params.append('mkparam %s KwOnly %s' % (vlib.coq_str(p), '(Default CNone)' if d else 'Required'))
        sig = 'mksig [%s] %s %s' % ('; '.join(sig_params), '(Some "va")' if star else 'None', '(Some "vk")' if dstar else 'None')
        for _ in range(6):
            na = rnd.randint(0, 4)
            universe = allp + ['zz', 'yy']
            kl = rnd.sample(universe, rnd.randint(0, min(3, len(universe))))
            args = [3 * i + 1 for i in range(na)]
            kws = [(k, 301 + 3 * j) for j, k in enumerate(kl)]
            try:
                bound, va, vk = f(*args, **dict(kws))
                exp = 'Some ([%s], [%s], %s)' % (
                    '; '.join('(%s, %s)' % (vlib.coq_str(p), 'None' if v is D else 'Some %d' % v) for p, v in bound),
                    '; '.join(str(v) for v in va), coq_kws(list(vk.items())))
            except TypeError:
                exp = 'None'
            out.append((sig, args, kws, exp, src))
    return out


class _W(object):
    def write(self, s):
        pass

    def flush(self):
        pass


def doc_cases(rnd):
    """Which call shapes do the real builtins accept (valid values)?  -> (b, args, kws, accepted)"""
    import builtins as B
    posv = {'abs': [-3], 'all': [[1, 0]], 'any': [[1, 0]], 'len': [[1, 2]], 'enumerate': [[5, 6], 1],
            'filter': [None, [0, 1]], 'float': ['1.5'], 'int': ['11', 2], 'map': [str, [1, 2], [3, 4], [5], [6]],
            'zip': [[1], [2], [3]], 'print': [1, 'a', 2.0], 'range': [1, 5, 2], 'sorted': [[3, 1]]}
    kwv = {'iterable': [5, 6], 'start': 1, 'base': 2, 'sep': '-', 'end': '!', 'file': _W(), 'flush': True,
           'key': abs, 'reverse': True, 'strict': True, 'x': '12', 'function': None, 'obj': [1], 'bogus': 1,
           's': [1], 'stop': 5, 'step': 1, 'start_or_stop': 3, 'fn': str, 'objects': 1, 'iterables': [1]}
    out = []
    for b in BUILTINS:
        names = DOC_KW.get(b, []) + ['bogus'] + {'abs': ['x'], 'len': ['obj', 's'], 'all': ['iterable'], 'any': ['iterable'],
                                                  'filter': ['function', 'iterable'], 'float': ['x'], 'int': ['x'],
                                                  'map': ['function', 'fn'], 'range': ['stop', 'step'],
                                                  'sorted': ['iterable'], 'zip': ['iterables'], 'print': ['objects'],
                                                  'enumerate': ['s']}[b]
        names = list(dict.fromkeys(names))
        kwlists = [()] + [(n,) for n in names] + list(itertools.permutations(names, 2))
        if b == 'print':
            kwlists += [tuple(DOC_KW['print'])]
        for npos in range(DOC_NPOS[b] + 3):
            for kl in kwlists:
                a = [(posv[b][i] if i < len(posv[b]) else [1]) for i in range(npos)]
                k = {n: kwv[n] for n in kl}
                if b == 'print' and 'file' not in k:
                    with contextlib.redirect_stdout(io.StringIO()):
                        acc = _accepts(getattr(B, b), a, k)
                else:
                    acc = _accepts(getattr(B, b), a, k)
                out.append((b, [3 * i + 1 for i in range(npos)], [(n, 301 + 3 * j) for j, n in enumerate(kl)], acc))
    return out


def _accepts(f, a, k):
    try:
        f(*a, **k)
        return True
    except TypeError:
        return False


def frame_cases(pb, rnd, n):
    class S(object):
        def __init__(self, name):
            self.name = name
    out = []
    for idx in range(n):
        name = 'fscope' if rnd.random() < 0.9 else 'caller_fn_scope'
        target, other = S(name), S(name)
        depth = rnd.randint(1, 7)
        spec = [rnd.choice('TTOONNN--') for _ in range(depth)]   # innermost first
        inner = rnd.random() < 0.5

        def level(i):
            kind = spec[i]
            if kind == 'T':
                fscope = target     # noqa
            elif kind == 'O':
                fscope = other      # noqa
            elif kind == 'N':
                zz = target         # noqa
            if i == 0:
                fr = pb._find_originating_frame(target, inner)
                if fr.f_code.co_name == '_find_originating_frame':
                    return 0
                if fr.f_code is level.__code__:
                    return 1 + fr.f_locals['i']
                return 99
            return level(i - 1)
        try:
            got = level(depth - 1)
        except AssertionError:
            got = None
        frames = ['[("caller_fn_scope", 1); ("innermost", 9)]']
        for kind in spec:
            loc = {'T': '[("i", 5); ("fscope", 1)]', 'O': '[("i", 5); ("fscope", 2)]', 'N': '[("i", 5); ("zz", 1)]',
                   '-': '[("i", 5)]'}[kind]
            frames.append(loc)
        out.append((name, frames, inner, got, ''.join(spec)))
    return out


# ----------------------------------------------------------------------------------------------
# property-level oracle: value semantics
class Log(object):
    """An iterable whose consumption is observable."""

    def __init__(self, items, log):
        self.items = list(items)
        self.log = log

    def __iter__(self):
        for x in self.items:
            self.log.append(x)
            yield x


class Num(object):
    def __init__(self, v):
        self.v = v

    def __abs__(self):
        return abs(self.v) + 1000

    def __float__(self):
        return float(self.v) + 0.5

    def __int__(self):
        return int(self.v) + 7

    def __index__(self):
        return int(self.v)

    def __len__(self):
        return 3

    def __lt__(self, o):
        return self.v < o.v

    def __eq__(self, o):
        return isinstance(o, Num) and self.v == o.v

    def __hash__(self):
        return hash(self.v)

    def __repr__(self):
        return 'Num(%r)' % (self.v,)


class BadLen(object):
    def __len__(self):
        return -1


class BadBool(object):
    def __bool__(self):
        raise KeyError('bool')


def _gen(items):
    for x in items:
        yield x


def value_inputs(rnd, n_each):
    """-> list of (builtin name, description, factory) ; factory(log) -> (args, kwargs), fresh each call."""
    scal = [0, 1, -5, 2 ** 70, True, False, 3.5, -0.0, float('nan'), float('inf'), '12', ' 7 ', 'abc', '', b'11', None,
            Num(4), Num(-2.5), [1], (), {}, BadLen(), 1 + 2j, '0x1f', '1_0', 'z']
    seqsrc = ['[3, 1, 2]', '()', "(0, '', None)", "'hello'", "{'b': 1, 'a': 2}", '{3, 1}', 'iter([1, 0, 2])',
              '(x for x in [5, 6, 7])', 'Log([4, 0, 6, 1])', '[Num(3), Num(1)]', 'range(4)', '7', 'None', '[[2], [1, 1]]',
              "[1, 'a']", 'Log([])', 'frozenset([2])', "b'ab'", '[True, False]']
    seqs = [lambda L: [3, 1, 2], lambda L: (), lambda L: (0, '', None), lambda L: 'hello', lambda L: {'b': 1, 'a': 2},
            lambda L: {3, 1}, lambda L: iter([1, 0, 2]), lambda L: _gen([5, 6, 7]), lambda L: Log([4, 0, 6, 1], L),
            lambda L: [Num(3), Num(1)], lambda L: range(4), lambda L: 7, lambda L: None, lambda L: [[2], [1, 1]],
            lambda L: [1, 'a'], lambda L: Log([], L), lambda L: frozenset([2]), lambda L: b'ab', lambda L: [True, False]]
    fns = [None, bool, str, lambda x: x, lambda *a: a, abs, 5, lambda x: 1 / x]
    fnsrc = ['None', 'bool', 'str', 'lambda x: x', 'lambda *a: a', 'abs', '5', 'lambda x: 1 / x']
    out = []

    def add(b, desc, fac):
        desc = re.sub(r'seq(\d+)', lambda m: seqsrc[int(m.group(1))], desc)
        out.append((b, desc, fac))

    for v in scal:
        add('abs', 'abs(%r)' % (v,), lambda L, v=v: ((v,), {}))
        add('float', 'float(%r)' % (v,), lambda L, v=v: ((v,), {}))
        add('int', 'int(%r)' % (v,), lambda L, v=v: ((v,), {}))
        add('len', 'len(%r)' % (v,), lambda L, v=v: ((v,), {}))
        for base in (2, 10, 0, 16, 1, 37, '10', Num(8), None, 10.0):
            if rnd.random() < 0.3:
                add('int', 'int(%r, %r)' % (v, base), lambda L, v=v, base=base: ((v, base), {}))
                add('int', 'int(%r, base=%r)' % (v, base), lambda L, v=v, base=base: ((v,), {'base': base}))
    add('float', 'float()', lambda L: ((), {}))
    add('int', 'int()', lambda L: ((), {}))
    add('int', 'int(base=10)', lambda L: ((), {'base': 10}))
    for i, s in enumerate(seqs):
        for b in ('all', 'any', 'len'):
            add(b, '%s(seq%d)' % (b, i), lambda L, s=s: ((s(L),), {}))
        add('enumerate', 'enumerate(seq%d)' % i, lambda L, s=s: ((s(L),), {}))
        for st in (0, 1, -3, 2 ** 65, True, 1.5, 'x', None, Num(2)):
            if rnd.random() < 0.45:
                add('enumerate', 'enumerate(seq%d, %r)' % (i, st), lambda L, s=s, st=st: ((s(L), st), {}))
                add('enumerate', 'enumerate(seq%d, start=%r)' % (i, st), lambda L, s=s, st=st: ((s(L),), {'start': st}))
                add('enumerate', 'enumerate(iterable=seq%d, start=%r)' % (i, st),
                    lambda L, s=s, st=st: ((), {'iterable': s(L), 'start': st}))
                add('enumerate', 'enumerate(start=%r, iterable=seq%d)' % (st, i),
                    lambda L, s=s, st=st: ((), {'start': st, 'iterable': s(L)}))
        add('enumerate', 'enumerate(iterable=seq%d)' % i, lambda L, s=s: ((), {'iterable': s(L)}))
        add('sorted', 'sorted(seq%d)' % i, lambda L, s=s: ((s(L),), {}))
        for key in (None, abs, str, len, lambda x: -x, 5):
            for rev in (None, 'absent', True, False, 0, 1, 'yes', 2.5):
                if rnd.random() < 0.25:
                    kw = {}
                    if key is not None or rnd.random() < 0.5:
                        kw['key'] = key
                    if rev != 'absent':
                        kw['reverse'] = rev
                    add('sorted', 'sorted(seq%d, **%s)' % (i, _kwdesc(kw)), lambda L, s=s, kw=kw: ((s(L),), dict(kw)))
        for f, fs in zip(fns, fnsrc):
            if rnd.random() < 0.6:
                add('filter', 'filter(%s, seq%d)' % (fs, i), lambda L, s=s, f=f: ((f, s(L)), {}))
                add('map', 'map(%s, seq%d)' % (fs, i), lambda L, s=s, f=f: ((f, s(L)), {}))
        for j, s2 in enumerate(seqs):
            if rnd.random() < 0.25:
                add('zip', 'zip(seq%d, seq%d)' % (i, j), lambda L, s=s, s2=s2: ((s(L), s2(L)), {}))
                for strict in (True, False, 1, 0, '', 'x', None):
                    if rnd.random() < 0.5:
                        add('zip', 'zip(seq%d, seq%d, strict=%r)' % (i, j, strict),
                            lambda L, s=s, s2=s2, strict=strict: ((s(L), s2(L)), {'strict': strict}))
                add('map', 'map(lambda *a: a, seq%d, seq%d)' % (i, j), lambda L, s=s, s2=s2: ((lambda *a: a, s(L), s2(L)), {}))
                add('map', 'map(abs, seq%d, seq%d)' % (i, j), lambda L, s=s, s2=s2: ((abs, s(L), s2(L)), {}))
        add('zip', 'zip(seq%d)' % i, lambda L, s=s: ((s(L),), {}))
        add('zip', 'zip(seq%d, strict=True)' % i, lambda L, s=s: ((s(L),), {'strict': True}))
        add('zip', 'zip(seq%d, seq%d, seq0, strict=BadBool)' % (i, i), lambda L, s=s: ((s(L), s(L), [1]), {'strict': BadBool()}))
    add('zip', 'zip()', lambda L: ((), {}))
    add('zip', 'zip(strict=True)', lambda L: ((), {'strict': True}))
    add('map', 'map(str)', lambda L: ((str,), {}))
    add('map', 'map()', lambda L: ((), {}))
    add('filter', 'filter(None)', lambda L: ((None,), {}))
    rvals = [0, 1, 5, -2, 10, 2 ** 65, True, Num(3), 2.0, '3', None]
    for _ in range(n_each):
        k = rnd.randint(1, 3)
        a = tuple(rnd.choice(rvals) for _ in range(k))
        add('range', 'range%r' % (a,), lambda L, a=a: (a, {}))
    add('range', 'range()', lambda L: ((), {}))
    add('range', 'range(1,2,3,4)', lambda L: ((1, 2, 3, 4), {}))
    add('range', 'range(1, 5, 0)', lambda L: ((1, 5, 0), {}))
    pv = [1, 'a', 2.5, None, [1, 'x'], Num(1), {'k': 1}, (1,), True, b'z']
    kwpool = {'sep': ['', '-', None, ', ', 5], 'end': ['', '\n', '!', None, 3], 'flush': [True, False, 0, 'x', None],
              'file': ['STDOUT', 'BUF', None, 'BAD']}
    for _ in range(n_each * 3):
        objs = tuple(rnd.choice(pv) for _ in range(rnd.randint(0, 4)))
        ks = rnd.sample(sorted(kwpool), rnd.randint(0, 4))
        kw = {k: rnd.choice(kwpool[k]) for k in ks}
        add('print', 'print(*%r, **%r)' % (objs, kw), lambda L, objs=objs, kw=kw: (objs, dict(kw)))
    return out


def _kwdesc(kw):
    return '{' + ', '.join('%r: %s' % (k, getattr(v, '__name__', None) if callable(v) and getattr(v, '__name__', '') != '<lambda>'
                                        else ('lambda x: -x' if callable(v) else repr(v))) for k, v in kw.items()) + '}'


def canon(v):
    if isinstance(v, float):
        return ('float', repr(v))
    if isinstance(v, (list, tuple)):
        return (type(v).__name__, tuple(canon(x) for x in v))
    return (type(v).__name__, repr(v))


def run_value(f, fac, take_all=True):
    """Call f on fresh arguments; observe outcome canonically:
    exception type | value | for lazy results: consumption log after construction, after one item, all items."""
    log = []
    args, kw = fac(log)
    buf = io.StringIO()
    if 'file' in kw:
        kw['file'] = {'STDOUT': None, 'BUF': buf, None: None, 'BAD': 5}[kw['file']] if not hasattr(kw['file'], 'write') else kw['file']
        if kw['file'] is None and 'file' in kw:
            pass
    out = io.StringIO()
    try:
        with contextlib.redirect_stdout(out):
            r = f(*args, **kw)
    except Exception as e:   # noqa
        return ('raise', type(e).__name__, out.getvalue(), buf.getvalue())
    obs = [('type', type(r).__name__), ('stdout', out.getvalue(), buf.getvalue()), ('log0', tuple(log))]
    if isinstance(r, (enumerate, zip, map, filter)):
        it = r
        try:
            first = next(it)
            obs.append(('first', canon(first), tuple(log)))
        except StopIteration:
            obs.append(('empty', tuple(log)))
        except Exception as e:   # noqa
            obs.append(('raise-on-next', type(e).__name__, tuple(log)))
        try:
            rest = list(itertools.islice(it, 50))
            obs.append(('rest', canon(rest), tuple(log)))
        except Exception as e:   # noqa
            obs.append(('raise-in-rest', type(e).__name__, tuple(log)))
    elif isinstance(r, range):
        obs.append(('range', r.start, r.stop, r.step))
    else:
        obs.append(('value', canon(r)))
    return tuple(obs)


# ----------------------------------------------------------------------------------------------
# property-level oracle: context builtins in converted functions
def ctx_programs(rnd, n):
    """Programs calling eval / locals / globals / super at nesting depth 0..2 of loops / branches.
    -> (name, source, call expression, {meta})"""
    progs = []
    wrappers = [
        ('for', 'for i in range(n):\n'),
        ('while', 'while k < n:\n    k = k + 1\n'),
        ('if', 'if n > 0:\n'),
        ('ifelse', 'if n < 0:\n    r = r - 1\nelse:\n'),
    ]
    uses = [
        ('eval_only', "r = r + eval('a + b')", False),
        ('eval_ref', "r = r + eval('a + b') + a * 0 + b * 0", True),
        ('eval_global', "r = r + eval('GV')", True),
        ('eval_explicit', "r = r + eval('q + 1', {'q': n})", True),
        ('locals_only', "r = r + locals()['a']", False),
        ('locals_ref', "r = r + locals()['a'] + a * 0", True),
        ('globals', "r = r + globals()['GV']", True),
        ('eval_locals_arg', "r = r + eval('a', globals(), {'a': r + 1})", True),
    ]
    idx = 0
    for depth in range(0, 3):
        for wr in itertools.product(wrappers, repeat=depth):
            for uname, stmt, referenced in uses:
                if depth == 2 and rnd.random() < 0.5:
                    continue
                body = stmt + '\n'
                for wn, hdr in reversed(wr):
                    body = hdr + ''.join('    ' + l + '\n' for l in body.rstrip('\n').split('\n'))
                name = 'p%d' % idx
                idx += 1
                src = 'def %s(n):\n    a = 5\n    b = n\n    r = 0\n    k = 0\n' % name + \
                      ''.join('    ' + l + '\n' for l in body.rstrip('\n').split('\n')) + '    return r\n'
                progs.append((name, src, [0, 1, 3], {'depth': depth, 'use': uname, 'referenced': referenced,
                                                     'wrappers': [w[0] for w in wr]}))
    # recursion: each activation has its own scope object
    progs.append(('rec', "def rec(n):\n    a = n * 10\n    if n > 0:\n        s = rec(n - 1)\n    else:\n        s = 0\n"
                         "    return s + eval('a')\n", [0, 2, 3], {'depth': 0, 'use': 'eval_rec', 'referenced': True, 'wrappers': []}))
    progs.append(('rec2', "def rec2(n):\n    a = n * 10\n    s = 0\n    if n > 0:\n        s = rec2(n - 1) + eval('a') + a * 0\n"
                          "    return s + locals()['a']\n", [0, 2, 3],
                  {'depth': 1, 'use': 'eval_rec', 'referenced': True, 'wrappers': ['if']}))
    # super
    for j, wr in enumerate([(), (wrappers[0],), (wrappers[2],), (wrappers[0], wrappers[2]), (wrappers[1], wrappers[0])]):
        for form in ('super().m(n)', 'super(B%d, self).m(n)' % j):
            body = 'r = r + %s\n' % form
            for wn, hdr in reversed(wr):
                body = hdr + ''.join('    ' + l + '\n' for l in body.rstrip('\n').split('\n'))
            cname = 'B%d' % j if 'B%d' % j in form else 'C%d' % j
            src = ('class A_%s(object):\n    def m(self, n):\n        return n + 100\n'
                   'class %s(A_%s):\n    def m(self, n):\n        r = 0\n        k = 0\n' % (cname, cname, cname)) + \
                ''.join('        ' + l + '\n' for l in body.rstrip('\n').split('\n')) + '        return r\n'
            progs.append((cname, src, [0, 2], {'depth': len(wr), 'use': 'super', 'referenced': True,
                                               'wrappers': [w[0] for w in wr], 'method': True}))
    progs.append(('SR', "class A_SR(object):\n    def __init__(self, tag, other=None):\n        self.tag = tag\n        self.other = other\n"
                        "    def m(self, n):\n        return self.tag + n\n"
                        "class SR(A_SR):\n    def m(self, n):\n        r = 0\n        if n > 0:\n            r = self.other.m(n - 1)\n"
                        "        return r * 10 + super().m(n)\n"
                        "def sr(n):\n    return SR(1, SR(2, SR(3))).m(n)\n", [0, 1, 2],
                  {'depth': 0, 'use': 'super_other_instance', 'referenced': True, 'wrappers': [], 'fn': 'sr'}))
    return progs


def ctx_known(meta, orig, conv):
    """Classifier of the known finding: the context builtin is called inside a functionalised
    loop/branch body and reads a user variable that this body does not reference by name; the
    converted function then fails with NameError / KeyError while the original returns."""
    return (meta['depth'] >= 1 and not meta['referenced'] and meta['use'] in ('eval_only', 'locals_only')
            and orig[0] == 'value' and conv[0] == 'raise' and conv[1] in ('NameError', 'KeyError'))


def run_ctx(progs, tmpdir):
    import malt
    src = 'GV = 11\n' + '\n'.join(p[1] for p in progs)
    path = os.path.join(tmpdir, 'c14_ctx_programs.py')
    with open(path, 'w') as f:
        f.write(src)
    spec = importlib.util.spec_from_file_location('c14_ctx_programs', path)
    mod = importlib.util.module_from_spec(spec)
    sys.modules['c14_ctx_programs'] = mod
    spec.loader.exec_module(mod)
    results = []
    for name, psrc, inputs, meta in progs:
        for n in inputs:
            def call(fn_of):
                try:
                    if meta.get('fn'):
                        cls = getattr(mod, name)
                        saved = cls.m
                        try:
                            cls.m = fn_of(cls.m)
                            return ('value', repr(getattr(mod, meta['fn'])(n)))
                        finally:
                            cls.m = saved
                    if meta.get('method'):
                        cls = getattr(mod, name)
                        return ('value', repr(fn_of(cls.m)(cls(), n)))
                    return ('value', repr(fn_of(getattr(mod, name))(n)))
                except Exception as e:   # noqa
                    return ('raise', type(e).__name__, str(e)[:200])
            orig = call(lambda f: f)
            conv = call(lambda f: malt.to_graph(f))
            results.append((name, psrc, n, meta, orig, conv))
    return results


# ----------------------------------------------------------------------------------------------
# property-level oracle: zero-argument super() must refer to the class that DEFINES the calling
# method (the __class__ cell), not to the class of the receiver: three-level hierarchies
# Base <- Middle (defines the method, uses super()) <- Leaf (inherits it) [<- Leaf2]
SUPER_FORMS = [
    ('plain-guarded', "if n > 0:\n    r = r + super().{M}(n - 1)\n"),
    ('loop', "for i in range(n):\n    r = r + super().{M}(0)\n"),
    ('while', "k = 0\nwhile k < n:\n    k = k + 1\n    r = r + super().{M}(0)\n"),
    ('loop+branch', "for i in range(n):\n    if i < 2:\n        r = r + super().{M}(i)\n"),
    ('branch+loop', "if n > 1:\n    for i in range(n - 1):\n        r = r + super().{M}(i)\nelse:\n    r = r + ['else']\n"),
    ('lambda', "if n > 0:\n    g = lambda s, q: super().{M}(q)\n    r = r + g({SELF}, n - 1)\n"),
    ('function-body', "r = r + super().{M}(n)\n"),
]
SUPER_DRIVERS = [
    ('instance method, receiver of the defining class', 'HM{k}().m(n)'),
    ('instance method inherited, receiver of the subclass', 'HL{k}().m(n)'),
    ('instance method inherited twice, receiver of the sub-subclass', 'HLL{k}().m(n)'),
    ('classmethod, called on the defining class', 'HM{k}.c(n)'),
    ('classmethod inherited, called on the subclass', 'HL{k}.c(n)'),
    ('classmethod inherited, called on an instance of the subclass', 'HL{k}().c(n)'),
]


def _indent(text, n):
    return ''.join(' ' * n + l + '\n' for l in text.rstrip('\n').split('\n'))


def super_hier_programs():
    """-> [(k, form name, class source, [(driver description, driver name, driver source)])]"""
    out = []
    for k, (fname, form) in enumerate(SUPER_FORMS):
        src = ('class HB%d(object):\n'
               '    def m(self, n):\n        return [\'B.m\', type(self).__name__, n]\n'
               '    @classmethod\n    def c(cls, n):\n        return [\'B.c\', cls.__name__, n]\n'
               'class HM%d(HB%d):\n'
               '    def m(self, n):\n        r = [\'M.m\']\n%s        return r\n'
               '    @classmethod\n    def c(cls, n):\n        r = [\'M.c\']\n%s        return r\n'
               'class HL%d(HM%d):\n    pass\n'
               'class HLL%d(HL%d):\n    def other(self):\n        return 1\n') % (
            k, k, k, _indent(form.replace('{M}', 'm').replace('{SELF}', 'self'), 8),
            _indent(form.replace('{M}', 'c').replace('{SELF}', 'cls'), 8), k, k, k, k)
        drivers = []
        for j, (desc, expr) in enumerate(SUPER_DRIVERS):
            dn = 'sdrv%d_%d' % (k, j)
            drivers.append((desc, dn, 'def %s(n):\n    return %s\n' % (dn, expr.replace('{k}', str(k)))))
        out.append((k, fname, src, drivers))
    return out


def run_super_hier(tmpdir):
    """Each driver as plain Python vs malt.to_graph(driver) (recursive conversion reaches the methods)."""
    import malt
    progs = super_hier_programs()
    src = '\n'.join(p[2] + ''.join(d[2] for d in p[3]) for p in progs)
    path = os.path.join(tmpdir, 'c14_super_programs.py')
    with open(path, 'w') as f:
        f.write(src)
    spec = importlib.util.spec_from_file_location('c14_super_programs', path)
    mod = importlib.util.module_from_spec(spec)
    sys.modules['c14_super_programs'] = mod
    spec.loader.exec_module(mod)
    results = []
    old = sys.getrecursionlimit()
    sys.setrecursionlimit(400)      # a wrong class makes the method re-enter itself
    try:
        for k, fname, csrc, drivers in progs:
            for desc, dn, dsrc in drivers:
                for n in (0, 1, 3):
                    def call(f):
                        try:
                            return ('value', repr(f(n)))
                        except Exception as e:   # noqa
                            return ('raise', type(e).__name__, str(e)[:120])
                    orig = call(getattr(mod, dn))
                    try:
                        g = malt.to_graph(getattr(mod, dn))
                    except Exception as e:   # noqa
                        conv = ('raise-in-conversion', type(e).__name__, str(e)[:120])
                    else:
                        conv = call(g)
                    results.append((fname, desc, csrc + dsrc, dn, n, orig, conv))
    finally:
        sys.setrecursionlimit(old)
    return results


def run_super_direct(pb):
    """super_in_original_context(super, (), scope) called from real method frames vs native super()."""
    class Scope(object):
        name = 'fscope'

    class B(object):
        def m(self, n):
            return ['B.m', type(self).__name__, n]

        @classmethod
        def c(cls, n):
            return ['B.c', cls.__name__, n]

    class M(B):
        def m(self, n, native=False):
            fscope = Scope()    # noqa: the frame search looks for this local
            if native:
                return ['M.m'] + super().m(n)
            return ['M.m'] + pb.super_in_original_context(super, (), fscope).m(n)

        def mb(self, n, native=False):
            fscope = Scope()

            def loop_body():     # a generated body function: holds fscope (and __class__) as free variables
                return pb.super_in_original_context(super, (), fscope).m(n)
            if native:
                return ['M.mb'] + super().m(n)
            return ['M.mb'] + loop_body()

        @classmethod
        def c(cls, n, native=False):
            fscope = Scope()    # noqa
            if native:
                return ['M.c'] + super().c(n)
            return ['M.c'] + pb.super_in_original_context(super, (), fscope).c(n)

    class L(M):
        pass

    class LL(L):
        pass
    results = []
    old = sys.getrecursionlimit()
    sys.setrecursionlimit(300)
    try:
        for rdesc, recv in (('M()', M()), ('L()', L()), ('LL()', LL()), ('M', M), ('L', L)):
            for meth in ('m', 'mb', 'c'):
                if isinstance(recv, type) and meth != 'c':
                    continue

                def call(native):
                    try:
                        return ('value', repr(getattr(recv, meth)(2, native)))
                    except Exception as e:   # noqa
                        return ('raise', type(e).__name__, str(e)[:120])
                results.append((rdesc, meth, call(True), call(False)))
    finally:
        sys.setrecursionlimit(old)
    return results


# ----------------------------------------------------------------------------------------------
# property-level oracle + correspondence: the mapping handed out by globals() / locals()
# (Builtins/Namespaces.v).  A trace is a list of operations
#   ('call', h) | ('set', r, k, v) | ('del', r, k) | ('get', r, k) | ('getname', k) | ('setname', k, v)
#   | ('same', r1, r2) | ('isown', r)          r = ('var', h) | ('fresh',)
# rendered as a Python function that returns the list of observations.  The generator keeps the
# trace total under the semantics of the builtin (only handles already assigned, only names that are
# bound), so plain Python never raises; whatever the converted function does differently is a finding.
NS_G_INIT = [('NSV_a', 1), ('NSV_b', 2)]            # module level names present before the run
NS_G_KEYS = ['NSV_a', 'NSV_b', 'NSV_c', 'NSV_d']
NS_L_INIT = [('a', 1), ('b', 2)]                    # local variables of the rendered function
NS_L_KEYS = ['a', 'b', 'zz']                        # 'zz' is a key that is no variable
NS_WRAPPERS = [
    ('if', 'if n > 0:\n'),
    ('ifelse', "if n < 0:\n    obs.append('never')\nelse:\n"),
    ('for', 'for i in range(n):\n'),
    ('while', 'k = 0\nwhile k < n:\n    k = k + 1\n'),
]


def ns_trace(rnd, kind, length):
    """-> list of operations, total under the builtin's semantics (tracked here)."""
    keys = NS_G_KEYS if kind == 'globals' else NS_L_KEYS
    fast = dict(NS_L_INIT)
    own = dict(NS_G_INIT) if kind == 'globals' else {}
    bound = []
    ops = []
    val = [2]

    def fresh_val():
        val[0] += 1
        return val[0]

    def href():
        if bound and rnd.random() < 0.6:
            return ('var', rnd.choice(bound))
        if kind == 'locals':
            own.update(fast)
        return ('fresh',)
    menu = ['call'] * 3 + ['set'] * 5 + ['del'] * 1 + ['get'] * 4 + ['getname'] * 3 + ['setname'] * 2 + ['same'] * 2
    if kind == 'globals':
        menu += ['isown']
    while len(ops) < length:
        o = rnd.choice(menu) if ops else 'call' if rnd.random() < 0.5 else 'set'
        if o == 'call':
            h = rnd.randint(0, 1)
            if kind == 'locals':
                own.update(fast)
            if h not in bound:
                bound.append(h)
            ops.append(('call', h))
        elif o == 'set':
            r, k, v = href(), rnd.choice(keys), fresh_val()
            own[k] = v
            ops.append(('set', r, k, v))
        elif o == 'del':
            r, k = href(), rnd.choice(keys)
            own.pop(k, None)
            ops.append(('del', r, k))
        elif o == 'get':
            ops.append(('get', href(), rnd.choice(keys)))
        elif o == 'getname':
            cands = sorted(own) if kind == 'globals' else sorted(fast)
            cands = [k for k in cands if k in keys]
            if cands:
                ops.append(('getname', rnd.choice(cands)))
        elif o == 'setname':
            k, v = rnd.choice(keys if kind == 'globals' else sorted(fast)), fresh_val()
            (own if kind == 'globals' else fast)[k] = v
            ops.append(('setname', k, v))
        elif o == 'same':
            r1 = href()
            ops.append(('same', r1, href()))
        else:
            ops.append(('isown', href()))
    return ops


F, V0, V1 = ('fresh',), ('var', 0), ('var', 1)
# always run, whatever the seed: the shortest trace of every way a result that is not the frame's own
# mapping can be told from it
NS_CORE = [
    ('globals', [('set', F, 'NSV_c', 7), ('getname', 'NSV_c')]),                          # register, read the name
    ('globals', [('set', F, 'NSV_a', 7), ('get', F, 'NSV_a')]),                           # ... read through a second call
    ('globals', [('call', 0), ('set', V0, 'NSV_c', 3), ('set', V0, 'NSV_c', 4), ('getname', 'NSV_c')]),
    ('globals', [('call', 0), ('setname', 'NSV_a', 5), ('get', V0, 'NSV_a')]),            # name assigned after the call
    ('globals', [('del', F, 'NSV_a'), ('get', F, 'NSV_a')]),
    ('globals', [('same', F, F)]),
    ('globals', [('isown', F)]),
    ('globals', [('call', 0), ('call', 1), ('set', V0, 'NSV_d', 9), ('get', V1, 'NSV_d'), ('same', V0, V1)]),
    ('locals', [('call', 0), ('setname', 'a', 5), ('call', 1), ('get', V0, 'a')]),        # refreshed by the second call
    ('locals', [('set', F, 'zz', 6), ('get', F, 'zz')]),
    ('locals', [('same', F, F)]),
    ('locals', [('call', 0), ('setname', 'b', 4), ('get', V0, 'b'), ('get', F, 'b'), ('get', V0, 'b')]),
]


def _ns_stmt(kind, o, rnd):
    call = kind + '()'
    hv = 'g' if kind == 'globals' else 'd'

    def R(r):
        return '%s%d' % (hv, r[1]) if r[0] == 'var' else call
    if o[0] == 'call':
        return '%s%d = %s' % (hv, o[1], call)
    if o[0] == 'set':
        form = rnd.choice(['%s[%r] = %d', '%s.update({%r: %d})', '%s.__setitem__(%r, %d)'])
        return form % (R(o[1]), o[2], o[3])
    if o[0] == 'del':
        return '%s.pop(%r, None)' % (R(o[1]), o[2])
    if o[0] == 'get':
        return 'obs.append(%s.get(%r))' % (R(o[1]), o[2])
    if o[0] == 'getname':
        return 'obs.append(%s)' % o[1]
    if o[0] == 'setname':
        return '%s = %d' % (o[1], o[2])
    if o[0] == 'same':
        return 'obs.append(%s is %s)' % (R(o[1]), R(o[2]))
    return 'obs.append(%s is OWN_NS)' % R(o[1])


def ns_programs(rnd, n_globals, n_locals):
    """-> [(name, kind, ops, source, meta)].  globals(): the operations are grouped in chunks, each chunk
    under 0..2 functionalised wrappers that execute their body exactly once for n = 1 (so the trace is
    still the straight-line one); locals(): function body only (inside a functionalised body the frame
    found is the body function's: known finding C14-ctx-builtin-in-functionalised-body)."""
    progs = []
    traces = []
    for kind, ops in NS_CORE:
        traces += [(kind, ops, d) for d in ((0, 1, 2) if kind == 'globals' else (0,))]
    for idx in range(n_globals + n_locals):
        kind = 'globals' if idx < n_globals else 'locals'
        traces.append((kind, ns_trace(rnd, kind, rnd.randint(2, 4) if idx % 3 == 0 else rnd.randint(4, 9)), idx % 3))
    for idx, (kind, ops, maxdepth) in enumerate(traces):
        core = idx < len(traces) - n_globals - n_locals
        name = 'ns%d' % idx
        body = ''
        depths = []
        i = 0
        if kind == 'locals':
            maxdepth = 0
        while i < len(ops):
            j = min(len(ops), i + rnd.randint(1, 3))
            chunk = ops[i:j]
            # core traces: every chunk at exactly the given depth; seeded ones: 0..maxdepth
            wr = [rnd.choice(NS_WRAPPERS) for _ in range(maxdepth if core else rnd.randint(0, maxdepth))]
            text = ''.join(_ns_stmt(kind, o, rnd) + '\n' for o in chunk)
            for wn, hdr in reversed(wr):
                text = hdr + _indent(text, 4)
            body += text
            depths.append(len(wr))
            i = j
        assigned = sorted(set(o[1] for o in ops if o[0] == 'setname'))
        src = 'def %s(n):\n' % name
        if kind == 'globals':
            if assigned:
                src += '    global %s\n' % ', '.join(assigned)
            src += '    g0 = None\n    g1 = None\n'
        else:
            src += ''.join('    %s = %d\n' % kv for kv in NS_L_INIT) + '    d0 = None\n    d1 = None\n'
        src += '    obs = []\n    k = 0\n' + _indent(body, 4) + '    return obs\n'
        progs.append((name, kind, ops, src, {'depth': max(depths), 'use': kind + '-mapping',
                                             'writes': any(o[0] in ('set', 'del') for o in ops)}))
    return progs


def _coq_href(r):
    return '(HVar %d)' % r[1] if r[0] == 'var' else 'HFresh'


def coq_ns_op(o):
    if o[0] == 'call':
        return 'OCall %d' % o[1]
    if o[0] == 'set':
        return 'OSet %s %s %d' % (_coq_href(o[1]), vlib.coq_str(o[2]), o[3])
    if o[0] == 'del':
        return 'ODel %s %s' % (_coq_href(o[1]), vlib.coq_str(o[2]))
    if o[0] == 'get':
        return 'OGet %s %s' % (_coq_href(o[1]), vlib.coq_str(o[2]))
    if o[0] == 'getname':
        return 'OGetName %s' % vlib.coq_str(o[1])
    if o[0] == 'setname':
        return 'OSetName %s %d' % (vlib.coq_str(o[1]), o[2])
    if o[0] == 'same':
        return 'OSame %s %s' % (_coq_href(o[1]), _coq_href(o[2]))
    return 'OIsOwn %s' % _coq_href(o[1])


def coq_ns_obs(outcome):
    """outcome of a rendered program -> Gallina `option (list obs)` (None: raised / not a list of observations)."""
    if outcome[0] != 'value' or type(outcome[1]) is not list:
        return 'None'
    out = []
    for x in outcome[1]:
        if x is None:
            out.append('BVal None')
        elif type(x) is bool:
            out.append('BBool %s' % vlib.coq_bool(x))
        elif type(x) is int and 0 <= x < 1000:
            out.append('BVal (Some %d)' % x)
        else:
            return 'None'
    return 'Some [%s]' % '; '.join(out)


def coq_ns_case(i, kind, ops, outcome):
    f = NS_L_INIT if kind == 'locals' else []
    o = NS_G_INIT if kind == 'globals' else []
    return '(%d, %s, %s, %s, [%s], %s)' % (i, vlib.coq_str(kind), coq_kws(f), coq_kws(o),
                                           '; '.join(coq_ns_op(x) for x in ops), coq_ns_obs(outcome))


def _module_delta(mod, before):
    d = mod.__dict__
    delta = sorted([(k, repr(d[k])[:60]) for k in d if k not in before or d[k] is not before[k]]
                   + [(k, '<deleted>') for k in before if k not in d])
    for k in list(d):
        if k not in before:
            del d[k]
    d.update(before)
    return delta


def run_ns(progs, tmpdir):
    """Each rendered program as plain Python and converted; observed: the outcome (list of observations or
    exception type) and what the run changed in the module namespace (restored after every run).
    -> [(name, kind, ops, source, meta, (plain outcome, delta), (converted outcome, delta))]"""
    import malt
    src = ''.join('%s = %d\n' % kv for kv in NS_G_INIT) + 'OWN_NS = globals()\n' + '\n'.join(p[3] for p in progs)
    path = os.path.join(tmpdir, 'c14_ns_programs.py')
    with open(path, 'w') as f:
        f.write(src)
    spec = importlib.util.spec_from_file_location('c14_ns_programs', path)
    mod = importlib.util.module_from_spec(spec)
    sys.modules['c14_ns_programs'] = mod
    spec.loader.exec_module(mod)
    results = []
    for name, kind, ops, psrc, meta in progs:
        def call(fn_of):
            before = dict(mod.__dict__)
            try:
                out = ('value', fn_of(getattr(mod, name))(1))
            except Exception as e:   # noqa
                out = ('raise', type(e).__name__, str(e)[:200])
            return out, _module_delta(mod, before)
        orig = call(lambda f: f)
        conv = call(lambda f: malt.to_graph(f))
        results.append((name, kind, ops, psrc, meta, orig, conv))
    return results


def run_ns_direct(pb):
    """globals_in_original_context / locals_in_original_context called from real frames (the function
    that holds the scope object, and a nested body function that has it as a free variable) against
    the native builtin called at the same place: identity of results, writes through the result,
    refresh.  -> [(description, native observation, direct observation)]"""
    class Scope(object):
        name = 'fscope'
    key = 'C14_NS_DIRECT_PROBE'
    results = []

    def obs_globals(get):
        g1 = get()
        g1[key] = 41
        seen = globals().get(key)               # the module namespace of this driver, natively
        g2 = get()
        again = g2.get(key)
        g2.pop(key, None)
        gone = key not in globals()
        globals().pop(key, None)
        return ('same object on two calls', g1 is g2, 'is the module dict', g1 is globals(),
                'write visible in the module', seen, 'write visible through a second result', again, 'deletion visible', gone)

    def in_function(native):
        fscope = Scope()
        return obs_globals(globals if native else (lambda: pb.globals_in_original_context(fscope)))

    def in_body_function(native):
        fscope = Scope()

        def loop_body():
            return obs_globals(globals if native else (lambda: pb.globals_in_original_context(fscope)))
        return loop_body()

    def locals_in_function(native):
        fscope = Scope()    # noqa
        a = 1
        d1 = locals() if native else pb.locals_in_original_context(fscope)
        first = d1.get('a')
        d1['zz'] = 5
        a = 2
        d2 = locals() if native else pb.locals_in_original_context(fscope)
        return ('same object on two calls', d1 is d2, 'value at the first call', first, 'first result after the second call',
                d1.get('a'), 'key written through the first result, read through the second', d2.get('zz'), a)
    for desc, f in (('globals() in the function holding the scope object', in_function),
                    ('globals() in a nested body function (scope object is a free variable)', in_body_function),
                    ('locals() in the function holding the scope object', locals_in_function)):
        def call(native):
            try:
                return ('value', repr(f(native)))
            except Exception as e:   # noqa
                return ('raise', type(e).__name__, str(e)[:120])
        results.append((desc, call(True), call(False)))
    return results


# ----------------------------------------------------------------------------------------------
# builtins reached through functools.partial
def _vrepr(v):
    if callable(v) and getattr(v, '__name__', '<lambda>') != '<lambda>':
        return v.__name__
    if callable(v):
        return 'lambda a, b: a + b'
    return repr(v)


def _callrepr(a, k):
    return ', '.join([_vrepr(x) for x in a] + ['%s=%s' % (n, _vrepr(v)) for n, v in k.items()])


def _add2(a, b):
    return a + b


PARTIAL_POOL = {
    'sorted': ([([3, -1, 2],), (['b', 'A', 'c'],)], {'reverse': [True, False, 0, 1], 'key': [abs, None, str]}),
    'int': ([('101',), ('101', 2), ('7',)], {'base': [2, 10, 8]}),
    'enumerate': ([(['a', 'b'],), (['a', 'b'], 5)], {'start': [10, 1, 0]}),
    'zip': ([([1, 2], [3]), ([1, 2], [3, 4], [5, 6]), ()], {'strict': [True, False]}),
    'print': ([('x', 1), (), ('a', 'b', 'c')], {'sep': ['-', '+', None], 'end': ['', '!\n'], 'flush': [True, False]}),
    'map': ([(str, [1, 2]), (_add2, [1, 2], [3, 4])], {}),
    'filter': ([(None, [0, 1, 2])], {}),
    'range': ([(1,), (1, 5), (1, 10, 3)], {}),
    'abs': ([(-3,)], {}), 'len': ([([1, 2],)], {}), 'all': ([([1, 0],)], {}), 'any': ([([0, 1],)], {}),
    'float': ([('1.5',), ()], {}),
}


def partial_inputs(rnd, per_shape):
    """-> [(builtin, description, make() -> (partial object, call args, call kwargs))]
    One or two levels of functools.partial binding leading positionals and keywords; the call site
    repeats bound keywords with other values (Python: the call site wins)."""
    import functools
    import builtins as B
    out = []
    for b in BUILTINS:
        argsets, kwpool = PARTIAL_POOL[b]
        real = getattr(B, b)
        names = sorted(kwpool)
        for args in argsets:
            if b == 'int' and len(args) == 2:
                knames = []
            elif b == 'enumerate' and len(args) == 2:
                knames = []
            else:
                knames = names
            for j in range(len(args) + 1):
                draws = []
                # forced: every keyword bound in the partial and repeated at the call site with another value
                for n in knames:
                    v1, v2 = kwpool[n][0], kwpool[n][1]
                    draws.append(({n: v1}, {n: v2}))
                    draws.append(({n: v2}, {n: v1}))
                    draws.append(({n: v1}, {}))
                if len(knames) >= 2:
                    draws.append(({n: kwpool[n][0] for n in knames}, {n: kwpool[n][1] for n in knames}))
                    draws.append(({n: kwpool[n][0] for n in knames}, {knames[-1]: kwpool[knames[-1]][1]}))
                draws.append(({}, {}))
                for _ in range(per_shape):
                    pk = {n: rnd.choice(kwpool[n]) for n in knames if rnd.random() < 0.6}
                    ck = {n: rnd.choice(kwpool[n]) for n in knames if rnd.random() < 0.6}
                    draws.append((pk, ck))
                for pk, ck in draws:
                    pa, ca = args[:j], args[j:]
                    levels = 1 if rnd.random() < 0.6 else 2
                    if levels == 1:
                        desc = 'partial(%s)(%s)' % (_callrepr((real,) + pa, pk), _callrepr(ca, ck))

                        def make(real=real, pa=pa, pk=pk, ca=ca, ck=ck):
                            return functools.partial(real, *pa, **pk), ca, dict(ck)
                    else:
                        i = rnd.randint(0, len(pa))
                        pk1 = {n: rnd.choice(kwpool[n]) for n in pk if rnd.random() < 0.7}
                        desc = 'partial(partial(%s), %s)(%s)' % (_callrepr((real,) + pa[:i], pk1), _callrepr(pa[i:], pk),
                                                                _callrepr(ca, ck))

                        def make(real=real, pa=pa, pk=pk, ca=ca, ck=ck, i=i, pk1=pk1):
                            return functools.partial(functools.partial(real, *pa[:i], **pk1), *pa[i:], **pk), ca, dict(ck)
                    out.append((b, desc, make))
    return out


def partial_merge_cases(api, rnd, n):
    """What reaches the function: CPython's functools.partial vs converted_call's partial branch
    (the function is an autograph artifact that records its arguments)."""
    import functools
    from malt.core import converter
    got = []

    def rec(*a, **k):
        got.append((list(a), list(k.items())))
    api.autograph_artifact(rec)
    opts = converter.ConversionOptions(recursive=True)
    names = ['a', 'b', 'c', 'd']
    out = []
    for idx in range(n):
        pa = [rnd.randint(1, 9) for _ in range(rnd.randint(0, 2))]
        ca = [rnd.randint(10, 19) for _ in range(rnd.randint(0, 2))]
        pk = [(k, rnd.randint(20, 29)) for k in rnd.sample(names, rnd.randint(0, 3))]
        ck = [(k, rnd.randint(30, 39)) for k in rnd.sample(names, rnd.randint(0, 3))]
        p = functools.partial(rec, *pa, **dict(pk))
        del got[:]
        p(*ca, **dict(ck))
        py = got[-1]
        del got[:]
        try:
            api.converted_call(p, tuple(ca), dict(ck) if (ck or rnd.random() < 0.5) else None, options=opts)
            impl = got[-1]
        except Exception as e:   # noqa
            impl = ([0], [('raised-' + type(e).__name__, 0)])
        out.append((pa, pk, ca, ck, py, impl))
    return out


# ----------------------------------------------------------------------------------------------
def check(run):
    thorough = run.tier == 'thorough'
    rnd = random.Random(run.seed)
    tmp = vlib.ensure_dir(os.path.join(vlib.BUILD, 'tmp', str(os.getpid())))
    old_tmp = os.environ.get('TMPDIR')
    os.environ['TMPDIR'] = tmp
    import tempfile
    tempfile.tempdir = tmp
    try:
        _check(run, rnd, thorough, tmp)
    finally:
        if old_tmp is None:
            os.environ.pop('TMPDIR', None)
        else:
            os.environ['TMPDIR'] = old_tmp
        tempfile.tempdir = None
        shutil.rmtree(tmp, ignore_errors=True)


def _check(run, rnd, thorough, tmp):
    run.rule = ('call shapes: every builtin x 0..npos+2 positional tokens x every ordered list of <=2 keywords from '
                '(documented names + overload parameter names + a bogus name), truth-tested keywords with all three truth '
                'behaviours, 5 registry configurations; values: seeded products over ints/floats/bools/strings/bytes/lists/'
                'tuples/dicts/sets/iterators/generators/logged iterables/user objects with dunders; context builtins: every '
                'nesting (depth<=2) of for/while/if/if-else around 8 uses of eval/locals/globals + recursion + super in methods; '
                'globals()/locals() mapping traces: seeded sequences of 2-9 operations (call into a variable, write / delete / read through a held or in-place result, read / assign the name itself, identity of two results, identity with the module dict), globals() chunks under 0-2 functionalised wrappers, observed = list of observations + changes left in the module, judged against plain Python and against Namespaces.v; the two *_in_original_context functions on real frames; '
                'builtins behind 1-2 levels of functools.partial binding leading positionals and keywords, the call site repeating bound keywords with '
                'other values, direct Python call vs converted_call vs converted driver; three-level hierarchies Base<-Middle(zero-arg super)<-Leaf[<-Leaf2] x 7 placements '
                '(function body, guarded, for, while, loop+branch, branch+loop, lambda) x instance/class methods x receivers of the defining and '
                'inheriting classes, through to_graph(driver) and directly through super_in_original_context on real frames; '
                'distinct non-trivial = distinct (builtin, observed behaviour) pairs')
    # 1. regenerate
    tie_msg = None
    try:
        generate()
    except c14_builtins.Untranslatable as e:
        tie_msg = str(e)
        run.note(tie_msg)
    # 2. proofs
    if tie_msg is None:
        vlib.standard_proof_step(run, ['Builtins/BuiltinsCheck.vo', 'Builtins/Frames.vo', 'Builtins/Partial.vo', 'Builtins/Namespaces.vo'])

    from malt.operators import py_builtins as pb
    from malt.impl import api
    from malt.core import converter
    import builtins as B
    failures = []      # (title, replay dict, classify id or None)

    nonempty = [n for n, v in vars(pb).items() if n.endswith('_registry') and getattr(v, '_registry', None)]
    if nonempty:
        run.note('type registries are not empty at import: %s' % nonempty)

    # 3. correspondence ------------------------------------------------------------------------
    corr_bad = []
    ocases = overload_cases(pb, rnd, thorough)
    oterms = []
    for i, (b, args, kws, spec) in enumerate(ocases):
        res = observe_overload(pb, b, args, kws, spec)
        run.count()
        run.nontriv(('overload', b, re.sub(r'\d+', '#', res)))
        oterms.append('(%d, %s, [%s], %s, [%s], %s)' % (
            i, vlib.coq_str(b), '; '.join(map(str, args)), coq_kws(kws),
            '; '.join('(%s, %d, %d)' % (vlib.coq_str(r), c, o) for r, c, o in spec), res))
    bcases = bind_cases(rnd, 120 if thorough else 50)
    bterms = ['(%d, %s, [%s], %s, %s)' % (i, s, '; '.join(map(str, a)), coq_kws(k), e) for i, (s, a, k, e, _) in enumerate(bcases)]
    dcases = doc_cases(rnd)
    dterms = ['(%d, %s, [%s], %s, %s)' % (i, vlib.coq_str(b), '; '.join(map(str, a)), coq_kws(k), vlib.coq_bool(acc))
              for i, (b, a, k, acc) in enumerate(dcases)]
    fcases = frame_cases(pb, rnd, 600 if thorough else 200)
    fterms = ['(%d, %s, [%s], %s, %s)' % (i, vlib.coq_str(nm), '; '.join(fr), vlib.coq_bool(inner),
                                          'None' if got is None else 'Some %d' % got)
              for i, (nm, fr, inner, got, _) in enumerate(fcases)]
    pcases = partial_merge_cases(api, rnd, 400 if thorough else 150)
    pterms = ['(%d, [%s], %s, [%s], %s, ([%s], %s), ([%s], %s))' % (
        i, '; '.join(map(str, pa)), coq_kws(pk), '; '.join(map(str, ca)), coq_kws(ck),
        '; '.join(map(str, py[0])), coq_kws(py[1]), '; '.join(map(str, im[0])), coq_kws(im[1]))
        for i, (pa, pk, ca, ck, py, im) in enumerate(pcases)]
    run.count(len(bcases) + len(dcases) + len(fcases) + len(pcases))
    # traces over the mapping handed out by globals() / locals(): rendered programs, plain and converted
    nsprogs = ns_programs(rnd, 150 if thorough else 60, 80 if thorough else 30)
    try:
        nsres = run_ns(nsprogs, tmp)
    except Exception as e:   # noqa
        import traceback
        nsres = []
        failures.append(('namespace-mapping oracle crashed: %s' % e, {'traceback': traceback.format_exc()[-2000:]}, None))
    ns_impl_terms = [coq_ns_case(i, r[1], r[2], r[6][0]) for i, r in enumerate(nsres)]
    ns_py_terms = [coq_ns_case(i, r[1], r[2], r[5][0]) for i, r in enumerate(nsres)]
    nonconf = None
    if True:
        hdr0 = ['From Coq Require Import List String Bool.', 'Import ListNotations.',
                'Require Import MV.Builtins.Binding MV.Builtins.Overload MV.Builtins.DocSigs MV.Builtins.BuiltinsCheck '
                'MV.Builtins.Frames.', 'Local Open Scope string_scope.']
        hdr = hdr0 + ['Require Import MV.Generated.C14_gen.']
        jobs = []
        if tie_msg is None:
            for s in range(0, len(oterms), 400):
                jobs.append(('ov%d' % (s // 400), hdr + ['Definition cases : list case := [', ';\n'.join(oterms[s:s + 400]), '].',
                                                         'Eval vm_compute in failing table_gen cases.'], 'overload', ocases[s:s + 400]))
            jobs.append(('partial', hdr + ['Require Import MV.Builtins.Partial.', 'Definition cases : list pcase := [', ';\n'.join(pterms), '].',
                                           'Eval vm_compute in failing_p partial_kw_layers_gen partial_arg_order_gen cases.'], 'partial', pcases))
            jobs.append(('nonconf', hdr + ['Eval vm_compute in map (fun p => (fst p, List.length (snd p))) (nonconforming table_gen).',
                                           'Eval vm_compute in nonconforming table_gen.'], 'nonconf', None))
        else:
            vlib.coq_make(['Builtins/BuiltinsCheck.vo', 'Builtins/Frames.vo', 'Builtins/Partial.vo', 'Builtins/Namespaces.vo'])
        hdr_ns = ['From Coq Require Import List String Bool.', 'Import ListNotations.', 'Require Import MV.Builtins.Namespaces.',
                  'Local Open Scope string_scope.']
        if nsres:
            if tie_msg is None:
                jobs.append(('ns_impl', hdr_ns + ['Require Import MV.Generated.C14_gen.', 'Definition cases : list nscase := [',
                                                  ';\n'.join(ns_impl_terms), '].', 'Eval vm_compute in failing_ns ctx_ns_gen cases.'],
                             'ns-impl', nsres))
            # the semantics of the builtin itself (spec_run = run Live, by live_is_the_builtin) against plain CPython
            jobs.append(('ns_py', hdr_ns + ['Definition cases : list nscase := [', ';\n'.join(ns_py_terms), '].',
                                            'Eval vm_compute in failing_ns [("globals", Live); ("locals", Live)] cases.'],
                         'ns-python', nsres))
        jobs.append(('bind', hdr0 + ['Definition cases : list bcase := [', ';\n'.join(bterms), '].',
                                     'Eval vm_compute in failing_b cases.'], 'bind', bcases))
        jobs.append(('doc', hdr0 + ['Definition cases : list dcase := [', ';\n'.join(dterms), '].',
                                    'Eval vm_compute in failing_d cases.'], 'docsig', dcases))
        jobs.append(('frames', hdr0 + ['Definition cases : list fcase := [', ';\n'.join(fterms), '].',
                                       'Eval vm_compute in failing_f cases.'], 'frames', fcases))
        from concurrent.futures import ThreadPoolExecutor
        with ThreadPoolExecutor(max_workers=6) as ex:
            outs = list(ex.map(lambda j: vlib.coq_eval(PID, j[0], '\n'.join(j[1]), timeout=300), jobs))
        validated = 0
        for (name, _, kind, cs), (rc, out) in zip(jobs, outs):
            if kind == 'nonconf':
                if rc != 0:
                    corr_bad.append('evaluation of `nonconforming` failed: ' + out[-400:])
                else:
                    nonconf = parse_nonconf(out)
                continue
            bad = vlib.parse_coq_list_of_nat(out) if rc == 0 else None
            if bad is None:
                corr_bad.append('model evaluation failed (%s): %s' % (name, out[-600:]))
                continue
            validated += len(cs)
            for i in bad[:5]:
                c = ocases[i] if kind == 'overload' else cs[i]
                if kind == 'overload':
                    corr_bad.append('overload model disagrees with the implementation on %s(*%r, **%r) registries=%r: implementation did %s'
                                    % (c[0], c[1], dict(c[2]), c[3], observe_overload(pb, c[0], c[1], c[2], c[3])))
                elif kind == 'bind':
                    corr_bad.append('Binding.bind disagrees with CPython on %s called with %r %r: CPython gives %s' % (
                        c[4].split('\n')[0], c[1], c[2], c[3]))
                elif kind == 'partial':
                    corr_bad.append('partial merge: partial(rec, *%r, **%r)(*%r, **%r): CPython passes %r, converted_call passes %r, '
                                    'model (Partial.v) disagrees with one of them' % (c[0], dict(c[1]), c[2], dict(c[3]), c[4], c[5]))
                elif kind in ('ns-impl', 'ns-python'):
                    corr_bad.append('Namespaces.v (%s) disagrees with %s on the trace of\n%s: observed %r' % (
                        'run <handout of ctx_ns_gen>' if kind == 'ns-impl' else 'semantics of the builtin, spec_run',
                        'the converted program' if kind == 'ns-impl' else 'plain CPython', c[3], (c[6] if kind == 'ns-impl' else c[5])[0]))
                elif kind == 'docsig':
                    corr_bad.append('documented signature of %s disagrees with the real builtin on shape args=%d kws=%r: builtin accepts=%r'
                                    % (c[0], len(c[1]), [k for k, _ in c[2]], c[3]))
                else:
                    corr_bad.append('Frames.find_frame disagrees with _find_originating_frame on stack %s (innermost first, own frame '
                                    'excluded) name=%s innermost=%r: implementation returned frame %r' % (c[4], c[0], c[2], c[3]))
        run.extra['traces_validated_against_impl'] = validated
        run.extra['overload_shape_cases'] = len(ocases)
        run.extra['nonconforming'] = nonconf

    # nonconforming builtins -> run the refuting shapes on the real overload with real values
    # (done by the value oracle below: its inputs cover every documented keyword spelling)

    # 4a. value oracle -------------------------------------------------------------------------
    inputs = value_inputs(rnd, 120 if thorough else 15)
    opts = converter.ConversionOptions(recursive=True)
    seen_fail = set()
    per_builtin = {}
    for b, desc, fac in inputs:
        real = getattr(B, b)
        want = run_value(real, fac)
        got1 = run_value(lambda *a, **k: pb.overload_of(real)(*a, **k), fac)
        got2 = run_value(lambda *a, **k: api.converted_call(real, a, k if k else None, options=opts), fac)
        run.count(2)
        run.nontriv(('value', b, want[0] if want[0] == 'raise' else want[-1][0], want[1] if want[0] == 'raise' else ''))
        per_builtin[b] = per_builtin.get(b, 0) + 1
        for how, got in (('py_builtins.overload_of(%s)' % b, got1), ('api.converted_call(%s, args, kwargs)' % b, got2)):
            if got == want:
                continue
            # both raise the same type with different partial output is still a difference; keep strict
            args, kw = fac([])
            classify = None
            if b == 'enumerate' and 'iterable' in kw and got[0] == 'raise' and got[1] == 'TypeError' and want[0] != 'raise':
                classify = KF_ENUM
            key = (b, how.split('(')[0], classify, want[0] == 'raise', got[0], got[1] if got[0] == 'raise' else '')
            if key in seen_fail:
                continue
            seen_fail.add(key)
            failures.append(('%s differs from the builtin on %s' % (how, desc),
                             {'call': desc, 'via': how, 'builtin_observation': repr(want), 'overload_observation': repr(got),
                              'replay': 'PYTHONPATH=/repo /venv/bin/python -c "from malt.operators import py_builtins as p; '
                                        'print(p.overload_of(%s)(...))"  # arguments as in `call`' % b}, classify))
    run.extra['value_cases_per_builtin'] = per_builtin
    if len(inputs) > 0:
        run.sample({'call': inputs[0][1]})
        run.sample({'call': inputs[len(inputs) // 2][1]})
        run.sample({'call': inputs[-1][1]})

    # 4a'. builtins reached through functools.partial: direct Python call vs converted_call vs converted driver
    pin = partial_inputs(rnd, 6 if thorough else 2)
    conv_drv = None
    try:
        import malt
        dpath = os.path.join(tmp, 'c14_partial_driver.py')
        with open(dpath, 'w') as fh:
            fh.write('def pdrv(p, a, k):\n    return p(*a, **k)\n')
        dspec = importlib.util.spec_from_file_location('c14_partial_driver', dpath)
        dmod = importlib.util.module_from_spec(dspec)
        sys.modules['c14_partial_driver'] = dmod
        dspec.loader.exec_module(dmod)
        conv_drv = malt.to_graph(dmod.pdrv)
    except Exception as e:   # noqa
        failures.append(('conversion of the partial driver failed: %s: %s' % (type(e).__name__, e), {'driver': 'def pdrv(p, a, k): return p(*a, **k)'}, None))
    pgroups = {}
    for b, desc, make in pin:
        def fac_of(route):
            def f(*a, **k):
                p_, ca, ck = make()
                if route == 'python':
                    return p_(*ca, **ck)
                if route == 'converted_call':
                    return api.converted_call(p_, tuple(ca), ck if ck else None, options=opts)
                return conv_drv(p_, tuple(ca), ck)
            return f
        nofac = lambda L: ((), {})   # noqa
        want = run_value(fac_of('python'), nofac)
        routes = [('api.converted_call(p, args, kwargs)', 'converted_call')]
        if conv_drv is not None:
            routes.append(('malt.to_graph(lambda p, a, k: p(*a, **k))', 'driver'))
        run.nontriv(('partial', b, want[0] if want[0] == 'raise' else want[-1][0], desc.count('partial(')))
        for how, route in routes:
            got = run_value(fac_of(route), nofac)
            run.count()
            if got != want:
                pgroups.setdefault(route, []).append((b, desc, how, want, got))
    for route, fl in sorted(pgroups.items()):
        b, desc, how, want, got = fl[0]
        failures.append(('%s reached through functools.partial via %s differs from the direct Python call on p = %s' % (b, how, desc),
                         {'call': desc, 'via': how, 'python_observation': repr(want), 'converted_observation': repr(got),
                          'also_failing': [f[1] for f in fl[1:40]],
                          'replay': 'PYTHONPATH=/repo /venv/bin/python -c "from functools import partial; from malt.impl import api; '
                                    'from malt.core import converter; p = <partial part of `call`>; print(p(<call part>), '
                                    'api.converted_call(p, (<args>), {<kwargs>}, options=converter.ConversionOptions(recursive=True)))"'}, None))
    run.extra['partial_cases'] = len(pin)

    # 4b. context builtins -----------------------------------------------------------------------
    progs = ctx_programs(rnd, 0)
    try:
        res = run_ctx(progs, tmp)
    except Exception as e:   # noqa
        import traceback
        res = []
        failures.append(('context-builtin oracle crashed: %s' % e, {'traceback': traceback.format_exc()[-2000:]}, None))
    seen = set()
    for name, psrc, n, meta, orig, conv in res:
        run.count()
        run.nontriv(('ctx', meta['use'], meta['depth'], tuple(meta['wrappers']), orig[0], conv[0]))
        if orig[:2] == conv[:2]:
            continue
        key = (meta['use'], tuple(meta['wrappers']))
        if key in seen:
            continue
        seen.add(key)
        classify = KF_CTX if ctx_known(meta, orig, conv) else None
        failures.append(('converted function calling %s at depth %d (%s) differs from the original' % (
            meta['use'], meta['depth'], '/'.join(meta['wrappers']) or 'function body'),
            {'program': psrc, 'argument': n, 'original': orig, 'converted': conv,
             'replay': 'PYTHONPATH=/repo /venv/bin/python: import malt; malt.to_graph(<function of `program`>)(%d)' % n}, classify))
    if res:
        run.sample({'program': res[len(res) // 3][1], 'argument': res[len(res) // 3][2]})

    # 4b'. the mapping handed out by globals() / locals(): writes through it, identity, refresh --------
    nsgroups = {}
    for name, kind, ops, psrc, meta, orig, conv in nsres:
        run.count()
        run.nontriv(('ns', kind, meta['depth'], tuple(sorted(set(o[0] for o in ops))), orig[0][0], conv[0][0]))
        if orig != conv:
            nsgroups.setdefault((kind, 'function body' if meta['depth'] == 0 else 'functionalised loop/branch bodies'), []).append(
                ((0 if meta['writes'] else 1, len(ops)), name, ops, psrc, orig, conv))
    for (kind, where), fl in sorted(nsgroups.items()):
        fl.sort(key=lambda f: (f[0], f[1]))
        nops, name, ops, psrc, orig, conv = fl[0]
        failures.append(('converted function that uses the mapping returned by %s() (writes through it / reads back / identity; %s) '
                         'differs from the original' % (kind, where),
                         {'program': psrc, 'argument': 1, 'module_prelude': ''.join('%s = %d\n' % kv for kv in NS_G_INIT) + 'OWN_NS = globals()\n',
                          'trace': [list(map(str, o)) for o in ops],
                          'original': {'outcome': repr(orig[0]), 'changes_left_in_module': orig[1]},
                          'converted': {'outcome': repr(conv[0]), 'changes_left_in_module': conv[1]},
                          'also_failing': len(fl) - 1,
                          'replay': 'save module_prelude + program as a module m, then PYTHONPATH=/repo /venv/bin/python -c '
                                    '"import malt, m; print(m.%s(1)); print(malt.to_graph(m.%s)(1))"  (restore the module globals in between)'
                                    % (name, name)}, None))
    try:
        ndres = run_ns_direct(pb)
    except Exception as e:   # noqa
        import traceback
        ndres = []
        failures.append(('namespace direct oracle crashed: %s' % e, {'traceback': traceback.format_exc()[-2000:]}, None))
    for desc, native, direct in ndres:
        run.count()
        run.nontriv(('ns-direct', desc, native[0], direct[0]))
    ndbad = [d for d in ndres if d[1] != d[2]]
    if ndbad:
        desc, native, direct = ndbad[0]
        failures.append(('py_builtins.%s_in_original_context(fscope) does not hand out what the native builtin does: %s' % (
            desc.split('(')[0], desc),
            {'where': desc + '  (tools/props/c14.py run_ns_direct; fscope is a local whose .name is "fscope")',
             'native_builtin': native, 'in_original_context': direct, 'also_failing': [d[0] for d in ndbad[1:]]}, None))
    run.extra['namespace_trace_programs'] = len(nsres)
    if nsres:
        run.sample({'program': nsres[len(nsres) // 2][3], 'argument': 1})

    # 4c. zero-argument super() and the defining class -----------------------------------------------
    try:
        sres = run_super_hier(tmp)
        dres = run_super_direct(pb)
    except Exception as e:   # noqa
        import traceback
        sres, dres = [], []
        failures.append(('super() hierarchy oracle crashed: %s' % e, {'traceback': traceback.format_exc()[-2000:]}, None))
    groups = {}
    for fname, desc, psrc, dn, n, orig, conv in sres:
        run.count()
        run.nontriv(('super-hier', fname, desc, orig[0], conv[0]))
        if orig[:2] != conv[:2]:
            groups.setdefault('classmethod' if desc.startswith('classmethod') else 'instance method', []).append(
                (fname, desc, psrc, dn, n, orig, conv))
    for kind, fl in sorted(groups.items()):
        fname, desc, psrc, dn, n, orig, conv = fl[0]
        failures.append(('zero-argument super() (%s) in a converted %s: converted driver differs from plain Python' % (fname, desc),
                         {'program': psrc, 'call': 'malt.to_graph(%s)(%d)  vs  %s(%d)' % (dn, n, dn, n), 'python': orig, 'converted': conv,
                          'replay': 'save `program` as a module, then PYTHONPATH=/repo /venv/bin/python -c "import malt, mod; '
                                    'print(mod.%s(%d), malt.to_graph(mod.%s)(%d))"' % (dn, n, dn, n),
                          'also_failing': sorted(set('%s / %s' % (f[0], f[1]) for f in fl[1:]))[:40]}, None))
    dbad = [d for d in dres if d[2][:2] != d[3][:2]]
    for rdesc, meth, native, direct in dres:
        run.count()
        run.nontriv(('super-direct', rdesc, meth, native[0], direct[0]))
    if dbad:
        rdesc, meth, native, direct = dbad[0]
        failures.append(('py_builtins.super_in_original_context(super, (), fscope) called in method %s of Middle on receiver %s '
                         'does not resolve like the native super()' % (meth, rdesc),
                         {'hierarchy': 'class B: m, c(classmethod); class M(B): m / mb (call from a nested body function) / c use '
                                       'super_in_original_context(super, (), fscope) with a local fscope whose .name is "fscope"; '
                                       'class L(M): pass; class LL(L): pass  (tools/props/c14.py run_super_direct)',
                          'receiver': rdesc, 'method': meth, 'argument': 2, 'native_super': native, 'super_in_original_context': direct,
                          'also_failing': ['%s.%s' % (d[0], d[1]) for d in dbad[1:]]}, None))
    run.extra['super_hierarchy_cases'] = len(sres) + len(dres)

    # 5. verdict ---------------------------------------------------------------------------------
    unknown = 0
    for title, replay, classify in failures:
        if run.violation(title, replay, classify=classify):
            unknown += 1
    # builtins the theorem does not cover must each be explained by a failing input found above
    if nonconf:
        for b, nshapes in nonconf:
            explained = any(t.startswith('py_builtins.overload_of(%s)' % b) for t, _, _ in failures)
            if not explained:
                unknown += 1
                run.violation('forwarding theorem does not apply to %s (%d refuting call shapes in the model) but the value oracle '
                              'found no failing input' % (b, nshapes),
                              {'builtin': b, 'broken_theorem': 'overload_forwards_same_call (conforms = false)',
                               'model_shapes': nshapes}, found_input=False)
    searched = '%d value cases, %d partial cases, %d context programs, %d globals()/locals() mapping traces, three-level super() hierarchies: no failing input that is not a listed known finding' % (len(inputs), len(pin), len(progs), len(nsres))
    if unknown == 0:
        if tie_msg is not None:
            run.violation('translator no longer recognises the source: ' + tie_msg,
                          {'broken_tie': tie_msg, 'broken_correspondence': corr_bad[:8], 'searched': searched}, found_input=False)
        elif corr_bad:
            run.violation('correspondence model/implementation broken',
                          {'broken_correspondence': corr_bad[:8], 'searched': searched}, found_input=False)
        elif any(not o.discharged() for o in run.obligations):
            broken = [o for o in run.obligations if not o.discharged()]
            run.violation('proof obligation(s) no longer check: ' + ', '.join(o.name for o in broken),
                          {'broken_obligations': [dict(o.to_json(), log=o.log[-1500:]) for o in broken], 'searched': searched},
                          found_input=False)
    elif corr_bad:
        run.note('correspondence also broken: ' + '; '.join(corr_bad[:3]))
    run.assumptions += [
        'the builtins themselves are CPython\'s (the overload calls the same function object); what is proved is that the call '
        'performed is the same call',
        'type registries hold no entry matching the argument values (checked at start of the run: empty)',
        'user values are never the private sentinel py_builtins.UNSPECIFIED',
        'keyword arguments reach the overload without duplicates (CPython rejects duplicates at the call site)',
        'frames: a frame is modelled by its f_locals; malt\'s own helper frames never bind the scope object under its name',
        'locals() mapping: CPython <= 3.12 function-frame semantics (one f_locals dictionary per frame, refreshed from the variables '
        'at every locals() call; checked against plain CPython on every trace); a trace uses one context builtin only (a converted '
        'globals()/eval()/super() call also refreshes an earlier locals() result, the native ones except eval do not)',
    ]


def parse_nonconf(out):
    m = re.search(r'=\s*(\[.*?\]|nil)\s*:\s*list \(string \* nat\)', out, re.S)
    if not m:
        return None
    return [(a, int(b)) for a, b in re.findall(r'\("([a-z_]+)"(?:%string)?,\s*(\d+)\)', m.group(1))]


def replay(path):
    doc = json.load(open(path))
    print(json.dumps(doc, indent=1))
    return 0
