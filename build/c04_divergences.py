"""Semantic divergences seen by the dynamic oracle of C04 (thorough tier, seed 0: 15 of 1000 runs).
All 15 have ONE root cause: a variable read only inside the body of a LOCAL CLASS (class-level statement, default value
of a method, free variable of a method) is not seen as read by liveness (the ClassDef CFG node carries only the class
name / decorators / bases; the class body is a separate isolated scope).  When the class statement sits in the body of
a functionalised if / while / for (or behind a lowered early return = `if not do_return:`) and the variable is also
assigned there and not live afterwards, control_flow treats it as local to the generated body function: no `nonlocal`,
so the read in the class body hits an unbound local / free variable -> NameError / UnboundLocalError.

Run:  PYTHONPATH=/repo /venv/bin/python /verif/build/c04_divergences.py
"""
import logging
logging.disable(logging.CRITICAL)
import malt


def class_body_read(c):                 # read in a class-level statement
    acc = 5
    if c:
        class K:
            v = acc
        acc = K.v + 1
        r = acc
    else:
        r = 0
    return r


def method_default_read(c):             # read in the default value of a method
    acc = 5
    if c:
        class K:
            def m(self, p=acc):
                return p
        acc = K().m() + 1
        r = acc
    else:
        r = 0
    return r


def method_free_variable(c):            # read as free variable of a method
    acc = 5
    if c:
        class K:
            def m(self):
                return acc
        r = K().m()
        acc = r + 1
    else:
        r = 0
    return r


def in_while_body(c):
    acc = 5
    while c:
        class K:
            v = acc
        acc = K.v + 1
        c = 0
    return 1


def behind_early_return(c):             # the shape the random generator produced (run #947 reduced)
    acc = 5
    try:
        if c:
            return acc
    finally:
        pass
    class K:
        v = acc
    acc = K.v + 1
    return acc


def control_live_afterwards(c):         # same, but acc is live after the if: converts correctly
    acc = 5
    if c:
        class K:
            v = acc
        acc = K.v + 1
    return acc


def control_nested_def(c):              # a nested def instead of a class: converts correctly
    acc = 5
    if c:
        def h(p=acc):
            return p
        acc = h() + 1
        r = acc
    else:
        r = 0
    return r


for fn, arg in ((class_body_read, 1), (method_default_read, 1), (method_free_variable, 1), (in_while_body, 1),
                (behind_early_return, 0), (control_live_afterwards, 1), (control_nested_def, 1)):
    want = fn(arg)
    try:
        got = repr(malt.to_graph(fn)(arg))
    except Exception as e:   # noqa
        got = 'raises %s: %s' % (type(e).__name__, e)
    print('%-26s f(%r): original %r   converted %s   %s' % (fn.__name__, arg, want, got,
                                                            'OK' if got == repr(want) else 'DIVERGES'))
