From Coq Require Import List Arith Bool Lia.
Import ListNotations.

(* Throwaway feasibility experiment: stage-1 CFG path containment. *)

Inductive stmt :=
| SAssign (l : nat)
| SIf (t : nat) (b e : list stmt)
| SWhile (t : nat) (b : list stmt)
| SBreak (l : nat)
| SContinue (l : nat)
| SReturn (l : nat).

Record bst := { edges : list (nat * nat); leaves : list nat;
                brk : list nat; cont : list nat; ret : list nat }.

Definition connect (ls : list nat) (n : nat) : list (nat * nat) :=
  map (fun x => (x, n)) ls.

Definition add_node (n : nat) (B : bst) : bst :=
  {| edges := edges B ++ connect (leaves B) n; leaves := [n];
     brk := brk B; cont := cont B; ret := ret B |}.

Section Build.
  Variable build : stmt -> bst -> bst.
  Fixpoint build_list (ss : list stmt) (B : bst) : bst :=
    match ss with [] => B | s :: r => build_list r (build s B) end.
End Build.

Fixpoint build (s : stmt) (B : bst) {struct s} : bst :=
  match s with
  | SAssign l => add_node l B
  | SBreak l => let B1 := add_node l B in
      {| edges := edges B1; leaves := []; brk := l :: brk B; cont := cont B; ret := ret B |}
  | SContinue l => let B1 := add_node l B in
      {| edges := edges B1; leaves := []; brk := brk B; cont := l :: cont B; ret := ret B |}
  | SReturn l => let B1 := add_node l B in
      {| edges := edges B1; leaves := []; brk := brk B; cont := cont B; ret := l :: ret B |}
  | SIf t b e =>
      let B1 := add_node t B in
      let B2 := (fix bl (ss : list stmt) (B : bst) : bst :=
                   match ss with [] => B | s :: r => bl r (build s B) end) b B1 in
      let B3 := (fix bl (ss : list stmt) (B : bst) : bst :=
                   match ss with [] => B | s :: r => bl r (build s B) end) e
                  {| edges := edges B2; leaves := [t]; brk := brk B2; cont := cont B2; ret := ret B2 |} in
      {| edges := edges B3; leaves := leaves B2 ++ leaves B3; brk := brk B3; cont := cont B3; ret := ret B3 |}
  | SWhile t b =>
      let B1 := add_node t B in
      let B2 := (fix bl (ss : list stmt) (B : bst) : bst :=
                   match ss with [] => B | s :: r => bl r (build s B) end) b
                  {| edges := edges B1; leaves := [t]; brk := []; cont := []; ret := ret B1 |} in
      {| edges := edges B2 ++ connect (leaves B2) t ++ connect (cont B2) t;
         leaves := t :: brk B2; brk := brk B; cont := cont B; ret := ret B2 |}
  end.

Definition blist := build_list build.

Lemma build_if t b e B :
  build (SIf t b e) B =
  let B1 := add_node t B in
  let B2 := blist b B1 in
  let B3 := blist e {| edges := edges B2; leaves := [t]; brk := brk B2; cont := cont B2; ret := ret B2 |} in
  {| edges := edges B3; leaves := leaves B2 ++ leaves B3; brk := brk B3; cont := cont B3; ret := ret B3 |}.
Proof. reflexivity. Qed.

Lemma build_while t b B :
  build (SWhile t b) B =
  let B1 := add_node t B in
  let B2 := blist b {| edges := edges B1; leaves := [t]; brk := []; cont := []; ret := ret B1 |} in
  {| edges := edges B2 ++ connect (leaves B2) t ++ connect (cont B2) t;
     leaves := t :: brk B2; brk := brk B; cont := cont B; ret := ret B2 |}.
Proof. reflexivity. Qed.

(* Trace semantics with a decision list. *)
Inductive outcome := ONormal | OBrk | OCont | ORet | OFuel.

Definition hd_dec (d : list bool) : bool * list bool :=
  match d with [] => (false, []) | x :: r => (x, r) end.

Fixpoint exec (fuel : nat) (s : stmt) (d : list bool) {struct fuel} : list nat * outcome * list bool :=
  match fuel with
  | 0 => ([], OFuel, d)
  | S f =>
    match s with
    | SAssign l => ([l], ONormal, d)
    | SBreak l => ([l], OBrk, d)
    | SContinue l => ([l], OCont, d)
    | SReturn l => ([l], ORet, d)
    | SIf t b e =>
        let '(c, d') := hd_dec d in
        let '(tr, o, d2) := exec_list f (if c then b else e) d' in (t :: tr, o, d2)
    | SWhile t b =>
        let '(c, d') := hd_dec d in
        if c then
          match exec_list f b d' with
          | (tr, ONormal, d2) | (tr, OCont, d2) =>
              let '(tr2, o, d3) := exec f (SWhile t b) d2 in (t :: tr ++ tr2, o, d3)
          | (tr, OBrk, d2) => (t :: tr, ONormal, d2)
          | (tr, o, d2) => (t :: tr, o, d2)
          end
        else ([t], ONormal, d')
    end
  end
with exec_list (fuel : nat) (ss : list stmt) (d : list bool) {struct fuel} : list nat * outcome * list bool :=
  match fuel with
  | 0 => ([], OFuel, d)
  | S f =>
    match ss with
    | [] => ([], ONormal, d)
    | s :: r => match exec f s d with
                | (t1, ONormal, d1) => let '(t2, o, d2) := exec_list f r d1 in (t1 ++ t2, o, d2)
                | res => res
                end
    end
  end.

(* Paths *)
Fixpoint chain (E : list (nat * nat)) (n : nat) (tr : list nat) : Prop :=
  match tr with [] => True | m :: r => In (n, m) E /\ chain E m r end.

Definition path_from (E : list (nat * nat)) (srcs : list nat) (tr : list nat) : Prop :=
  match tr with [] => True | n :: r => (forall x, In x srcs -> In (x, n) E) /\ chain E n r end.

Fixpoint lastd (n : nat) (tr : list nat) : nat :=
  match tr with [] => n | m :: r => lastd m r end.

Definition ends_in (o : outcome) (tr : list nat) (B' : bst) : Prop :=
  match o with
  | ONormal => In (lastd 0 tr) (leaves B')
  | OBrk => In (lastd 0 tr) (brk B')
  | OCont => In (lastd 0 tr) (cont B')
  | ORet => In (lastd 0 tr) (ret B')
  | OFuel => True
  end.

Record good (B B' : bst) (tr : list nat) (o : outcome) : Prop := {
  g_mono : incl (edges B) (edges B');
  g_path : path_from (edges B') (leaves B) tr;
  g_brk : incl (brk B) (brk B');
  g_cont : incl (cont B) (cont B');
  g_ret : incl (ret B) (ret B');
  g_end : tr <> [] -> ends_in o tr B'
}.
