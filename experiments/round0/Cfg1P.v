From Coq Require Import List Arith Bool Lia.
Import ListNotations.
Require Import Cfg1.

Lemma chain_mono E E' n tr : incl E E' -> chain E n tr -> chain E' n tr.
Proof. intros H; revert n; induction tr as [|m r IH]; simpl; intros n Hc; [exact I|].
  destruct Hc as [H1 H2]; split; [apply H, H1 | apply IH, H2]. Qed.

Lemma path_mono E E' s tr : incl E E' -> path_from E s tr -> path_from E' s tr.
Proof. intros H; destruct tr as [|n r]; simpl; [trivial|]. intros [H1 H2]; split.
  - intros x Hx; apply H, H1, Hx.
  - eapply chain_mono; eauto. Qed.

Lemma chain_app E n t1 t2 : chain E n t1 -> chain E (lastd n t1) t2 -> chain E n (t1 ++ t2).
Proof. revert n; induction t1 as [|m r IH]; simpl; intros n H1 H2; [exact H2|].
  destruct H1 as [Ha Hb]; split; [exact Ha|]. apply IH; assumption. Qed.

Lemma lastd_app n t1 t2 : lastd n (t1 ++ t2) = lastd (lastd n t1) t2.
Proof. revert n; induction t1 as [|m r IH]; simpl; intros; [reflexivity|apply IH]. Qed.

Lemma lastd_ne n n' tr : tr <> [] -> lastd n tr = lastd n' tr.
Proof. destruct tr; [congruence|reflexivity]. Qed.

Lemma path_app E s t1 t2 : t1 <> [] -> path_from E s t1 -> chain E (lastd 0 t1) t2 -> path_from E s (t1 ++ t2).
Proof. destruct t1 as [|n r]; [congruence|]. intros _ [H1 H2] H3; simpl; split; [exact H1|].
  apply chain_app; [exact H2|exact H3]. Qed.

Lemma path_to_chain E srcs x tr : In x srcs -> path_from E srcs tr -> chain E x tr.
Proof. destruct tr as [|n r]; simpl; [trivial|]. intros Hx [H1 H2]; split; [apply H1, Hx|exact H2]. Qed.

Lemma in_connect x n ls : In x ls -> In (x, n) (connect ls n).
Proof. intros H; unfold connect; apply in_map_iff; exists x; split; [reflexivity|exact H]. Qed.

(* ---- monotonicity of the builder, independent of executions ---- *)
Record mono (B B' : bst) : Prop := {
  m_e : incl (edges B) (edges B'); m_b : incl (brk B) (brk B');
  m_c : incl (cont B) (cont B'); m_r : incl (ret B) (ret B') }.

Lemma mono_refl B : mono B B. Proof. constructor; apply incl_refl. Qed.
Lemma mono_trans A B C : mono A B -> mono B C -> mono A C.
Proof. intros [] []; constructor; eapply incl_tran; eauto. Qed.

Section StmtInd.
  Variable P : stmt -> Prop.
  Hypothesis HA : forall l, P (SAssign l).
  Hypothesis HI : forall t b e, Forall P b -> Forall P e -> P (SIf t b e).
  Hypothesis HW : forall t b, Forall P b -> P (SWhile t b).
  Hypothesis HB : forall l, P (SBreak l).
  Hypothesis HC : forall l, P (SContinue l).
  Hypothesis HR : forall l, P (SReturn l).
  Fixpoint stmt_ind' (s : stmt) : P s :=
    let fix go (ss : list stmt) : Forall P ss :=
      match ss with [] => Forall_nil _ | x :: r => Forall_cons _ (stmt_ind' x) (go r) end in
    match s with
    | SAssign l => HA l | SIf t b e => HI t b e (go b) (go e) | SWhile t b => HW t b (go b)
    | SBreak l => HB l | SContinue l => HC l | SReturn l => HR l
    end.
End StmtInd.

Lemma blist_mono ss : Forall (fun s => forall B, mono B (build s B)) ss -> forall B, mono B (blist ss B).
Proof. induction 1 as [|s r Hs _ IH]; intros B; simpl; [apply mono_refl|].
  eapply mono_trans; [apply Hs|apply IH]. Qed.

Lemma add_node_mono n B : mono B (add_node n B).
Proof. constructor; simpl; try apply incl_refl. apply incl_appl, incl_refl. Qed.

Lemma mono_same A B : edges A = edges B -> brk A = brk B -> cont A = cont B -> ret A = ret B -> mono A B.
Proof. intros H1 H2 H3 H4; constructor; rewrite ?H1, ?H2, ?H3, ?H4; apply incl_refl. Qed.

Lemma build_mono s : forall B, mono B (build s B).
Proof. induction s as [l|t b e Hb He|t b Hb|l|l|l] using stmt_ind'; intros B.
  - apply add_node_mono.
  - rewrite build_if; cbv zeta.
    set (B2 := blist b (add_node t B)).
    set (B2' := {| edges := edges B2; leaves := [t]; brk := brk B2; cont := cont B2; ret := ret B2 |}).
    apply mono_trans with (add_node t B); [apply add_node_mono|].
    apply mono_trans with B2; [apply (blist_mono b Hb)|].
    apply mono_trans with B2'; [apply mono_same; reflexivity|].
    apply mono_trans with (blist e B2'); [apply (blist_mono e He)|].
    apply mono_same; reflexivity.
  - rewrite build_while; cbv zeta.
    pose proof (blist_mono b Hb {| edges := edges (add_node t B); leaves := [t]; brk := []; cont := []; ret := ret (add_node t B) |}) as M2.
    destruct M2 as [Me _ _ Mr]; simpl in *. constructor; simpl; try apply incl_refl.
    + apply incl_appl. eapply incl_tran; [|exact Me]. apply incl_appl, incl_refl.
    + exact Mr.
  - constructor; simpl; try apply incl_refl; try apply incl_tl, incl_refl. apply incl_appl, incl_refl.
  - constructor; simpl; try apply incl_refl; try apply incl_tl, incl_refl. apply incl_appl, incl_refl.
  - constructor; simpl; try apply incl_refl; try apply incl_tl, incl_refl. apply incl_appl, incl_refl.
Qed.

Lemma blist_mono' ss B : mono B (blist ss B).
Proof. apply blist_mono. apply Forall_forall; intros; apply build_mono. Qed.

Lemma good_add_node n B : good B (add_node n B) [n] ONormal.
Proof. constructor; simpl; try apply incl_refl.
  - apply incl_appl, incl_refl.
  - split; [|exact I]. intros x Hx; apply in_or_app; right; apply in_connect, Hx.
  - intros _; left; reflexivity. Qed.

Definition list_ok (B B' : bst) (tr : list nat) (o : outcome) : Prop :=
  good B B' tr o /\ (tr = [] -> o = ONormal /\ B' = B).

Lemma ends_jump_mono o tr B1 B2 : o <> ONormal -> mono B1 B2 -> ends_in o tr B1 -> ends_in o tr B2.
Proof. intros Ho [_ Mb Mc Mr]; destruct o; simpl; auto; congruence. Qed.

Lemma ends_in_lastd o tr tr' B : lastd 0 tr = lastd 0 tr' -> ends_in o tr B -> ends_in o tr' B.
Proof. intros H; destruct o; simpl; rewrite ?H; auto. Qed.

Lemma exec_while_head f t b d tr o d' : exec f (SWhile t b) d = (tr, o, d') -> o <> OFuel -> exists r, tr = t :: r.
Proof. destruct f as [|f]; simpl; [intros H; inversion H; congruence|].
  destruct (hd_dec d) as [c dd]. destruct c.
  - destruct (exec_list f b dd) as [[trb ob] d2]. destruct ob.
    + destruct (exec f (SWhile t b) d2) as [[tr2 o2] d3]. intros H _; inversion H; eauto.
    + intros H _; inversion H; eauto.
    + destruct (exec f (SWhile t b) d2) as [[tr2 o2] d3]. intros H _; inversion H; eauto.
    + intros H _; inversion H; eauto.
    + intros H _; inversion H; eauto.
  - intros H _; inversion H; eauto.
Qed.

Lemma jump_good l B B' o :
  edges B' = edges (add_node l B) -> mono B B' -> ends_in o [l] B' -> good B B' [l] o.
Proof. intros He [Me Mb Mc Mr] Hend. constructor; auto.
  - rewrite He; simpl. split; [|exact I]. intros x Hx; apply in_or_app; right; apply in_connect, Hx.
Qed.

Theorem sound : forall fuel,
  (forall s d tr o d' B, exec fuel s d = (tr, o, d') -> o <> OFuel ->
      tr <> [] /\ good B (build s B) tr o) /\
  (forall ss d tr o d' B, exec_list fuel ss d = (tr, o, d') -> o <> OFuel ->
      list_ok B (blist ss B) tr o).
Proof.
  induction fuel as [|f [IHs IHl]]; (split; [intros s d tr o d' B He Ho | intros ss d tr o d' B He Ho]);
    simpl in He; try (inversion He; subst; congruence).
  - destruct s as [l | t b e | t b | l | l | l].
    + inversion He; subst; split; [congruence|apply good_add_node].
    + (* if *)
      destruct (hd_dec d) as [c dd]. destruct (exec_list f (if c then b else e) dd) as [[tr0 o0] d0] eqn:Hel.
      injection He as Htr Ho' Hd; subst tr o d'. split; [congruence|].
      pose proof (build_mono (SIf t b e) B) as MB. rewrite build_if in *; cbv zeta in *.
      set (B1 := add_node t B) in *. set (B2 := blist b B1) in *.
      set (B2' := {| edges := edges B2; leaves := [t]; brk := brk B2; cont := cont B2; ret := ret B2 |}) in *.
      set (B3 := blist e B2') in *.
      pose proof (blist_mono' e B2') as M3. fold B3 in M3.
      pose proof (blist_mono' b B1) as M2. fold B2 in M2.
      assert (Hhead : forall x, In x (leaves B) -> In (x, t) (edges B3)).
      { intros x Hx. apply (m_e _ _ M3); simpl. apply (m_e _ _ M2). simpl. apply in_or_app; right; apply in_connect, Hx. }
      destruct MB as [Me Mb Mc Mr]; simpl in *.
      destruct c.
      * destruct (IHl b dd tr0 o0 d0 B1 Hel Ho) as [G Hnil]. fold B2 in G, Hnil.
        constructor; simpl; auto.
        -- split; [exact Hhead|]. eapply chain_mono; [apply (m_e _ _ M3)|]. simpl.
           eapply path_to_chain; [|apply (g_path _ _ _ _ G)]. simpl; auto.
        -- intros _. destruct tr0 as [|n0 r0].
           ++ destruct (Hnil eq_refl) as [-> HB2]. simpl. apply in_or_app; left. rewrite HB2; simpl; auto.
           ++ pose proof (g_end _ _ _ _ G ltac:(congruence)) as E. simpl lastd in *.
              destruct o0; simpl in *; auto.
              ** apply in_or_app; left; exact E.
              ** apply (m_b _ _ M3); exact E.
              ** apply (m_c _ _ M3); exact E.
              ** apply (m_r _ _ M3); exact E.
      * destruct (IHl e dd tr0 o0 d0 B2' Hel Ho) as [G Hnil]. fold B3 in G, Hnil.
        constructor; simpl; auto.
        -- split; [exact Hhead|]. eapply path_to_chain; [|apply (g_path _ _ _ _ G)]. simpl; auto.
        -- intros _. destruct tr0 as [|n0 r0].
           ++ destruct (Hnil eq_refl) as [-> HB3]. simpl. apply in_or_app; right. rewrite HB3; simpl; auto.
           ++ pose proof (g_end _ _ _ _ G ltac:(congruence)) as E. simpl lastd in *.
              destruct o0; simpl in *; auto. apply in_or_app; right; exact E.
    + (* while *)
      destruct (hd_dec d) as [c dd].
      pose proof (build_mono (SWhile t b) B) as MB. 
      pose proof (fun d2 tr2 o2 d3 => IHs (SWhile t b) d2 tr2 o2 d3 B) as IHw.
      rewrite build_while in *; cbv zeta in *.
      set (B1 := add_node t B) in *.
      set (B1' := {| edges := edges B1; leaves := [t]; brk := []; cont := []; ret := ret B1 |}) in *.
      set (B2 := blist b B1') in *.
      set (B' := {| edges := edges B2 ++ connect (leaves B2) t ++ connect (cont B2) t;
                    leaves := t :: brk B2; brk := brk B; cont := cont B; ret := ret B2 |}) in *.
      pose proof (blist_mono' b B1') as M2. fold B2 in M2.
      assert (Hhead : forall x, In x (leaves B) -> In (x, t) (edges B')).
      { intros x Hx. simpl. apply in_or_app; left. apply (m_e _ _ M2); simpl. apply in_or_app; right; apply in_connect, Hx. }
      assert (HE2 : incl (edges B2) (edges B')) by (simpl; apply incl_appl, incl_refl).
      destruct MB as [Me Mb Mc Mr].
      destruct c.
      * destruct (exec_list f b dd) as [[trb ob] d2] eqn:Hel.
        assert (Hbody : ob <> OFuel -> list_ok B1' B2 trb ob) by (intros H; apply (IHl b dd trb ob d2 B1' Hel H)).
        assert (Hloop : (ob = ONormal \/ ob = OCont) ->
                  forall tr2 d3, exec f (SWhile t b) d2 = (tr2, o, d3) -> tr = t :: trb ++ tr2 ->
                  (t :: trb ++ tr2) <> [] /\ good B B' (t :: trb ++ tr2) o).
        { intros Hob tr2 d3 Hw _. split; [congruence|].
          destruct (IHw d2 tr2 o d3 Hw Ho) as [Hne G2].
          destruct (exec_while_head _ _ _ _ _ _ _ Hw Ho) as [r2 ->].
          destruct Hbody as [Gb Hnil]; [destruct Hob; congruence|].
          constructor; auto.
          - simpl; split; [exact Hhead|]. apply chain_app.
            + eapply chain_mono; [exact HE2|]. eapply path_to_chain; [|apply (g_path _ _ _ _ Gb)]. simpl; auto.
            + simpl; split.
              * destruct trb as [|n0 r0].
                -- destruct (Hnil eq_refl) as [_ HB]. simpl. apply in_or_app; right; apply in_or_app; left.
                   apply in_connect. rewrite HB; simpl; auto.
                -- pose proof (g_end _ _ _ _ Gb ltac:(congruence)) as E. simpl lastd in *.
                   apply in_or_app; right. destruct Hob; subst ob; simpl in E.
                   ++ apply in_or_app; left; apply in_connect, E.
                   ++ apply in_or_app; right; apply in_connect, E.
              * destruct (g_path _ _ _ _ G2) as [_ Hc]. exact Hc.
          - intros _. pose proof (g_end _ _ _ _ G2 Hne) as E.
            eapply ends_in_lastd; [|exact E]. simpl. rewrite lastd_app. reflexivity. }
        destruct ob.
        -- destruct (exec f (SWhile t b) d2) as [[tr2 o2] d3] eqn:Hw. inversion He; subst. eapply Hloop; eauto.
        -- (* break *) inversion He; subst; clear He. split; [congruence|].
           destruct Hbody as [Gb Hnil]; [congruence|].
           constructor; auto.
           ++ simpl; split; [exact Hhead|]. eapply chain_mono; [exact HE2|].
              eapply path_to_chain; [|apply (g_path _ _ _ _ Gb)]. simpl; auto.
           ++ intros _. destruct trb as [|n0 r0]; [destruct (Hnil eq_refl); congruence|].
              pose proof (g_end _ _ _ _ Gb ltac:(congruence)) as E. simpl in *. right; exact E.
        -- destruct (exec f (SWhile t b) d2) as [[tr2 o2] d3] eqn:Hw. inversion He; subst. eapply Hloop; eauto.
        -- (* return *) inversion He; subst; clear He. split; [congruence|].
           destruct Hbody as [Gb Hnil]; [congruence|].
           constructor; auto.
           ++ simpl; split; [exact Hhead|]. eapply chain_mono; [exact HE2|].
              eapply path_to_chain; [|apply (g_path _ _ _ _ Gb)]. simpl; auto.
           ++ intros _. destruct trb as [|n0 r0]; [destruct (Hnil eq_refl); congruence|].
              pose proof (g_end _ _ _ _ Gb ltac:(congruence)) as E. simpl in *. exact E.
        -- inversion He; subst; congruence.
      * inversion He; subst; clear He. split; [congruence|]. constructor; auto.
        -- simpl; split; [exact Hhead|exact I].
        -- intros _; simpl; auto.
    + inversion He; subst; split; [congruence|]. apply jump_good; [reflexivity|apply (build_mono (SBreak l))|simpl; auto].
    + inversion He; subst; split; [congruence|]. apply jump_good; [reflexivity|apply (build_mono (SContinue l))|simpl; auto].
    + inversion He; subst; split; [congruence|]. apply jump_good; [reflexivity|apply (build_mono (SReturn l))|simpl; auto].
  - (* lists *)
    destruct ss as [|s r].
    + inversion He; subst. split; [|intros _; split; reflexivity].
      constructor; simpl; try apply incl_refl; [exact I|congruence].
    + destruct (exec f s d) as [[t1 o1] d1] eqn:Hs.
      assert (Hcase : o1 <> ONormal -> (t1, o1, d1) = (tr, o, d') -> list_ok B (blist (s :: r) B) tr o).
      { intros Hn Heq; inversion Heq; subst. destruct (IHs s d tr o d' B Hs Ho) as [Hne G].
        pose proof (blist_mono' r (build s B)) as Mr'. pose proof (build_mono s B) as Ms.
        split; [|congruence]. simpl. destruct G. constructor; auto.
        - eapply incl_tran; [eassumption|apply (m_e _ _ Mr')].
        - eapply path_mono; [apply (m_e _ _ Mr')|assumption].
        - eapply incl_tran; [eassumption|apply (m_b _ _ Mr')].
        - eapply incl_tran; [eassumption|apply (m_c _ _ Mr')].
        - eapply incl_tran; [eassumption|apply (m_r _ _ Mr')].
        - intros Hne'. eapply ends_jump_mono; eauto. }
      destruct o1; try (apply Hcase; [congruence|exact He]).
      destruct (exec_list f r d1) as [[t2 o2] d2] eqn:Hr. inversion He; subst; clear He Hcase.
      destruct (IHs s d t1 ONormal d1 B Hs ltac:(congruence)) as [Hne G1].
      destruct (IHl r d1 t2 o d' (build s B) Hr Ho) as [G2 Hnil2].
      simpl. split.
      * destruct G1 as [a_m a_p a_b a_c a_r a_e], G2 as [b_m b_p b_b b_c b_r b_e]. constructor.
        -- eapply incl_tran; eassumption.
        -- apply path_app; [exact Hne| |].
           ++ eapply path_mono; [|eassumption]. assumption.
           ++ eapply path_to_chain; [|eassumption]. apply a_e, Hne.
        -- eapply incl_tran; eassumption.
        -- eapply incl_tran; eassumption.
        -- eapply incl_tran; eassumption.
        -- intros _. destruct t2 as [|n2 r2].
           ++ destruct (Hnil2 eq_refl) as [-> HB]. rewrite app_nil_r. simpl blist. rewrite HB. apply a_e, Hne.
           ++ eapply ends_in_lastd; [|apply b_e; congruence]. rewrite lastd_app. reflexivity.
      * intros Happ. apply app_eq_nil in Happ. destruct Happ; congruence.
Qed.

Print Assumptions sound.
