From Coq Require Import List Arith Bool Lia.
Import ListNotations.

(* Throwaway feasibility experiment: backward may-analysis, fixed point => path soundness. *)
Section Bwd.
  Variable node var : Type.
  Variable succ : node -> list node.
  Variable gen kill : node -> var -> Prop.
  Variable live_in live_out : node -> var -> Prop.

  (* the equations, as inclusions in the direction soundness needs *)
  Hypothesis eq_out : forall n m x, In m (succ n) -> live_in m x -> live_out n x.
  Hypothesis eq_in_gen : forall n x, gen n x -> live_in n x.
  Hypothesis eq_in_pass : forall n x, live_out n x -> ~ kill n x -> live_in n x.

  Inductive path : node -> list node -> node -> Prop :=
  | p_one n : path n [] n
  | p_step n m mid k : In m (succ n) -> path m mid k -> path n (m :: mid) k.

  (* x is read at k, and no node strictly between n and k (i.e. the nodes of mid except the last = k) kills x *)
  Fixpoint nokill (x : var) (mid : list node) : Prop :=
    match mid with
    | [] => True
    | [_] => True                      (* the last element is k itself: its gen wins *)
    | m :: r => ~ kill m x /\ nokill x r
    end.

  Theorem fixpoint_sound_bwd n mid k x :
    path n mid k -> mid <> [] -> gen k x -> nokill x mid -> live_out n x.
  Proof.
    intros P; induction P as [n | n m mid k Hm P IH]; intros Hne Hg Hnk; [congruence|].
    apply eq_out with m; [exact Hm|].
    destruct mid as [|m' r].
    - inversion P; subst. apply eq_in_gen, Hg.
    - simpl in Hnk. destruct Hnk as [Hk Hr]. apply eq_in_pass; [|exact Hk].
      apply IH; [congruence|exact Hg|exact Hr].
  Qed.
End Bwd.
Print Assumptions fixpoint_sound_bwd.
