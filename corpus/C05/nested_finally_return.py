# decisions: [1]
def f(a, b, c):
    try:
        T(1)
    finally:
        if D(2):
            try:
                return T(9)
            finally:
                T(3)
    T(4)
    T(5)
