# decisions: [1]
def f(a, b, c):
    try:
        y = T(1)
    except E0:
        y = T(2)
    else:
        if D(3):
            y = T(4)
    return T(5)
