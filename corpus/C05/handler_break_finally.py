# decisions: [1, 1]
def f(a, b, c):
    while D(1):
        try:
            if D(2):
                raise E0()
            x = T(3)
        except E0:
            break
        finally:
            T(4)
    return T(5)
