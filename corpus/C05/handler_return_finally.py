# decisions: []
def f(a, b, c):
    try:
        raise E1()
    except E1:
        return T(1)
    finally:
        T(2)
