# decisions: [2, 0, 1]
def f(a, b, c):
    try:
        for v in L(1):
            try:
                T(2)
            except:
                T(3)
            else:
                if D(4):
                    raise E0()
                T(5)
    except E0:
        T(6)
    T(7)
