# decisions: []
def f(a, b, c):
    try:
        try:
            T(1)
        except:
            T(2)
        else:
            raise E0()
    except E0:
        T(3)
    T(4)
