# args: [[1, 1, 2], [0, 1, 2]]
def f(a, b, c):
    x = 1
    if a:
        x = 1.5
        y = 2
        def g1():
            return x
    else:
        def g1():
            return x
    w = g1()
    x = 'a'
    z = g1()
    return (w, z)
