# args: [[0, 1, 2]]
def f(a, b, c):
    x = 1
    x = a or 's'
    return (x,)
