# args: [[1, 1, 2]]
def f(a, b, c):
    x = 1
    def g1():
        nonlocal x
        x = 's'
        return 0
    g1()
    return (x,)
