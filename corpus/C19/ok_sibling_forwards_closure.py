# args: [[1, 1, 2], [0, 's', 2.5]]
def f(a, b, c):
    x = 1
    y = 2.5
    def g1():
        u = (x, y)
        return u
    def g2():
        return g1()
    def g3():
        v = (x, 0)
        return g1()
    def g4():
        def k2():
            return g1()
        return k2()
    z = g2()
    x = 's'
    w = g3()
    if a:
        y = (1, 'a')
    g2()
    x = 0.5
    g4()
    return (z, w)
