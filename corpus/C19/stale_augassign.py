# args: [[1, 1, 2]]
def f(a, b, c):
    x = 1
    x += 0.5
    return (x,)
