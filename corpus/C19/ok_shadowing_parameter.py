# args: [[1, 0.5, 2]]
def f(a, b, c):
    x = a
    w = b
    def g1(x):
        y = x
        u, v = (x, w)
        return (y, u, v)
    r = g1('s')
    t = g1(x)
    def g2():
        def k1(x):
            return (x, w)
        return k1(2.5)
    z = g2()
    return (r, t, z, x)
