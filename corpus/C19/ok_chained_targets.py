# args: [[1, 's', 2.5], [0, 'q', 0.5]]
def f(a, b, c):
    x, y = z = (a, 'one')
    [w, x] = y = z = (b, c)
    if a:
        (x, y), w = z = ((a, b), c)
    else:
        z = x, y = (c, b)
    n1 = 0
    while n1 < 2:
        n1 = n1 + 1
        G_OBJ.v = x, y = w = G_LST[0] = (n1, b)
        y, x = z = (x, y)
    return (x, y, z, w)
