# args: [[0, 1, 2], [1, 1, 2]]
def f(a, b, c):
    if a:
        x = 1
    else:
        x = a or 's'
    return (x,)
