# args: [[1, 's', 2.5]]
def f(a, b, c):
    x, *y = (a, b, c)
    *z, w = (a, b, c)
    return (x, y, z, w)
