# args: [[1, 1, 2]]
def f(a, b, c):
    x = 1
    for x in ('s',):
        y = x
    return (x,)
