# args: [[1, 1, 2]]
def f(a, b, c):
    x = 1
    def g1():
        return (x, 0)
    def g2():
        return g1()
    y = g1()
    x = 's'
    z = g2()
    return (y, z)
