# args: [[1, 1, 2], [0, 0, 2]]
def f(a, b, c):
    x = 1
    for n1 in (0, 1, 2):
        x = 0.5
        n2 = 0
        while n2 < 1:
            n2 = n2 + 1
            y = x
        else:
            x = 's'
            break
        x = 2
    z = x
    for n3 in (0, 1):
        for n4 in ():
            y = x
        else:
            x = [n3]
            continue
        x = True
    return (x, z)
