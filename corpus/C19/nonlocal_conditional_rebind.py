# args: [[0, 1, 2], [1, 1, 2]]
def f(a, b, c):
    x = 1
    def g1(p):
        nonlocal x
        if p:
            x = 'a'
        v = x
        return v
    g1(a)
    return (b,)
