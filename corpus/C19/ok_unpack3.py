# args: [[1, 's', 2.5]]
def f(a, b, c):
    x, y, z = a, b, c
    w = (z, y, x)
    [x, y, z] = w
    return (x, y, z)
