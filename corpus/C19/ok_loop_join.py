# args: [[1, 1, 2], [0, 's', 2.5]]
def f(a, b, c):
    x = 1
    y = 's'
    n1 = 0
    while n1 < 3:
        n1 = n1 + 1
        z = x
        x, y = y, 2.5
        w = (z, x)
    if a:
        w = (b, c)
    return (x, y, w)
