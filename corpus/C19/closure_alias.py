# args: [[1, 1, 2]]
def f(a, b, c):
    x = 1
    def g1():
        v = x
        return v
    h = g1
    x = 's'
    h()
    return (x,)
