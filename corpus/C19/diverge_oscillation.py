# args: [[1, 1, 2]]
def f(a, b, c):
    x = 1
    for q1 in (1, 2):
        def g1():
            return 0
    x = G_INT
    x = g1()
    for q2 in (1, 2):
        y = 's'
        y = a
    return (x,)
