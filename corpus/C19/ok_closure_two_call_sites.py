# args: [[1, 1, 2], [0, 's', 2.5]]
def f(a, b, c):
    x = 1
    def g1(p):
        u = (x, p)
        return u
    g1(a)
    x = 's'
    y = g1(b)
    if a:
        x = 2.5
    g1(c)
    return (x, y)
