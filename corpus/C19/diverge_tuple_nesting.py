# args: [[1, 1, 2]]
def f(a, b, c):
    x = a
    n1 = 0
    while n1 < 2:
        n1 = n1 + 1
        x = (x, 1)
    return (x,)
