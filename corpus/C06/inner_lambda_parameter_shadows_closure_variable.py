# decisions: [1]
def f(a, b, c):
    x = T(1)
    def g2():
        k3 = lambda x: T(4, x)
        return T(5, x)
    if D(6):
        x = T(7)
    return g2()
