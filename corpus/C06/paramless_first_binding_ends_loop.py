# decisions: [1, 0]
def f():
    T(1)
    while D(2):
        T(3)
        z = T(4)
    if D(5):
        z = T(6, z)
    return T(7, z)
