# decisions: [1, 1, 1, 0, 0]
def f(a, b, c):
    x = T(1)
    y = T(2)
    while D(3, x):
        try:
            if D(4):
                continue
            w = T(5)
        finally:
            x = T(6, y)
        x = T(7)
    return T(8, x, y)
