# decisions: [0]
def f(a, b, c):
    x = {a: T(1), 'k': T(2), 7: T(3)}
    del x['k']
    y = T(4, x)
    if D(5):
        x = T(6)
    return T(7, x)
