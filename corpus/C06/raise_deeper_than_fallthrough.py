# decisions: [1, 1]
def f(a, b, c):
    x = T(1)
    y = T(2)
    try:
        if D(3):
            x = T(4, a)
            w = T(5)
            z = T(6, x)
            T(7, y)
            raise E0()
        x = T(8)
    except E0:
        y = T(9, x)
        if D(10):
            w = T(11)
    return T(12, x, y)
