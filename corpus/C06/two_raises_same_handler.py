# decisions: [0, 1, 1]
def f(a, b, c):
    x = T(1)
    y = T(2)
    try:
        if D(3):
            raise E0()
        x = T(4)
        w = T(5)
        if D(6):
            raise E0()
    except E0:
        y = T(7, x)
        if D(8):
            w = T(9)
    return T(10, x, y)
