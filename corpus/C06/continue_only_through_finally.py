# decisions: [1, 1, 0]
def f(a, b, c):
    x = T(1)
    y = T(2)
    while D(3, x):
        try:
            y = T(4, y)
            continue
        finally:
            x = T(5, x, y)
    return T(6, x)
