# decisions: [1, 0]
def f(a, b, c):
    if D(1):
        x = T(2)
    else:
        x = T(3)
    for x in L(4):
        pass
    return T(5, x)
