# decisions: [1]
def f(a, b, c):
    x = T(1)
    def g2():
        return T(3, x)
    h4 = g2
    def g2():
        return T(5)
    if D(6):
        x = T(7)
    y = h4()
    return g2()
