# decisions: [0]
def f(a, b, c):
    def g1():
        nonlocal x
        x = T(2)
        return T(3)
    g1()
    if D(4):
        x = T(5)
    return T(6, x)
