# decisions: [1, 0]
def f(a, b, c):
    try:
        raise E0()
    except E0 as e:
        if D(1):
            e = T(2)
        x = T(3, e)
    return T(4, x)
