# decisions: [1]
def f(a, b, c):
    x = T(1)
    def g2():
        nonlocal x
        x += T(3)
        return T(4, x)
    def g5():
        return g2()
    def g6():
        T(7, a)
        return g5()
    k8 = g6
    if D(9):
        x = T(10)
    return k8()
