# decisions: [1, 1, 1, 1, 0, 0]
def f(a, b, c):
    while D(1):
        global GV
        x = T(2, GV)
        if D(3):
            if D(4):
                GV = T(5)
        y = T(6)
    return T(7, GV)
