import inspect
REG = {}
def tgt(v):
    return v
def _setsig(f, t):
    f.__signature__ = inspect.signature(t)
    return f
REG['l1'], REG['l2'] = _setsig(lambda *a: 1001, tgt), (lambda v: 1002)
def tgt1(v):
    return v
# the override hides an ambiguity: without it l3 and l4 have the same signature and parse_entity refuses explicitly
REG['l3'], REG['l4'], REG['l5'] = (lambda v, w: 1003 + \
 2), _setsig(lambda v, w: 1004, tgt1), (lambda v: (1005, lambda a, /: 1006))
