import inspect
REG = {}
def tgt(v):
    return v
def _setsig(f, t):
    f.__signature__ = inspect.signature(t)
    return f
REG['l1'], REG['l2'] = _setsig(lambda *a: 1001, tgt), (lambda v: 1002)
