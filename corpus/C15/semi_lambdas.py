REG = {}
REG['l1'] = lambda u: u + 1001; REG['l2'] = lambda v, w: v + w + 1002
counter = 0; REG['l3'] = lambda t: t * 1003; REG['l4'] = lambda s, r=2: s ** r + 1004
REG['l5'] = lambda z: z + 1005; REG['l6'] = lambda z: z + 1006
class C:
    REG['l7'] = lambda u: u + 1007; REG['l8'] = lambda v, w: v + 1008
    x = 1; REG['l9'] = lambda a: 1009
def f1():
    REG['l10'] = lambda u: u + 1010; REG['l11'] = lambda v, w: v + 1011
    return 1
REG['f1'] = f1
f1()
x = 1; REG['l12'] = lambda a: 1012; y = 2
REG['l13'] = (lambda a:
              1013); REG['l14'] = lambda b: 1014
