REG = {}
class C:
    def f1(self):
        s = r"""a\
b"""
        return s
    REG['f1'] = f1
    def f2(self):
        s = """a\\
b"""
        return s
    REG['f2'] = f2
def f3():
    return r'a\
b'
REG['f3'] = f3
