REG = {}
REG['l1'], REG['l2'] = (lambda a, /: 1001), (lambda a: 1002)
