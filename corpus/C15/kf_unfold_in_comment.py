REG = {}
class C:
    def f1(self):
        x = 1  # comment ending in a backslash \
        x = 2
        return x
    REG['f1'] = f1
