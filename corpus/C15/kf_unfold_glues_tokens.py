REG = {}
def f1(a):
    return not\
a
REG['f1'] = f1
def f2(a, b):
    return a and\
b
REG['f2'] = f2
