
 	 

# a file whose first statement is preceded by blank and blanks-only lines; lambdas on consecutive lines
REG = {}
REG['l1'] = lambda u: u + 1001
REG['l2'] = lambda u: u * 1002
REG['l3'] = lambda u, v: u - 1003
REG['l4'] = lambda u: (u,
                       1004)
REG['l5'] = lambda u: 1005
def f1(x):
    REG['l6'] = lambda y: y + 1006
    REG['l7'] = lambda y: y + 1007
    return x
REG['f1'] = f1
f1(0)
_col = [
    lambda a: a + 1008,
    lambda a: a + 1009,

    lambda a: a + 1010,
]
REG['l8'], REG['l9'], REG['l10'] = _col
class C:
    REG['l11'] = lambda self: 1011
    REG['l12'] = lambda self: 1012


