import functools
REG = {}
def scale(v):
    return 2 * v
REG['l1'], REG['l2'] = functools.wraps(scale)(lambda *args, **kwargs: scale(*args, **kwargs) + 1001), (lambda v: v - 1002)
def _setw(f, t):
    f.__wrapped__ = t
    return f
REG['l3'] = _setw(lambda x, y: 1003, scale); REG['l4'] = lambda v: 1004
class C:
    REG['l5'], REG['l6'] = (lambda v: 1005), functools.update_wrapper(lambda: 1006, scale)
