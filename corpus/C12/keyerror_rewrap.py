"""C12 corpus witness (found by an outside tester): a KeyError that crosses TWO malt.convert wrappers.
run() -> [(number of wrappers crossed, exception reaching the caller)]; every one must be a KeyError."""
import malt


def inner(d):
  return d['k']


ci = malt.convert()(inner)


def outer(d):
  return ci(d)


co = malt.convert()(outer)


def run():
  out = []
  for depth, f in ((1, ci), (2, co)):
    try:
      f({})
      out.append((depth, None))
    except Exception as e:  # pylint:disable=broad-except
      out.append((depth, e))
  return out
