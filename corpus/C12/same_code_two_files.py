"""C12 corpus witness: the same function text at the same line in TWO files.  Code objects compare
equal regardless of co_filename and the conversion cache is keyed by the code object, so the second
file's function reuses the first file's generated code and source map: its error is reported with
the FIRST file's name.
KIND = 'alias': run(tmpdir) -> (path of the second file, file names its error report cites)."""
import importlib.util
import os

KIND = 'alias'
TEXT = "def f(d):\n  return d['k']\n"


def _load(tmpdir, name):
  path = os.path.join(tmpdir, name + '.py')
  with open(path, 'w') as fh:
    fh.write(TEXT)
  spec = importlib.util.spec_from_file_location(name, path)
  mod = importlib.util.module_from_spec(spec)
  spec.loader.exec_module(mod)
  return mod, path


def run(tmpdir):
  import malt
  a, a_path = _load(tmpdir, 'c12_same_code_a')
  b, b_path = _load(tmpdir, 'c12_same_code_b')
  cited = []
  for mod in (a, b):
    try:
      malt.convert()(mod.f)({})
    except Exception as e:  # pylint:disable=broad-except
      cited = [fi.filename for fi in e.ag_error_metadata.translated_stack]
  return a_path, b_path, cited
