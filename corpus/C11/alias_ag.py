# decisions: [1]
def f(a, b, c):
    ag__ = T(1)
    if D(2):
        a = T(3, ag__)
    return T(4, a)
