# decisions: [2]
def f(a, b, c):
    vars_ = T(1)
    for i in L(2):
        vars_ = T(3, vars_)
    return T(4, vars_)
