# decisions: [2]
def f(a, b, c):
    return T(1, [T(2, fscope) for fscope in L(3)])
