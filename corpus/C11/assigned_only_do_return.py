# decisions: [3]
def f(a, b, c):
    for i in L(1):
        do_return = T(2)
        if D(3, i):
            return T(4, i)
    return T(5)
