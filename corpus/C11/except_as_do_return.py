# decisions: [1]
def f(a, b, c):
    try:
        raise E0()
    except E0 as do_return:
        if D(2):
            return T(3)
    return T(4)
