# stream: main
# known finding C03 getter-reads-variable-defined-only-inside-earlier-try: the only assignment of w before the first
# `if` sits in an except handler; reaching definitions (a may-analysis) count it as defined on entry, so the `if` gets no
# ag__.Undefined('w') placeholder, and try statements are not functionalised: on the path without the exception
# get_state() of the first if_stmt (state ('w',)) raises NameError.  (w is read after the if, so it is live out of it; decisions [1, 2, ...] take both branches.)
def f(a, b, c, m, o, d, e):
    try:
        x = T(1)
    except E0:
        w = T(2)
    if D(3):
        w = T(4)
    if D(5):
        x = T(7, w)
    return T(8, x)
