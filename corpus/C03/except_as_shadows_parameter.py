# stream: order
# known finding C03 except-as-name-shadows-function-variable: the parameter e is also the name bound by `except E1 as e:`
# inside the `if`.  Activity analysis isolates a handler's name from the enclosing scopes, so e is not among the variables
# the generated if_body declares nonlocal, and the handler clause makes e a fresh LOCAL of if_body: the first statement of
# the try (`e[y] = ...`, e is the caller's dict in the original) raises UnboundLocalError in the converted code, the
# `except Exception` clause catches it, and the inner if_stmt is issued with symbol names ('e[y]', 'y') although e denotes
# no variable there (get_state() yields Undefined('e[y]'), set_state(get_state()) raises NameError).  Decisions [1, 2, ...]
# enter both ifs.
def f(a, b, c, m, o, d, e):
    y = 1
    if D(1):
        try:
            e[y] = T(2, y)
            y = 2
        except E1 as e:
            y = T(3)
        except Exception:
            if D(4):
                e[y] = T(5)
                y = 3
    return T(6, y)
