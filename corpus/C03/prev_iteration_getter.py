# stream: main
# known finding C03 getter-reads-body-local-bound-only-by-previous-iteration (decisions [1, 2, 1, ...]):
# y is neither live into nor out of the `for z` loop (its header-kill / reassignment hides it), so it is a
# local of the generated loop_body of `for z`; it is state of the nested `for y` (read after it), and reaching
# definitions count `y = T(5, z, y)` of the previous z-iteration (and `y = T(1)`) as definitions on entry, so no
# ag__.Undefined placeholder is emitted inside that body: get_state() of the nested for_stmt raises NameError.
def f(a, b, c, m, o, d, e):
    y = T(1)
    for z in L(2):
        for y in L(3):
            y = T(4, y)
        y = T(5, z, y)
    return T(6)
