def f(a, b, c):
    global G
    if P(1, a):
        G = T(2, G)
    return T(3)
