def f(a, b, c):
    w, x = T(1, c, b), T(2, c, c)
    if P(3, a):
        if P(4):
            T(5)
            y = T(6)
        else:
            x = T(7, c)
            return T(8)
        for i9 in R(10):
            T(11, b, w)
            T(12, x)
            x, y = T(13), T(14, w)
        y, z = T(15, a, b), T(16, w)
    else:
        y = T(17, w, c)
    return T(18, y)
