def f(a, b, c):
    i1 = T(900)
    for i1 in R(2):
        if P(3):
            i1 += T(6)
            break
        else:
            T(14, a)
    return T(998, i1)
