def f(a, b, c):
    y = T(3, a)
    for i5 in R(6):
        if P(7, y):
            z = T(8, b)
        else:
            z = T(12, c, i5)
        z += T(14, a)
    return T(16, b, a)
