# decisions: [1, 2, 1, 1]
def f(a, b, c):
    x = T(1)
    def g2():
        return [q3 for q3 in L(4) if D(5, x)]
    if D(6):
        x = T(7, a)
    return g2()
