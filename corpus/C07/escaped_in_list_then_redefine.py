# decisions: [1, 1, 0]
def f(a, b, c):
    x = T(1)
    def g2():
        return T(3, x)
    cb4 = [g2]
    def g2():
        return T(5)
    while D(6):
        x = T(7, x)
    y = cb4[0]()
    return g2()
