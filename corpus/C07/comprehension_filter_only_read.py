# decisions: [1, 2, 1, 1]
def f(a, b, c):
    x = T(1)
    if D(2):
        x = T(3, a)
    y = [q4 for q4 in L(5) if D(6, x, q4)]
    return T(7, y)
