# decisions: [0, 2, 1, 1]
def f(a, b, c):
    x = T(1)
    while D(2):
        x = T(3, x)
    z = sum(T(4, q5) for q5 in L(6) if q5 != x)
    return T(7, z)
