# decisions: [1]
def f(a, b, c):
    x = T(1)
    m2 = lambda: T(3, x)
    if D(4):
        x = T(5)
    return m2()
