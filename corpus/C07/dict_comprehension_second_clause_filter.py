# decisions: [2, 1, 1, 1, 1]
def f(a, b, c):
    x = T(1)
    y = T(2)
    for w in L(3):
        x = T(4, x)
        y = T(5, w)
    z = {T(6, q7): T(8, q9) for q7 in (0, 1) if q7 != x for q9 in [10] if T(11, q9) != y}
    return T(12, z)
