# decisions: [1]
def f(a, b, c):
    x = T(1)
    def g2():
        def g2i():
            nonlocal x
            x += T(3)
            return T(4, x)
        return g2i()
    if D(5):
        x = T(6)
    return g2()
