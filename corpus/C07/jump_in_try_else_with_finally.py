# decisions: [1, 1]
def f(a, b, c):
    x = T(1)
    y = T(2)
    while D(3):
        try:
            T(4, x)
        except E0:
            y = T(5)
        else:
            if D(6):
                y = T(7)
                break
        finally:
            x = T(8)
            w = T(9, y)
        x = T(10)
        w = T(11)
    if D(12):
        w = T(13, x)
    return T(14, x, y)
