# decisions: [0]
def f(a, b, c):
    x = T(1, a)
    def g2():
        return T(3, x)
    def g4():
        return g2()
    def g5():
        nonlocal x
        x = T(6, a)
        while D(7):
            x = T(8)
        r = g4()
        x = T(9)
        return T(10, r)
    return g5()
