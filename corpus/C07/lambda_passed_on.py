# decisions: [2, 1, 1, 0]
def f(a, b, c):
    x = T(1)
    y = T(2)
    g3 = lambda: T(4, x, y)
    cb5 = [g3]
    def g6():
        return cb5[0]()
    for z in L(7):
        if D(8):
            y = T(9, y)
    while D(10):
        x = T(11)
    return g6()
