# decisions: [1, 1]
def f(a, b, c):
    x = T(1)
    if D(2):
        y = T(3)
        z = T(4)
        def g5():
            return T(6, x)
    w = T(7)
    x = T(8)
    w = T(9)
    if D(10):
        w = g5()
    return T(11, w)
