# decisions: [2, 1, 1]
def f(a, b, c):
    x = T(1)
    for x in L(2):
        y = T(3)
        if D(4):
            x = T(5)
        y = T(6)
    return T(7, x)
