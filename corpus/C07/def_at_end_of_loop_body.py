# decisions: [1, 0, 1, 1, 0]
def f(a, b, c):
    x = T(1)
    w = T(2)
    while D(3):
        if D(4):
            w = g5()
        x = T(6, x)
        def g5():
            return T(7, x)
    w = T(8)
    x = T(9)
    w = T(10)
    return g5()
