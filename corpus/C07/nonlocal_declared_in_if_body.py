# decisions: [1, 1]
def f(a, b, c):
    x = T(1)
    def g2():
        if D(3):
            nonlocal x
            x += T(4)
        return T(5, x)
    if D(6):
        x = T(7)
    return g2()
