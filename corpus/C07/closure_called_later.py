# decisions: [1, 2, 0]
def f(a, b, c):
    x = T(1)
    def g2():
        return T(3, x, a)
    if D(4):
        x = T(5)
    for y in L(6):
        x = T(7, x)
    return g2()
