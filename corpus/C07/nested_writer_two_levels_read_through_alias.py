# decisions: [1, 0]
def f(a, b, c):
    x = T(1, a)
    def g2():
        return T(3, x, b)
    h4 = g2
    def g5():
        def g5i():
            nonlocal x
            x = T(6, a)
            for i7 in L(8):
                x = T(9, b)
            r = h4()
            x = T(10)
            return T(11, r)
        return g5i()
    if D(12):
        x = T(13)
    return g5()
