# decisions: [1]
def f(a, b, c):
    w = T(1)
    try:
        try:
            x = T(2, a)
            if D(3):
                raise E2()
        except E1:
            x = T(4)
        x = T(5)
    except E2:
        w = T(6, x)
    return T(7, x, w)
