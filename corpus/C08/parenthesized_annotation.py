def f():
    (u): int
    def g():
        (w): T
        return w
    return u
