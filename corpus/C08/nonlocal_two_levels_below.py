def f(c):
    x = 1
    y = 2
    z = 3
    def h(p):
        def g():
            nonlocal x
            x += 1
            return x
        def ro():
            if p:
                nonlocal y
            else:
                pass
            return y
        def wo():
            def deeper():
                nonlocal z
                z = p
            return deeper
        global gg
        return g() + ro() + gg
    if c:
        x = 5
    return h(c)
