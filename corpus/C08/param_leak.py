def f():
    def g(p: A, *q, r=1):
        pass
    h = lambda s: s
