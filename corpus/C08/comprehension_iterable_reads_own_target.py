def f(node, d):
    kids = [node.tag for node in node.children]
    out = [ROWS + 1 for ROWS in ROWS]
    def inner():
        return {d: 1 for d in d}
    return sum(x for x in x)
