def f():
    tp = 1
    def g(a: (lambda: tp), b, *, c: (lambda q, r=tp: q + r) = 2) -> (lambda s, t=tp: s + t):
        return b
    def h(first, a: (lambda q, r=tp: q + r + tp)):
        return first
    return g, h
