def f():
    h = 1
    def g():
        global h
        return h
    return g
