def f(a):
    nn = 0
    if a:
        global mm
        mm = 1
    else:
        a = 2
    for q in a:
        def g(p):
            while p:
                nonlocal nn
                nn = p
            else:
                p = nn
            try:
                with p:
                    global hh
            finally:
                hh = mm
        g(q)
    return mm + nn
