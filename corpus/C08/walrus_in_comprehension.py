def f(a):
    [(y := t) for t in a]
    return y
