def f(box, key):
    n: int
    m: int = 1
    box.size: int
    registry[key]: int
    box.slots[key2]: str
    holder().attr: T = key
    (k): int = 2
    return n
