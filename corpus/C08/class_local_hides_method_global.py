def f():
    class K:
        x = 1
        def m(self):
            return x
    return K
