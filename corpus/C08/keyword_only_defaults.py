def f(a, step):
    inc = lambda x, /, *rest, by=step, k=(lambda *, z=a: z), **kw: x + by
    @deco(a)
    def g(p, /, *aa, r: ann = step, s=[q for q in (a,)], **kk):
        return p + r
    return inc(1) + g(2) + (lambda *, w=glob: w)()
