def f(rows, k):
    a = [sum(k for k in row) + k for row in rows]
    b = {r: [g for g in r] and g for r in rows if [h for h in r] if h}
    c = list(sum(sum(k for k in q) for q in row) + k for row in rows)
    return a, b, c
