def f(w):
    def y():
        def z():
            nonlocal w
            w = 1
        return z
    return y
