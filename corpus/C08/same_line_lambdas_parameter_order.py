def f(y=list(x for z in z() for w in w.q if w), z=1, *w: (lambda u, y=u: u + y + k)):
    v = v
    def fn1(p0=z):
        def fn2(p1=v):
            def fn3(p2=y):
                nonlocal v
                return v + x
            return fn3
        return fn2()
    return v
    assert z, x[0].q + y
    del y
    x += (lambda y, /, *, v=(lambda *, w=k.p, v, **u: w): ((lambda *y, v=y + v: x) if u[x, x] else x))

