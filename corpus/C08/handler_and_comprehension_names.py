def f(a):
    try:
        x = [t for t in a if t]
    except E as e:
        e = 1
        t = e
    del u
    import os.path as p, sys
    with a as (v, w):
        v.q = w[0] = 2
    return x
