# decisions: []
def f(a, b, c):
    x = H2(*IT(1, a), v=T(2, c))
    y = H2(*IT(3, b))
    return T(4, x, y)
