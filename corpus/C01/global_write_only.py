# decisions: [1]
def f(a, b, c):
    global G
    if D(1):
        G = T(2)
    return T(3)
