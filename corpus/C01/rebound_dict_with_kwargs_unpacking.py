# decisions: []
def f(a, b, c):
    dict = T(1, a)
    kw = {'v': T(2, b)}
    x = H2(a, **kw)
    return T(3, x, dict)
