# decisions: [3]
def f(a, b, c):
    fs = []
    for i in L(1):
        fs.append(lambda: i)
    return T(2, fs[0]() if fs else 0, fs[-1]() if fs else 0)
