# decisions: [1, 1]
def f(a, b, c):
    x = T(1)
    if D(2):
        try:
            if D(3):
                raise E0()
            return T(4, x)
        except E0:
            x = T(5, x)
    x = T(6, x)
    return T(7, x)
