# decisions: [0]
def f(a, b, c):
    """only a docstring"""
