# decisions: [1]
def f(a, b, c):
    try:
        if D(1):
            return T(2)
        x = T(3)
    except E0:
        x = T(4)
    else:
        x = T(5)
    return T(6, x)
