# decisions: [1]
def f(a, b, c):
    class K:
        """K doc"""
        x = 1
        T(1)
        def m(self):
            "m doc"
            return T(2, self.x)
    if D(3):
        return T(4, K().m(), K.__doc__)
    return T(5, K.x)
