# decisions: []
def f(a, b, c):
    x = (T(1) == T(1) == T(3))
    return T(4, x)
