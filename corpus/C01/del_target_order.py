# decisions: []
def f(a, b, c, m, o):
    x = T(1)
    try:
        del m[7], x
    except IndexError:
        return T(2, x)
    return T(3)
