# decisions: [0]
def f(a, b, c):
    if D(1):
        x = T(2)
    del x
    return T(3)
