# decisions: [1]
def f(a, b, c):
    x = T(1, a)
    if D(2):
        del x
    b += T(3, x)
    return T(4, b)
