# decisions: [1]
def f(a, b, c):
    def g():
        ...
    def h():
        "doc"
    if D(1):
        return T(2, g(), h())
    return T(3, h.__doc__)
