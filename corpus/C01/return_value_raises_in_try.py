# decisions: [1]
def f(a, b, c, m, o):
    x = T(1)
    try:
        if D(2):
            return o.missing3
        x = T(4, x)
    except Exception:
        x = T(5, x)
    o.v = T(6, x)
    return T(7, x)
