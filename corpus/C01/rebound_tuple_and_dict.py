# decisions: []
def f(a, b, c):
    dict = T(1, a)
    tuple = T(2, b)
    x = H2(a, v=dict)
    y = H2(*[b, tuple])
    return T(3, x, y)
