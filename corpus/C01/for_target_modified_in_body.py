# decisions: [1, 1, 1]
def f(a, b, c):
    for z in L(1):
        if D(2):
            z = T(3)
    return T(4, z)
