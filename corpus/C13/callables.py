"""Source text of the callable corpus used by the C13 driver.  The text is written to a real file under
the run's TMPDIR (so that inspect can find the source) and executed under several module names
(a user module, an allow-listed name such as `pandas.c13corpus`, a near-miss such as `numpyx`);
every execution gives fresh code objects, so nothing is in malt's conversion cache.

Every callable appends what it received to LOG (invocation counting / binding) and contains a
conditional on its first argument, so that a converted copy fires ag__.if_stmt / ag__.if_exp."""

SOURCE = r'''
import collections
import functools
import unittest

LOG = []


def plain(x, y=2, *rest, **kw):
    LOG.append(('plain', x, y, rest, tuple(sorted(kw.items()))))
    if x > 0:
        r = x + y
    else:
        r = y - x
    return ('plain', r, rest, tuple(sorted(kw.items())))


def kwonly(x, *, y=2, z=3):
    LOG.append(('kwonly', x, y, z))
    if x > 0:
        r = x + y + z
    else:
        r = -1
    return ('kwonly', r)


lam = lambda x, y=2, **kw: (LOG.append(('lam', x, y, tuple(sorted(kw.items())))), ('lam', x + y) if x > 0 else ('lam', y - x))[1]


def gen(x, y=2, **kw):
    LOG.append(('gen', x, y, tuple(sorted(kw.items()))))
    if x > 0:
        yield x
    yield y


def raises(x, y=2, **kw):
    LOG.append(('raises', x, y))
    if x > 0:
        raise KeyError(('boom', x, y))
    return 0


def for_else(x, y=2, **kw):
    LOG.append(('for_else', x, y))
    for i in range(2):
        if x > i:
            y = y + i
    else:
        y = y + 100
    return ('for_else', y)


def closure_maker(base):
    def inner(x, y=2, **kw):
        LOG.append(('inner', base, x, y, tuple(sorted(kw.items()))))
        if x > 0:
            r = base + x + y
        else:
            r = base
        return ('inner', r)
    return inner


def deco(fn):
    @functools.wraps(fn)
    def wrapper(*a, **k):
        LOG.append(('wrapper', a, tuple(sorted(k.items()))))
        if a:
            return ('wrapped', fn(*a, **k))
        return ('wrapped-noargs',)
    return wrapper


@deco
def decorated(x, y=2, **kw):
    LOG.append(('decorated', x, y, tuple(sorted(kw.items()))))
    if x > 0:
        return ('decorated', x + y)
    return ('decorated', y)


@functools.lru_cache(maxsize=None)
def cached(x, y=2):
    LOG.append(('cached', x, y))
    if x > 0:
        return ('cached', x + y)
    return ('cached', y)


class K(object):
    count = 0

    def __init__(self, a=1, **kw):
        LOG.append(('K.__init__', a, tuple(sorted(kw.items()))))
        if a > 0:
            self.a = a
        else:
            self.a = 0

    def meth(self, x, y=2, **kw):
        LOG.append(('K.meth', self.a, x, y, tuple(sorted(kw.items()))))
        if x > 0:
            r = self.a + x + y
        else:
            r = self.a
        return ('meth', r)

    @classmethod
    def cmeth(cls, x, y=2, **kw):
        LOG.append(('K.cmeth', cls.__name__, x, y, tuple(sorted(kw.items()))))
        if x > 0:
            return ('cmeth', cls.__name__, x + y)
        return ('cmeth', cls.__name__, y)

    @staticmethod
    def smeth(x, y=2, **kw):
        LOG.append(('K.smeth', x, y, tuple(sorted(kw.items()))))
        if x > 0:
            return ('smeth', x + y)
        return ('smeth', y)

    def __call__(self, x, y=2, **kw):
        LOG.append(('K.__call__', self.a, x, y, tuple(sorted(kw.items()))))
        if x > 0:
            return ('call', self.a + x + y)
        return ('call', self.a)

    def __eq__(self, other):
        return isinstance(other, K) and other.a == self.a

    def __hash__(self):
        return hash(self.a)

    def __repr__(self):
        return 'K(%r)' % (self.a,)


class Sub(K):
    """user subclass: inherits meth (defining class K), overrides cmeth"""

    @classmethod
    def cmeth(cls, x, y=2, **kw):
        LOG.append(('Sub.cmeth', cls.__name__, x, y))
        if x > 0:
            return ('sub-cmeth', x)
        return ('sub-cmeth', y)


class Unhashable(object):
    __hash__ = None

    def __eq__(self, other):
        return self is other

    def __call__(self, x, y=2, **kw):
        LOG.append(('Unhashable.__call__', x, y, tuple(sorted(kw.items()))))
        if x > 0:
            return ('ucall', x + y)
        return ('ucall', y)


class Slotted(object):
    """no __weakref__: cannot be a key of the allow-list cache"""
    __slots__ = ('a',)

    def __init__(self):
        self.a = 5

    def __call__(self, x, y=2, **kw):
        LOG.append(('Slotted.__call__', x, y))
        if x > 0:
            return ('scall', self.a + x + y)
        return ('scall', y)


class Meta(type):
    def __call__(cls, *a, **k):
        LOG.append(('Meta.__call__', cls.__name__, a, tuple(sorted(k.items()))))
        if a:
            return ('meta', a, tuple(sorted(k.items())))
        return ('meta-none',)


class WithMeta(metaclass=Meta):
    pass


class StaticCall(object):
    @staticmethod
    def __call__(x, y=2, **kw):
        LOG.append(('StaticCall.__call__', x, y))
        if x > 0:
            return ('static-call', x + y)
        return ('static-call', y)


class ClassCall(object):
    @classmethod
    def __call__(cls, x, y=2, **kw):
        LOG.append(('ClassCall.__call__', cls.__name__, x, y))
        if x > 0:
            return ('class-call', cls.__name__, x + y)
        return ('class-call', cls.__name__, y)


class Stack(object):
    """container-like: falsy while empty"""

    def __init__(self, items=()):
        self.items = list(items)

    def __len__(self):
        return len(self.items)

    def push(self, x, y=2, **kw):
        LOG.append(('Stack.push', tuple(self.items), x, y, tuple(sorted(kw.items()))))
        if x > 0:
            self.items.append(x + y)
        else:
            self.items.append(y)
        return ('push', tuple(self.items))


class Falsy(object):
    def __bool__(self):
        return False

    def meth(self, x, y=2, *rest, **kw):
        LOG.append(('Falsy.meth', x, y, rest, tuple(sorted(kw.items()))))
        if x > 0:
            return ('falsy-meth', x + y, rest)
        return ('falsy-meth', y, rest)


class LenMeta(type):
    def __len__(cls):
        return 0


class EmptyRegistry(metaclass=LenMeta):
    """a class that is itself falsy (metaclass __len__): receiver of classmethods"""

    @classmethod
    def make(cls, x, y=2, **kw):
        LOG.append(('EmptyRegistry.make', cls.__name__, x, y, tuple(sorted(kw.items()))))
        if x > 0:
            return ('make', cls.__name__, x + y)
        return ('make', cls.__name__, y)


# ---- callable objects whose == is not identity (the wrapper must never depend on the target's __eq__)
class IntCallable(int):
    """int-like callable: small values equal module constants such as re.M, inspect.CO_NEWLOCALS"""

    def __call__(self, x, y=2, **kw):
        LOG.append(('IntCallable.__call__', int(self), x, y, tuple(sorted(kw.items()))))
        if x > 0:
            return ('intcall', int(self) + x + y)
        return ('intcall', int(self))


class AlwaysEq(object):
    def __eq__(self, other):
        return True

    def __ne__(self, other):
        return False

    def __hash__(self):
        return id(self) >> 4

    def __call__(self, x, y=2, **kw):
        LOG.append(('AlwaysEq.__call__', x, y, tuple(sorted(kw.items()))))
        if x > 0:
            return ('alwayseq', x + y)
        return ('alwayseq', y)


class _Ambiguous(object):
    def __bool__(self):
        raise ValueError('The truth value of an elementwise comparison is ambiguous')


class Elementwise(object):
    """numpy-style: == gives a non-bool whose truth value raises"""
    __hash__ = None

    def __eq__(self, other):
        LOG.append(('Elementwise.__eq__',))
        return _Ambiguous()

    def __call__(self, x, y=2, **kw):
        LOG.append(('Elementwise.__call__', x, y, tuple(sorted(kw.items()))))
        if x > 0:
            return ('elementwise', x + y)
        return ('elementwise', y)


class RaisingEq(object):
    __hash__ = None

    def __eq__(self, other):
        raise RuntimeError('__eq__ must not be called by the call wrapper')

    def __call__(self, x, y=2, **kw):
        LOG.append(('RaisingEq.__call__', x, y))
        if x > 0:
            return ('raisingeq', x + y)
        return ('raisingeq', y)


class RaisingEqHashable(RaisingEq):
    """hashable although == raises (known finding: the weak-key allow-list cache compares the key with itself)"""

    def __hash__(self):
        return id(self) >> 4


def with_self_attr(x, y=2, **kw):
    LOG.append(('with_self_attr', x, y, tuple(sorted(kw.items()))))
    if x > 0:
        return ('wsa', x + y)
    return ('wsa', y)


with_self_attr.__self__ = 7

NT = collections.namedtuple('NT', ['x', 'y'], defaults=(2,))


class NTSub(NT):
    def total(self, z, **kw):
        LOG.append(('NTSub.total', self.x, self.y, z))
        if z > 0:
            return ('total', self.x + self.y + z)
        return ('total', 0)


class Case(unittest.TestCase):
    def helper(self, x, y=2, **kw):
        LOG.append(('Case.helper', x, y))
        if x > 0:
            return ('helper', x + y)
        return ('helper', y)

    def runTest(self):
        pass


_ns = {'LOG': LOG}
exec("""
def execd(x, y=2, **kw):
    LOG.append(('execd', x, y, tuple(sorted(kw.items()))))
    if x > 0:
        return ('execd', x + y)
    return ('execd', y)
""", _ns)
execd = _ns['execd']
evald = eval("lambda x, y=2, **kw: (LOG.append(('evald', x, y)), ('evald', x + y) if x > 0 else ('evald', y))[1]", _ns)


# ---- callers, converted end-to-end (generated code -> ag__.converted_call with a real caller scope)
def call_it(f, a, k):
    if k is None:
        return f(*a)
    return f(*a, **k)


def call_star(f, a, k):
    return f(*a, **k)


def call_fixed(f, p, q):
    return f(p, y=q)


def use_eval(x):
    y = x + 1
    return eval('x + y')


def use_locals_globals(x):
    loc = locals()
    return (loc['x'], 'LOG' in globals())


class Base2(object):
    def who(self, x):
        if x > 0:
            return ('base2', x)
        return ('base2', 0)


class Derived2(Base2):
    def who(self, x):
        r = super().who(x)
        return ('derived2', r)
'''
