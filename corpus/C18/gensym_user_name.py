def fn(a, b, c, d, e, f, g, h, o, p, q, x, y, z):
  tmp_1001 = a(1)
  x = f(b(2))
  return tmp_1001
