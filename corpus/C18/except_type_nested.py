def fn(a, b, c, d, e, f, g, h, o, p, q, x, y, z):
  try:
    x = f(a)
  except g(h(b)).Error:
    pass
  return x
