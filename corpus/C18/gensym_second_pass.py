def fn(a, b, c, d, e, f, g, h, o, p, q, x, y, z):
  tmp_1001 = h(a)
  x = f(tmp_1001, g(b))
  return x
