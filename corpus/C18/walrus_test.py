def fn(a, b, c, d, e, f, g, h, o, p, q, x, y, z):
  if (x := a(5)) > b(x):
    return c(x)
  return (z := a(2)) + c(z)
