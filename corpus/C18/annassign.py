def fn(a, b, c, d, e, f, g, h, o, p, q, x, y, z):
  x: int = f(a(1))
