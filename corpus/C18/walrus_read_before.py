def fn(a, b, c, d, e, f, g, h, o, p, q, x, y, z):
  return y + (y := a(1))
