def fn(a, b, c, d, e, f, g, h, o, p, q, x, y, z):
  a[b('idx')] = c('val')
  return a
