def fn(a, b, c, d, e, f, g, h, o, p, q, x, y, z):
  return f((y := a(1)), b(y))
