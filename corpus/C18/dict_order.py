def fn(a, b, c, d, e, f, g, h, o, p, q, x, y, z):
  return {a(1): b(2), c(3): d(4)}
