def fn(a, b, c, d, e, f, g, h, o, p, q, x, y, z):
  try:
    x = f(a)
    raise x.Error(b)
  except g(c):
    y = d
  except x.Error as e1:
    y = h(e1)
  except o.Error:
    y = p
  return y
