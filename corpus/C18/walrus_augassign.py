def fn(a, b, c, d, e, f, g, h, o, p, q, x, y, z):
  z += ((z := a)).val
  return z
