def fn(a, b, c, d, e, f, g, h, o, p, q, x, y, z):
  return a[b(1):c(2)]
