def fn(a, b, c, d, e, f, g, h, o, p, q, x, y, z):
  tmp_1002 = a(0)
  return g(b(1), c(2), d(3))
