def fn(a, b, c, d, e, f, g, h, o, p, q, x, y, z):
  x = f(a(1), b.m[c], k0=g(d))
  if x.val(y):
    return h(x, -y)
  for q in o(p):
    z += q.n(1)
  return z
