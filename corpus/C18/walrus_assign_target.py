def fn(a, b, c, d, e, f, g, h, o, p, q, x, y, z):
  ((g := b)).val = g
  return g
