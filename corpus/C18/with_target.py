def fn(a, b, c, d, e, f, g, h, o, p, q, x, y, z):
  with a() as b.m:
    pass
  return b
