def fn(a, b, c, d, e, f, g, h, o, p, q, x, y, z):
  if a and b:
    return c(1)
  return d(2)
