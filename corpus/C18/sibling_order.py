def fn(a, b, c, d, e, f, g, h, o, p, q, x, y, z):
  return f(a(1)) + g(b(2))
