(* C04 model (H): a converter pass as a traversal table interpreted over an
   abstract syntax tree, and the pipeline of passes.

   tree      : node kind + children, each child labelled with the field of the
               parent that holds it (a list field contributes one labelled
               child per element).
   action    : what the visit_<Kind> method of one converter class does with a
               node of that kind: which child fields it traverses
               (generic_visit = all), whether it replaces the node (Always /
               Sometimes / Never) and which node kinds the templates reachable
               from that method may introduce.
   pass      : finite table kind -> action (default = ast.NodeTransformer.
               generic_visit: traverse every field, keep the node).
   xform     : the tree transformer denoted by a pass.  Abstraction (stated, and
               validated by the correspondence of tools/props/c04.py): a node
               that is replaced keeps its (visited) children but changes to a
               wrapper kind ("#S" for statement-sorted kinds, "#E" otherwise);
               every kind the method may introduce is attached as a leaf child
               under the pseudo-field "#intro".
   opaque    : a pass may build a node whose list field holds a sequence that is
               not a list (a tuple): ast.NodeTransformer.generic_visit and
               ast.iter_child_nodes enter only lists and nodes, so what such a
               field holds is executed but is reached by no later traversal.
               a_hide lists the fields of the visited node whose content the
               method may place there; xform moves them (after the pass's own
               traversal) under the pseudo-field "#opaque", which no pass visits.
   No proofs in this file. *)
From Coq Require Import List String Bool.
Import ListNotations.
Local Open Scope string_scope.

Definition kind := string.
Definition fname := string.

Inductive tree : Set := Node : kind -> list (fname * tree) -> tree.

Inductive rw : Set := Never | Sometimes | Always.

Record action : Set := mkAction {
  a_all : bool;            (* generic_visit(node): every field is traversed *)
  a_visit : list fname;    (* otherwise: exactly these fields are traversed *)
  a_rw : rw;               (* is the node itself replaced *)
  a_intro : list kind;     (* kinds that templates of this method may introduce *)
  a_hide : list fname      (* fields whose content the method may move into a non-list sequence field *)
}.

Definition pass := list (kind * action).

(* a pass with the (pass, kind, field) triples that are waived for it: guards of
   known findings, see guard_pass below *)
Definition wpass : Set := (pass * list (kind * fname))%type.

Record grammar : Set := mkGrammar {
  g_S : list kind;                      (* statement-sorted kinds *)
  g_stmt_fields : list (kind * fname);  (* fields that may hold statement-sorted nodes *)
  g_fields : list (kind * list fname);  (* node-valued fields of every known kind *)
  g_exempt : list (kind * fname);       (* documented exemptions / outside the class *)
  g_natives : list kind                 (* native overloadable constructs *)
}.

Definition mem (x : string) (l : list string) : bool := existsb (String.eqb x) l.
Definition mem2 (x y : string) (l : list (string * string)) : bool :=
  existsb (fun p => String.eqb x (fst p) && String.eqb y (snd p)) l.

Definition intro_field : fname := "#intro".
Definition opaque_field : fname := "#opaque".
Definition is_wrapper (k : kind) : bool := String.eqb k "#S" || String.eqb k "#E".

Definition isS (G : grammar) (k : kind) : bool := (negb (is_wrapper k) && mem k (g_S G)) || String.eqb k "#S".
Definition wrapper (G : grammar) (k : kind) : kind := if isS G k then "#S" else "#E".
Definition stmt_field (G : grammar) (k : kind) (f : fname) : bool :=
  is_wrapper k || (if String.eqb f intro_field then isS G k else mem2 k f (g_stmt_fields G)).
Definition exempt (G : grammar) (k : kind) (f : fname) : bool :=
  negb (is_wrapper k) && negb (String.eqb f intro_field) && mem2 k f (g_exempt G).
Definition native (G : grammar) (k : kind) : bool := negb (is_wrapper k) && mem k (g_natives G).

Fixpoint fields_of (l : list (kind * list fname)) (k : kind) : option (list fname) :=
  match l with
  | [] => None
  | (k', fs) :: r => if String.eqb k k' then Some fs else fields_of r k
  end.
Definition known_field (G : grammar) (k : kind) (f : fname) : bool :=
  negb (String.eqb f opaque_field) &&
  (is_wrapper k || String.eqb f intro_field ||
   match fields_of (g_fields G) k with Some fs => mem f fs | None => true end).

Definition default_action : action := mkAction true [] Never [] [].
Fixpoint lookup (P : pass) (k : kind) : action :=
  match P with
  | [] => default_action
  | (k', a) :: r => if String.eqb k k' then a else lookup r k
  end.

(* children under "#intro" stand for template material placed around the node;
   they are traversed with the node *)
Definition visits (a : action) (f : fname) : bool :=
  negb (String.eqb f opaque_field) && (a_all a || String.eqb f intro_field || mem f (a_visit a)).
(* where a child held in field f is found after the method has run *)
Definition relabel (a : action) (f : fname) : fname := if mem f (a_hide a) then opaque_field else f.
Definition is_always (a : action) : bool := match a_rw a with Always => true | _ => false end.
Definition leaf (k : kind) : fname * tree := (intro_field, Node k []).

Fixpoint xform (G : grammar) (P : pass) (t : tree) : tree :=
  match t with
  | Node k cs =>
    let a := lookup P k in
    let cs' := map (fun fc => match fc with (f, c) =>
                      if visits a f then (relabel a f, xform G P c) else (relabel a f, c) end) cs in
    Node (if is_always a then wrapper G k else k) (cs' ++ map leaf (a_intro a))
  end.

Fixpoint run_pipeline (G : grammar) (Ps : list wpass) (t : tree) : tree :=
  match Ps with
  | [] => t
  | (P, _) :: r => run_pipeline G r (xform G P t)
  end.

(* ---- observations on trees ------------------------------------------- *)

(* every native construct outside exempt positions is of a kind in A *)
Fixpoint clean (G : grammar) (A : list kind) (t : tree) : bool :=
  match t with
  | Node k cs =>
    (negb (native G k) || mem k A) &&
    forallb (fun fc => match fc with (f, c) => exempt G k f || clean G A c end) cs
  end.
Definition no_native_outside_exemptions (G : grammar) (t : tree) : Prop := clean G [] t = true.

(* kinds of native constructs outside exempt positions (with repetitions) *)
Fixpoint survivors (G : grammar) (t : tree) : list kind :=
  match t with
  | Node k cs =>
    (if native G k then [k] else []) ++
    flat_map (fun fc => match fc with (f, c) => if exempt G k f then [] else survivors G c end) cs
  end.

(* no node of a kind in E anywhere *)
Fixpoint no_kinds (E : list kind) (t : tree) : bool :=
  match t with
  | Node k cs => negb (mem k E) && forallb (fun fc => no_kinds E (snd fc)) cs
  end.

(* no statement-sorted node anywhere *)
Fixpoint pure (G : grammar) (t : tree) : bool :=
  match t with
  | Node k cs => negb (isS G k) && forallb (fun fc => pure G (snd fc)) cs
  end.

(* statement-sorted nodes occur only in statement fields *)
Fixpoint wf (G : grammar) (t : tree) : bool :=
  match t with
  | Node k cs => forallb (fun fc => match fc with (f, c) => if stmt_field G k f then wf G c else pure G c end) cs
  end.

(* nodes of kinds the grammar knows have only fields the grammar knows *)
Fixpoint kf (G : grammar) (t : tree) : bool :=
  match t with
  | Node k cs => forallb (fun fc => match fc with (f, c) => known_field G k f && kf G c end) cs
  end.

(* ---- the decidable discipline ---------------------------------------- *)

Definition elims (G : grammar) (P : pass) : list kind :=
  filter (fun k => is_always (lookup P k) && native G k) (map fst P).
Definition intros (P : pass) : list kind := flat_map (fun ka => a_intro (snd ka)) P.
Definition next_live (G : grammar) (P : pass) (A : list kind) : list kind :=
  filter (fun k => negb (mem k (elims G P))) A ++ filter (native G) (intros P).

(* guard of the waivers of one pass: below a waived (kind, field) there is no
   construct this pass eliminates *)
Fixpoint guard_pass (W : list (kind * fname)) (E : list kind) (t : tree) : bool :=
  match t with
  | Node k cs =>
    forallb (fun fc => match fc with (f, c) =>
       (if mem2 k f W then no_kinds E c else true) && guard_pass W E c end) cs
  end.
Fixpoint guard (G : grammar) (Ps : list wpass) (t : tree) : bool :=
  match Ps with
  | [] => true
  | (P, W) :: r => guard_pass W (elims G P) t && guard G r (xform G P t)
  end.

(* is leaving field f of kind k untraversed harmless for a pass eliminating E *)
Definition skip_ok (G : grammar) (W : list (kind * fname)) (E : list kind) (wfk : bool) (k : kind) (f : fname) : bool :=
  exempt G k f || mem2 k f W ||
  (wfk && negb (stmt_field G k f) && forallb (isS G) E).

Definition entry_ok (G : grammar) (W : list (kind * fname)) (E : list kind) (wfk : bool) (ka : kind * action) : bool :=
  let (k, a) := ka in
  negb (is_wrapper k) &&
  (* nothing is moved out of the reach of the later passes *)
  match a_hide a with [] => true | _ => false end &&
  (* traversal *)
  (a_all a || match E with [] => true | _ => false end ||
   match fields_of (g_fields G) k with
   | Some fs => forallb (fun f => mem f (a_visit a) || skip_ok G W E wfk k f) fs
   | None => false
   end) &&
  (* a replaced node has no exempt field (its children move to non-exempt positions) *)
  (negb (is_always a) || forallb (fun kf => negb (String.eqb k (fst kf))) (g_exempt G)).

Definition hides_nothing (P : pass) : bool :=
  forallb (fun ka => match a_hide (snd ka) with [] => true | _ => false end) P.

Definition pass_ok (G : grammar) (W : list (kind * fname)) (wfk : bool) (P : pass) : bool :=
  forallb (entry_ok G W (elims G P) wfk) P.

(* the pass keeps "no statement below an expression" and "only fields the grammar knows" (the opaque
   pseudo-field is not one) *)
Definition preserves_sorts (G : grammar) (P : pass) : bool :=
  hides_nothing P &&
  forallb (fun ka => isS G (fst ka) || forallb (fun i => negb (isS G i)) (a_intro (snd ka))) P.

Fixpoint pipeline_ok (G : grammar) (Ps : list wpass) (A : list kind) (wfk : bool) : bool :=
  match Ps with
  | [] => forallb (fun k => negb (native G k)) A
  | (P, W) :: r => pass_ok G W wfk P && pipeline_ok G r (next_live G P A) (wfk && preserves_sorts G P)
  end.

Definition table_ok (G : grammar) (Ps : list wpass) : bool :=
  pipeline_ok G Ps (g_natives G) true.

(* the unjustified skipped fields of a pipeline: (pass index, kind, field) *)
Definition entry_gaps (G : grammar) (W : list (kind * fname)) (E : list kind) (wfk : bool) (ka : kind * action) : list (kind * fname) :=
  let (k, a) := ka in
  if a_all a || match E with [] => true | _ => false end then [] else
  match fields_of (g_fields G) k with
  | Some fs => map (fun f => (k, f)) (filter (fun f => negb (mem f (a_visit a) || skip_ok G W E wfk k f)) fs)
  | None => [(k, "?")]
  end.
Fixpoint gaps (G : grammar) (Ps : list wpass) (wfk : bool) (i : nat) : list (nat * (kind * fname)) :=
  match Ps with
  | [] => []
  | (P, W) :: r => map (fun g => (i, g)) (flat_map (entry_gaps G W (elims G P) wfk) P)
                   ++ gaps G r (wfk && preserves_sorts G P) (S i)
  end.
