(* C01 / C04: ordering constraints between conversion passes, as a decidable predicate over the
   pass list generated from PyToPy.transform_ast. *)
From Coq Require Import List String Bool Arith.
Import ListNotations.
Local Open Scope string_scope.

Definition pipeline := list (string * option string).

Fixpoint index_of (p : string) (P : pipeline) : option nat :=
  match P with
  | [] => None
  | (q, _) :: r => if String.eqb p q then Some 0 else option_map S (index_of p r)
  end.

(* a must run, ungated, strictly before b *)
Definition before (P : pipeline) (a b : string) : bool :=
  match index_of a P, index_of b P with
  | Some i, Some j => Nat.ltb i j
  | _, _ => false
  end.
Definition ungated (P : pipeline) (a : string) : bool :=
  existsb (fun e => String.eqb (fst e) a && match snd e with None => true | Some _ => false end) P.

(* why each constraint is needed:
   break < continue     the break template emits `continue`
   break/continue/return < control_flow   functionalised bodies cannot contain jumps
   functions < return   the return pass wraps the body of the `with FunctionScope` statement
   control_flow < conditional_expressions / logical_expressions / variables
                        tests and bodies created by control_flow contain user expressions that still
                        have to be routed through if_exp / and_ / or_ / not_ / ld *)
Definition constraints : list (string * string) :=
  [ ("break_statements", "continue_statements");
    ("break_statements", "control_flow"); ("continue_statements", "control_flow");
    ("return_statements", "control_flow"); ("functions", "return_statements");
    ("control_flow", "conditional_expressions"); ("control_flow", "logical_expressions");
    ("control_flow", "variables"); ("call_trees", "variables") ].

Definition core_passes : list string :=
  ["functions"; "break_statements"; "continue_statements"; "return_statements"; "call_trees";
   "control_flow"; "conditional_expressions"; "logical_expressions"; "variables"].

Definition order_ok (P : pipeline) : bool :=
  forallb (fun c => before P (fst c) (snd c)) constraints && forallb (ungated P) core_passes.

Lemma order_ok_before P a b : order_ok P = true -> In (a, b) constraints ->
  exists i j, index_of a P = Some i /\ index_of b P = Some j /\ i < j.
Proof.
  unfold order_ok; intros H Hin. apply andb_true_iff in H; destruct H as [H _].
  rewrite forallb_forall in H. specialize (H _ Hin). unfold before in H; simpl in H.
  destruct (index_of a P) as [i|]; [|discriminate]. destruct (index_of b P) as [j|]; [|discriminate].
  exists i, j. repeat split; try reflexivity. apply Nat.ltb_lt; exact H.
Qed.

Lemma order_ok_ungated P a : order_ok P = true -> In a core_passes -> ungated P a = true.
Proof.
  unfold order_ok; intros H Hin. apply andb_true_iff in H; destruct H as [_ H].
  rewrite forallb_forall in H. apply H, Hin.
Qed.
