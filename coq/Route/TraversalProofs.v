(* C04: lemmas about the traversal model.  Main result: table_sound. *)
From Coq Require Import List String Bool.
Import ListNotations.
Require Import MV.Route.Traversal.
Local Open Scope string_scope.

Section TreeInd.
  Variable P : tree -> Prop.
  Hypothesis H : forall k cs, Forall (fun fc => P (snd fc)) cs -> P (Node k cs).
  Fixpoint tree_ind' (t : tree) : P t :=
    match t with
    | Node k cs => H k cs
        ((fix go (l : list (fname * tree)) : Forall (fun fc => P (snd fc)) l :=
            match l with
            | [] => Forall_nil _
            | fc :: r => Forall_cons fc (tree_ind' (snd fc)) (go r)
            end) cs)
    end.
End TreeInd.

Lemma mem_In : forall x l, mem x l = true <-> In x l.
Proof.
  unfold mem; intros; rewrite existsb_exists; split.
  - intros [y [Hy He]]. apply String.eqb_eq in He. subst; auto.
  - intros Hi. exists x. split; auto. apply String.eqb_refl.
Qed.

Lemma forallb_In : forall (A : Type) (f : A -> bool) l x, forallb f l = true -> In x l -> f x = true.
Proof. intros A f l x Hf Hi. rewrite forallb_forall in Hf. auto. Qed.

Lemma is_wrapper_wrapper : forall G k, is_wrapper (wrapper G k) = true.
Proof. intros; unfold wrapper; destruct (isS G k); reflexivity. Qed.

Lemma native_wrapper : forall G k, native G (wrapper G k) = false.
Proof. intros; unfold native; rewrite is_wrapper_wrapper; reflexivity. Qed.

Lemma exempt_wrapper : forall G k f, exempt G (wrapper G k) f = false.
Proof. intros; unfold exempt; rewrite is_wrapper_wrapper; reflexivity. Qed.

Lemma exempt_intro : forall G k, exempt G k intro_field = false.
Proof. intros; unfold exempt. rewrite String.eqb_refl. rewrite andb_false_r. reflexivity. Qed.

(* ---- lookup ----------------------------------------------------------- *)
Lemma lookup_cases : forall P k, lookup P k = default_action \/ In (k, lookup P k) P.
Proof.
  induction P as [|[k' a] r IH]; intros k; simpl; auto.
  destruct (String.eqb k k') eqn:E.
  - apply String.eqb_eq in E; subst; auto.
  - destruct (IH k); auto.
Qed.

(* ---- clean ------------------------------------------------------------ *)
Lemma clean_init : forall G t, clean G (g_natives G) t = true.
Proof.
  intros G; induction t as [k cs IH] using tree_ind'; simpl.
  apply andb_true_iff; split.
  - unfold native. destruct (is_wrapper k); simpl; auto.
    destruct (mem k (g_natives G)); auto.
  - apply forallb_forall. intros [f c] Hi. rewrite Forall_forall in IH.
    specialize (IH _ Hi). simpl in IH. rewrite IH. apply orb_true_r.
Qed.

Lemma clean_weaken : forall G A A' E,
  (forall x, native G x = true -> mem x A = true -> mem x E = false -> mem x A' = true) ->
  forall t, clean G A t = true -> no_kinds E t = true -> clean G A' t = true.
Proof.
  intros G A A' E HA; induction t as [k cs IH] using tree_ind'; simpl; intros Hc Hn.
  apply andb_true_iff in Hc; destruct Hc as [Hk Hcs].
  apply andb_true_iff in Hn; destruct Hn as [Hnk Hncs].
  apply andb_true_iff; split.
  - destruct (native G k) eqn:En; simpl in *; auto.
    apply HA; auto. apply negb_true_iff in Hnk; auto.
  - apply forallb_forall. intros [f c] Hi. rewrite Forall_forall in IH.
    pose proof (forallb_In _ _ _ _ Hcs Hi) as H1; simpl in H1.
    pose proof (forallb_In _ _ _ _ Hncs Hi) as H2; simpl in H2.
    destruct (exempt G k f); simpl in *; auto.
    apply (IH _ Hi); auto.
Qed.

Lemma clean_final : forall G A, forallb (fun k => negb (native G k)) A = true ->
  forall t, clean G A t = true -> clean G [] t = true.
Proof.
  intros G A HA t Hc. apply clean_weaken with (A := A) (E := []); auto.
  - intros x Hn Hm _. apply mem_In in Hm. pose proof (forallb_In _ _ _ _ HA Hm) as H1; simpl in H1.
    rewrite Hn in H1; discriminate.
  - clear. induction t as [k cs IH] using tree_ind'; simpl.
    apply forallb_forall. intros fc Hi. rewrite Forall_forall in IH. auto.
Qed.

Lemma no_kinds_nil : forall t, no_kinds [] t = true.
Proof.
  induction t as [k cs IH] using tree_ind'; simpl.
  apply forallb_forall. intros fc Hi. rewrite Forall_forall in IH. auto.
Qed.

(* ---- sorts ------------------------------------------------------------ *)
Lemma pure_no_kinds : forall G E, forallb (isS G) E = true ->
  forall t, pure G t = true -> no_kinds E t = true.
Proof.
  intros G E HE; induction t as [k cs IH] using tree_ind'; simpl; intros Hp.
  apply andb_true_iff in Hp; destruct Hp as [Hk Hcs].
  apply andb_true_iff; split.
  - destruct (mem k E) eqn:Em; auto. apply mem_In in Em.
    pose proof (forallb_In _ _ _ _ HE Em) as H1; simpl in H1. rewrite H1 in Hk; discriminate.
  - apply forallb_forall. intros fc Hi. rewrite Forall_forall in IH.
    apply (IH _ Hi). apply (forallb_In _ _ _ _ Hcs Hi).
Qed.

Lemma pure_wf : forall G t, pure G t = true -> wf G t = true.
Proof.
  intros G; induction t as [k cs IH] using tree_ind'; simpl; intros Hp.
  apply andb_true_iff in Hp; destruct Hp as [Hk Hcs].
  apply forallb_forall. intros [f c] Hi. rewrite Forall_forall in IH.
  pose proof (forallb_In _ _ _ _ Hcs Hi) as H1; simpl in H1.
  destruct (stmt_field G k f); auto. apply (IH _ Hi); auto.
Qed.

Lemma isS_wrapper : forall G k, isS G (wrapper G k) = isS G k.
Proof.
  intros; unfold wrapper. destruct (isS G k) eqn:E; unfold isS; simpl; reflexivity.
Qed.

Lemma stmt_field_wrapper : forall G k f, stmt_field G (wrapper G k) f = true.
Proof. intros; unfold stmt_field; rewrite is_wrapper_wrapper; reflexivity. Qed.

Lemma known_field_wrapper : forall G k f, known_field G (wrapper G k) f = negb (String.eqb f opaque_field).
Proof. intros; unfold known_field; rewrite is_wrapper_wrapper; simpl; apply andb_true_r. Qed.

Lemma known_field_not_opaque : forall G k f, known_field G k f = true -> String.eqb f opaque_field = false.
Proof. intros G k f H. unfold known_field in H. apply andb_true_iff in H. destruct H as [H _].
  apply negb_true_iff in H; exact H. Qed.

(* ---- nothing hidden: relabel is the identity -------------------------- *)
Lemma hides_nothing_lookup : forall P k, hides_nothing P = true -> a_hide (lookup P k) = [].
Proof.
  intros P k H. destruct (lookup_cases P k) as [Hd | Hi].
  - rewrite Hd; reflexivity.
  - pose proof (forallb_In _ _ _ _ H Hi) as H1; simpl in H1.
    destruct (a_hide (lookup P k)); [reflexivity | discriminate].
Qed.

Lemma relabel_id : forall P k f, hides_nothing P = true -> relabel (lookup P k) f = f.
Proof. intros P k f H. unfold relabel. rewrite (hides_nothing_lookup P k H). reflexivity. Qed.

Lemma preserves_hides : forall G P, preserves_sorts G P = true -> hides_nothing P = true.
Proof. intros G P H. unfold preserves_sorts in H. apply andb_true_iff in H. tauto. Qed.

Lemma preserves_entry : forall G P k, preserves_sorts G P = true ->
  isS G k = false -> forallb (fun i => negb (isS G i)) (a_intro (lookup P k)) = true.
Proof.
  intros G P k HP Hk. unfold preserves_sorts in HP. apply andb_true_iff in HP. destruct HP as [_ HP].
  destruct (lookup_cases P k) as [Hd | Hi].
  - rewrite Hd; reflexivity.
  - pose proof (forallb_In _ _ _ _ HP Hi) as H1; simpl in H1. rewrite Hk in H1; simpl in H1; auto.
Qed.

Lemma xform_pure : forall G P, preserves_sorts G P = true ->
  forall t, pure G t = true -> pure G (xform G P t) = true.
Proof.
  intros G P HP; induction t as [k cs IH] using tree_ind'; simpl; intros Hp.
  apply andb_true_iff in Hp; destruct Hp as [Hk Hcs].
  apply negb_true_iff in Hk.
  apply andb_true_iff; split.
  - destruct (is_always (lookup P k)); [rewrite isS_wrapper|]; rewrite Hk; reflexivity.
  - rewrite forallb_app. apply andb_true_iff; split.
    + rewrite forallb_forall. intros fc' Hi'. apply in_map_iff in Hi'.
      destruct Hi' as [[f c] [He Hi]]. rewrite Forall_forall in IH.
      pose proof (forallb_In _ _ _ _ Hcs Hi) as H1; simpl in H1.
      destruct (visits (lookup P k) f); subst fc'; simpl; auto. apply (IH _ Hi); auto.
    + pose proof (preserves_entry G P k HP Hk) as Hin.
      rewrite forallb_forall. intros fc' Hi'. apply in_map_iff in Hi'.
      destruct Hi' as [i [He Hi]]. subst fc'. simpl.
      pose proof (forallb_In _ _ _ _ Hin Hi) as H1; simpl in H1. rewrite H1; reflexivity.
Qed.

Lemma xform_wf : forall G P, preserves_sorts G P = true ->
  forall t, wf G t = true -> wf G (xform G P t) = true.
Proof.
  intros G P HP; induction t as [k cs IH] using tree_ind'; simpl; intros Hw.
  rewrite forallb_app. apply andb_true_iff; split.
  - rewrite forallb_forall. intros fc' Hi'. apply in_map_iff in Hi'.
    destruct Hi' as [[f c] [He Hi]]. rewrite Forall_forall in IH.
    rewrite (relabel_id P k f (preserves_hides G P HP)) in He.
    pose proof (forallb_In _ _ _ _ Hw Hi) as H1; simpl in H1.
    assert (Hc : (if stmt_field G k f then wf G c else pure G c) = true ->
                 forall c', (c' = c \/ c' = xform G P c) ->
                 (if stmt_field G k f then wf G c' else pure G c') = true).
    { intros H2 c' [Hc' | Hc']; subst c'; auto.
      destruct (stmt_field G k f); [apply (IH _ Hi); auto | apply xform_pure; auto]. }
    destruct (is_always (lookup P k)).
    + (* wrapper: every field is a statement field *)
      assert (Hw' : forall c', (c' = c \/ c' = xform G P c) -> wf G c' = true).
      { intros c' Hc'. specialize (Hc H1 c' Hc'). destruct (stmt_field G k f); auto. apply pure_wf; auto. }
      destruct (visits (lookup P k) f); subst fc'; rewrite stmt_field_wrapper; apply Hw'; auto.
    + destruct (visits (lookup P k) f); subst fc'; apply Hc; auto.
  - rewrite forallb_forall. intros fc' Hi'. apply in_map_iff in Hi'.
    destruct Hi' as [i [He Hi]]. subst fc'. simpl.
    destruct (is_always (lookup P k)).
    + rewrite stmt_field_wrapper. reflexivity.
    + unfold stmt_field. unfold intro_field. rewrite String.eqb_refl.
      destruct (is_wrapper k); simpl; auto.
      destruct (isS G k) eqn:Ek; auto.
      pose proof (preserves_entry G P k HP Ek) as Hin.
      pose proof (forallb_In _ _ _ _ Hin Hi) as H1; simpl in H1. rewrite H1; reflexivity.
Qed.

Lemma xform_kf : forall G P, hides_nothing P = true -> forall t, kf G t = true -> kf G (xform G P t) = true.
Proof.
  intros G P HP; induction t as [k cs IH] using tree_ind'; simpl; intros Hw.
  rewrite forallb_app. apply andb_true_iff; split.
  - rewrite forallb_forall. intros fc' Hi'. apply in_map_iff in Hi'.
    destruct Hi' as [[f c] [He Hi]]. rewrite Forall_forall in IH.
    rewrite (relabel_id P k f HP) in He.
    pose proof (forallb_In _ _ _ _ Hw Hi) as H1; simpl in H1.
    apply andb_true_iff in H1; destruct H1 as [H1 H2].
    pose proof (known_field_not_opaque _ _ _ H1) as Hno.
    assert (Hc : forall c', (c' = c \/ c' = xform G P c) -> kf G c' = true).
    { intros c' [Hc' | Hc']; subst c'; auto. apply (IH _ Hi); auto. }
    destruct (is_always (lookup P k));
      destruct (visits (lookup P k) f); subst fc'; try rewrite known_field_wrapper; try rewrite Hno;
      try rewrite H1; simpl; apply Hc; auto.
  - rewrite forallb_forall. intros fc' Hi'. apply in_map_iff in Hi'.
    destruct Hi' as [i [He Hi]]. subst fc'. simpl.
    rewrite andb_true_r.
    destruct (is_always (lookup P k)); [rewrite known_field_wrapper; reflexivity|].
    unfold known_field, intro_field. rewrite String.eqb_refl. rewrite orb_true_r. reflexivity.
Qed.

Lemma pass_ok_hides : forall G W wfk P, pass_ok G W wfk P = true -> hides_nothing P = true.
Proof.
  intros G W wfk P H. unfold pass_ok in H. unfold hides_nothing.
  apply forallb_forall. intros [k a] Hi. pose proof (forallb_In _ _ _ _ H Hi) as H1.
  unfold entry_ok in H1. simpl.
  destruct (a_hide a); [reflexivity|].
  rewrite andb_false_r in H1. simpl in H1. discriminate.
Qed.

(* ---- one pass --------------------------------------------------------- *)
Lemma next_live_keep : forall G P A x,
  mem x A = true -> mem x (elims G P) = false -> mem x (next_live G P A) = true.
Proof.
  intros. apply mem_In. unfold next_live. apply in_or_app. left.
  apply filter_In. split. - apply mem_In; auto. - rewrite H0; reflexivity.
Qed.

Lemma next_live_intro : forall G P A k a i,
  In (k, a) P -> In i (a_intro a) -> native G i = true -> mem i (next_live G P A) = true.
Proof.
  intros. apply mem_In. unfold next_live. apply in_or_app. right.
  apply filter_In. split; auto. unfold intros. apply in_flat_map. exists (k, a); auto.
Qed.

Lemma elims_always : forall G P k, mem k (elims G P) = true -> is_always (lookup P k) = true.
Proof.
  intros G P k H. apply mem_In in H. unfold elims in H. apply filter_In in H.
  destruct H as [_ H]. apply andb_true_iff in H. tauto.
Qed.

Lemma mem2_false : forall k f l, forallb (fun kf : string * string => negb (String.eqb k (fst kf))) l = true ->
  mem2 k f l = false.
Proof.
  intros k f l H. unfold mem2. destruct (existsb _ l) eqn:E; auto.
  apply existsb_exists in E. destruct E as [p [Hi Hp]].
  pose proof (forallb_In _ _ _ _ H Hi) as H1; simpl in H1.
  apply andb_true_iff in Hp. destruct Hp as [Hp _]. rewrite Hp in H1. discriminate.
Qed.

Lemma xform_clean : forall G W wfk P A,
  pass_ok G W wfk P = true ->
  forall t, (wfk = true -> wf G t = true) -> kf G t = true ->
    guard_pass W (elims G P) t = true -> clean G A t = true ->
    clean G (next_live G P A) (xform G P t) = true.
Proof.
  intros G W wfk P A HP.
  assert (HA : forall x, native G x = true -> mem x A = true -> mem x (elims G P) = false ->
               mem x (next_live G P A) = true).
  { intros; apply next_live_keep; auto. }
  pose proof (pass_ok_hides _ _ _ _ HP) as Hnh.
  induction t as [k cs IH] using tree_ind'; intros Hwf Hkf Hg Hc.
  rewrite Forall_forall in IH.
  simpl in Hkf, Hg, Hc. apply andb_true_iff in Hc; destruct Hc as [Hck Hccs].
  simpl. set (a := lookup P k) in *.
  (* facts about the action *)
  assert (Htrav : forall f c, In (f, c) cs -> visits a f = false -> exempt G k f = false ->
                  no_kinds (elims G P) c = true).
  { intros f c Hi Hv He.
    pose proof (forallb_In _ _ _ _ Hkf Hi) as Hk1; simpl in Hk1.
    apply andb_true_iff in Hk1; destruct Hk1 as [Hk1 _].
    pose proof (known_field_not_opaque _ _ _ Hk1) as Hno.
    unfold visits in Hv. rewrite Hno in Hv. simpl in Hv.
    pose proof (lookup_cases P k) as Hl; fold a in Hl; destruct Hl as [Hd | Hin].
    - rewrite Hd in Hv. discriminate.
    - pose proof (forallb_In _ _ _ _ HP Hin) as He0. unfold entry_ok in He0.
      apply andb_true_iff in He0; destruct He0 as [He0 _].
      apply andb_true_iff in He0; destruct He0 as [Hnw Ht].
      apply andb_true_iff in Hnw; destruct Hnw as [Hnw _].
      apply orb_false_iff in Hv; destruct Hv as [Hv Hv3].
      apply orb_false_iff in Hv; destruct Hv as [Hv1 Hv2].
      rewrite Hv1 in Ht. simpl in Ht.
      destruct (elims G P) as [|e0 er] eqn:EE; [apply no_kinds_nil|]. rewrite <- EE in *.
      simpl in Ht.
      unfold known_field in Hk1. apply negb_true_iff in Hnw. rewrite Hnw, Hv2, Hno in Hk1. simpl in Hk1.
      destruct (fields_of (g_fields G) k) as [fs|]; [|discriminate].
      apply mem_In in Hk1. pose proof (forallb_In _ _ _ _ Ht Hk1) as H2; simpl in H2.
      rewrite Hv3 in H2. simpl in H2. unfold skip_ok in H2. rewrite He in H2. simpl in H2.
      pose proof (forallb_In _ _ _ _ Hg Hi) as Hg1; simpl in Hg1.
      apply andb_true_iff in Hg1; destruct Hg1 as [Hg1 _].
      destruct (mem2 k f W); [exact Hg1|]. simpl in H2.
      apply andb_true_iff in H2; destruct H2 as [H2 HS].
      apply andb_true_iff in H2; destruct H2 as [Hwk Hsf].
      specialize (Hwf Hwk). simpl in Hwf.
      pose proof (forallb_In _ _ _ _ Hwf Hi) as Hw1; simpl in Hw1.
      apply negb_true_iff in Hsf. rewrite Hsf in Hw1.
      apply pure_no_kinds with (G := G); auto. }
  assert (Hex : is_always a = true -> forall f, exempt G k f = false).
  { intros Hal f. pose proof (lookup_cases P k) as Hl; fold a in Hl; destruct Hl as [Hd | Hin].
    - rewrite Hd in Hal; discriminate.
    - pose proof (forallb_In _ _ _ _ HP Hin) as He0. unfold entry_ok in He0.
      apply andb_true_iff in He0; destruct He0 as [_ He0].
      rewrite Hal in He0; simpl in He0.
      unfold exempt. rewrite (mem2_false _ _ _ He0). apply andb_false_r. }
  assert (Hint : forall i, In i (a_intro a) -> native G i = true -> mem i (next_live G P A) = true).
  { intros i Hi Hn. pose proof (lookup_cases P k) as Hl; fold a in Hl; destruct Hl as [Hd | Hin].
    - rewrite Hd in Hi; destruct Hi.
    - eapply next_live_intro; eauto. }
  (* children, as a property of every (old) child *)
  assert (Hch : forall f c, In (f, c) cs -> exempt G k f = false ->
            clean G (next_live G P A) (if visits a f then xform G P c else c) = true).
  { intros f c Hi He.
    pose proof (forallb_In _ _ _ _ Hccs Hi) as H1; simpl in H1. rewrite He in H1; simpl in H1.
    pose proof (forallb_In _ _ _ _ Hkf Hi) as H2; simpl in H2.
    apply andb_true_iff in H2; destruct H2 as [_ H2].
    pose proof (forallb_In _ _ _ _ Hg Hi) as H3; simpl in H3.
    apply andb_true_iff in H3; destruct H3 as [_ H3].
    destruct (visits a f) eqn:Ev.
    - apply (IH _ Hi); simpl; [ | exact H2 | exact H3 | exact H1].
      intros Hwk. specialize (Hwf Hwk). simpl in Hwf.
      pose proof (forallb_In _ _ _ _ Hwf Hi) as H4; simpl in H4.
      destruct (stmt_field G k f); auto. apply pure_wf; auto.
    - apply clean_weaken with (A := A) (E := elims G P); [exact HA | exact H1 | apply (Htrav f c Hi Ev He)]. }
  apply andb_true_iff; split.
  - (* the node itself *)
    destruct (is_always a) eqn:Eal.
    + rewrite native_wrapper. reflexivity.
    + destruct (native G k) eqn:En; simpl in *; auto.
      apply HA; auto. destruct (mem k (elims G P)) eqn:Em; auto.
      apply elims_always in Em. fold a in Em. congruence.
  - rewrite forallb_app. apply andb_true_iff; split.
    + rewrite forallb_forall. intros fc' Hi'. apply in_map_iff in Hi'.
      destruct Hi' as [[f c] [He Hi]].
      unfold a in He. rewrite (relabel_id P k f Hnh) in He. fold a in He.
      destruct (is_always a) eqn:Eal.
      * specialize (Hch f c Hi (Hex eq_refl f)).
        destruct (visits a f); subst fc'; rewrite exempt_wrapper; simpl; exact Hch.
      * destruct (exempt G k f) eqn:Ee.
        -- destruct (visits a f); subst fc'; rewrite Ee; reflexivity.
        -- specialize (Hch f c Hi Ee).
           destruct (visits a f); subst fc'; rewrite Ee; simpl; exact Hch.
    + rewrite forallb_forall. intros fc' Hi'. apply in_map_iff in Hi'.
      destruct Hi' as [i [He Hi]]. subst fc'. unfold leaf.
      assert (Hl : clean G (next_live G P A) (Node i []) = true).
      { simpl. rewrite andb_true_r. destruct (native G i) eqn:En; simpl; auto. }
      destruct (is_always a); [rewrite exempt_wrapper | rewrite exempt_intro]; simpl; exact Hl.
Qed.

(* ---- the pipeline ----------------------------------------------------- *)
Lemma pipeline_sound : forall G Ps A wfk t,
  pipeline_ok G Ps A wfk = true ->
  (wfk = true -> wf G t = true) -> kf G t = true -> guard G Ps t = true ->
  clean G A t = true ->
  clean G [] (run_pipeline G Ps t) = true.
Proof.
  intros G; induction Ps as [|[P W] r IH]; intros A wfk t Hok Hwf Hkf Hg Hc; simpl in *.
  - eapply clean_final; eauto.
  - apply andb_true_iff in Hok; destruct Hok as [Hp Hr].
    apply andb_true_iff in Hg; destruct Hg as [Hg1 Hg2].
    apply (IH (next_live G P A) (wfk && preserves_sorts G P)); auto.
    + intros H. apply andb_true_iff in H; destruct H as [H1 H2].
      apply xform_wf; auto.
    + apply xform_kf; auto. eapply pass_ok_hides; eauto.
    + eapply xform_clean; eauto.
Qed.

Theorem table_sound : forall G Ps, table_ok G Ps = true ->
  forall p, wf G p = true -> kf G p = true -> guard G Ps p = true ->
  no_native_outside_exemptions G (run_pipeline G Ps p).
Proof.
  intros G Ps Hok p Hwf Hkf Hg. unfold no_native_outside_exemptions.
  eapply pipeline_sound; eauto. apply clean_init.
Qed.

(* with no waivers the guard is trivially true *)
Lemma guard_pass_nil : forall E t, guard_pass [] E t = true.
Proof.
  intros E; induction t as [k cs IH] using tree_ind'; simpl.
  apply forallb_forall. intros [f c] Hi. rewrite Forall_forall in IH. simpl. apply (IH _ Hi).
Qed.

Definition unwaived (Ps : list wpass) : bool := forallb (fun pw => match snd pw with [] => true | _ => false end) Ps.

Lemma guard_unwaived : forall G Ps, unwaived Ps = true -> forall t, guard G Ps t = true.
Proof.
  intros G; induction Ps as [|[P W] r IH]; intros H t; simpl in *; auto.
  apply andb_true_iff in H; destruct H as [H1 H2]. destruct W; [|discriminate].
  rewrite guard_pass_nil. simpl. auto.
Qed.

Theorem table_sound_unwaived : forall G Ps, unwaived Ps = true -> table_ok G Ps = true ->
  forall p, wf G p = true -> kf G p = true ->
  no_native_outside_exemptions G (run_pipeline G Ps p).
Proof. intros. apply table_sound; auto. apply guard_unwaived; auto. Qed.

(* survivors = [] is the same observation as clean [] *)
Lemma survivors_clean : forall G t, survivors G t = [] <-> clean G [] t = true.
Proof.
  intros G; induction t as [k cs IH] using tree_ind'; simpl. rewrite Forall_forall in IH.
  split.
  - intros H. apply app_eq_nil in H. destruct H as [H1 H2].
    apply andb_true_iff; split.
    + destruct (native G k); [discriminate | reflexivity].
    + apply forallb_forall. intros [f c] Hi. destruct (exempt G k f) eqn:Ee; auto. simpl.
      apply (IH _ Hi). simpl.
      destruct (survivors G c) eqn:Es; auto. exfalso.
      assert (In k0 (flat_map (fun fc : fname * tree => let (f0, c0) := fc in if exempt G k f0 then [] else survivors G c0) cs)).
      { apply in_flat_map. exists (f, c). split; auto. rewrite Ee, Es. left; auto. }
      rewrite H2 in H. destruct H.
  - intros H. apply andb_true_iff in H. destruct H as [H1 H2].
    rewrite orb_false_r in H1. apply negb_true_iff in H1. rewrite H1. simpl.
    destruct (flat_map _ cs) eqn:Ef; auto. exfalso.
    assert (Hin : In k0 (flat_map (fun fc : fname * tree => let (f0, c0) := fc in if exempt G k f0 then [] else survivors G c0) cs)) by (rewrite Ef; left; auto).
    apply in_flat_map in Hin. destruct Hin as [[f c] [Hi Hx]].
    pose proof (forallb_In _ _ _ _ H2 Hi) as H3; simpl in H3.
    destruct (exempt G k f); [destruct Hx|]. simpl in H3.
    apply (IH _ Hi) in H3. simpl in H3. rewrite H3 in Hx. destruct Hx.
Qed.
