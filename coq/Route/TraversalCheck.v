(* C04: the correspondence checker evaluated by vm_compute on the cases written by
   tools/props/c04.py: exported input program, option set, and the kinds of native
   constructs the REAL pipeline left outside exempt positions. *)
From Coq Require Import List String Bool.
Import ListNotations.
Require Import MV.Route.Traversal MV.Route.Pipeline MV.Generated.C04_gen.
Local Open Scope string_scope.

(* index, features in use, input tree, kinds surviving in the implementation's output *)
Definition case : Set := (nat * list string * tree * list kind)%type.

Definition G_of (feats : list string) : grammar := grammar_for gen_S gen_stmt_fields gen_fields feats.
Definition model_survivors (feats : list string) (t : tree) : list kind :=
  survivors (G_of feats) (run_pipeline (G_of feats) (resolve feats [] gen_passes) t).

Definition subset (a b : list string) : bool := forallb (fun x => mem x b) a.
Definition check_case (c : case) : bool :=
  match c with (_, feats, t, expected) =>
    let s := model_survivors feats t in subset s expected && subset expected s
  end.
Definition well_formed (c : case) : bool :=
  match c with (_, feats, t, _) => wf (G_of feats) t && kf (G_of feats) t end.
(* is the case inside the hypothesis of the guarded theorem *)
Definition guarded (c : case) : bool :=
  match c with (_, feats, t, _) => guard (G_of feats) (resolve feats known_waivers gen_passes) t end.
Definition case_index (c : case) : nat := match c with (n, _, _, _) => n end.

Definition failing (cs : list case) : list nat := map case_index (filter (fun c => negb (check_case c)) cs).
Definition ill_formed (cs : list case) : list nat := map case_index (filter (fun c => negb (well_formed c)) cs).
Definition unguarded (cs : list case) : list nat := map case_index (filter (fun c => negb (guarded c)) cs).

Definition pairs_eqb (a b : list (string * string)) : bool :=
  forallb (fun p => mem2 (fst p) (snd p) b) a && forallb (fun p => mem2 (fst p) (snd p) a) b.
