(* C04 model (H/S): feature-gated pass tables as generated from the source, their
   resolution under an option set, and the specification side of the property:
   which kinds are the native overloadable constructs, which positions are
   exempt (documented exemptions + positions outside the C01 program class),
   and the waivers that guard known findings.  No proofs in this file. *)
From Coq Require Import List String Bool.
Import ListNotations.
Require Import MV.Route.Traversal.
Local Open Scope string_scope.

(* Some (F, b): active when options.uses(Feature.F) = b *)
Definition gate := option (string * bool).
Definition gentry : Set := (kind * gate * action)%type.
Record gpass : Set := mkGpass { gp_name : string; gp_gate : gate; gp_entries : list gentry }.

(* ConversionOptions.uses: a feature is in use when it or ALL was requested (C20) *)
Definition uses (feats : list string) (f : string) : bool := mem f feats || mem "ALL" feats.
Definition gate_on (feats : list string) (g : gate) : bool :=
  match g with None => true | Some (f, b) => Bool.eqb (uses feats f) b end.

Definition waiver : Set := (string * kind * fname)%type.   (* pass name, kind, field *)
Definition waivers_of (W : list waiver) (name : string) : list (kind * fname) :=
  map (fun w => (snd (fst w), snd w)) (filter (fun w => String.eqb (fst (fst w)) name) W).

Definition resolve_pass (feats : list string) (gp : gpass) : pass :=
  map (fun e => (fst (fst e), snd e)) (filter (fun e => gate_on feats (snd (fst e))) (gp_entries gp)).
Definition resolve (feats : list string) (W : list waiver) (gps : list gpass) : list wpass :=
  map (fun gp => (resolve_pass feats gp, waivers_of W (gp_name gp)))
      (filter (fun gp => gate_on feats (gp_gate gp)) gps).

(* ---- specification side ---------------------------------------------- *)

(* the constructs the property names: if, while, for, break, continue, (early)
   return, and/or, not, conditional expression, call.  Sub-kinds are assigned by
   the exporter: "Call" is a call written by the user; "Call.ag" / "Call.fscope"
   are operator / function-scope calls, "Call.gen" the tuple(...)/dict(...) the
   call wrapper itself builds, "Call.debugger" pdb.set_trace & co, "Call.print"
   print(...); "Return.gen" the single return at the end of a generated function.
   Side condition of "Call.fscope" (call_trees.py leaves calls whose qualified name starts
   with `<function context name>.` alone): the context name is fresh w.r.t. every identifier
   of the function, names hidden from the activity sets included (parameters of nested
   lambdas/defs, comprehension targets, except-as names).  It is not a theorem of this
   model (naming is C11); the oracle of tools/props/c04.py checks it on every conversion and
   classifies `N.attr(...)` under a user binding of N as a user call. *)
Definition spec_natives : list kind :=
  ["If"; "While"; "For"; "Break"; "Continue"; "Return"; "BoolOp"; "UnaryOp.Not"; "IfExp"; "Call"].
(* print is overloadable only when builtin overloading is on *)
Definition spec_gated_natives : list (kind * gate) := [("Call.print", Some ("BUILTIN_FUNCTIONS", true))].
Definition natives_for (feats : list string) : list kind :=
  spec_natives ++ map fst (filter (fun kg => gate_on feats (snd kg)) spec_gated_natives).

Definition spec_exempt : list (kind * fname) :=
  [ (* documented: with-item expressions *)
    ("With", "items"); ("AsyncWith", "items");
    (* documented: comprehension clauses *)
    ("comprehension", "target"); ("comprehension", "iter"); ("comprehension", "ifs");
    (* outside the program class of the property: parameter declarations hold
       only annotations; return annotations *)
    ("arguments", "posonlyargs"); ("arguments", "args"); ("arguments", "vararg");
    ("arguments", "kwonlyargs"); ("arguments", "kwarg");
    ("FunctionDef", "type_params") ].

Definition grammar_for (S : list kind) (sf : list (kind * fname)) (fl : list (kind * list fname))
                       (feats : list string) : grammar :=
  mkGrammar S sf fl spec_exempt (natives_for feats).

(* guards of known findings (known_findings.json):
   C04-ifexp-children-not-visited: visit_IfExp does not traverse its operands *)
Definition known_waivers : list waiver :=
  [("conditional_expressions.ConditionalExpressionTransformer", "IfExp", "test");
   ("conditional_expressions.ConditionalExpressionTransformer", "IfExp", "body");
   ("conditional_expressions.ConditionalExpressionTransformer", "IfExp", "orelse")].

Fixpoint subsets (l : list string) : list (list string) :=
  match l with
  | [] => [[]]
  | x :: r => let s := subsets r in s ++ map (cons x) s
  end.
(* every option set up to the features that gate anything, plus ALL *)
Definition all_feature_sets (features : list string) : list (list string) :=
  subsets features ++ [["ALL"]].

Definition tables_ok (S : list kind) (sf : list (kind * fname)) (fl : list (kind * list fname))
                     (features : list string) (W : list waiver) (gps : list gpass) : bool :=
  forallb (fun feats => table_ok (grammar_for S sf fl feats) (resolve feats W gps)) (all_feature_sets features).

Definition all_gaps (S : list kind) (sf : list (kind * fname)) (fl : list (kind * list fname))
                    (features : list string) (W : list waiver) (gps : list gpass) : list (nat * (kind * fname)) :=
  flat_map (fun feats => gaps (grammar_for S sf fl feats) (resolve feats W gps) true 0) (all_feature_sets features).

Definition named_gaps (S : list kind) (sf : list (kind * fname)) (fl : list (kind * list fname))
                    (features : list string) (W : list waiver) (gps : list gpass) : list (string * (kind * fname)) :=
  flat_map (fun feats =>
     let names := map gp_name (filter (fun gp => gate_on feats (gp_gate gp)) gps) in
     map (fun g => (nth (fst g) names "?", snd g)) (gaps (grammar_for S sf fl feats) (resolve feats W gps) true 0))
   (all_feature_sets features).

(* the witness of the known finding: a conditional expression directly in an
   operand of a conditional expression, inside a function body *)
Definition ifexp_witness : tree :=
  Node "FunctionDef" [("body", Node "Return" [("value",
     Node "IfExp" [("test", Node "Name" []); ("body", Node "Constant" []);
                   ("orelse", Node "IfExp" [("test", Node "Name" []); ("body", Node "Constant" []);
                                            ("orelse", Node "Constant" [])])])])].
