(* C20: lemmas about the model of ConversionOptions.  The proofs are written
   against *whatever* tables Generated/C20_gen.v holds on this run: they use
   the tables only through computation (cbn / vm_compute on lookups) and
   through the decidable side conditions proved at the top (coverage of
   as_tuple_gen, kindedness), so a harmless rewrite of the source (reordered
   keywords, another member in Feature) still proves, and a change that drops a
   field from as_tuple, changes what call_options passes, or embeds a different
   attribute in to_ast makes a lemma below fail. *)
From Coq Require Import List String Bool Lia.
Import ListNotations.
Require Import MV.Opts.OptionsSyntax MV.Generated.C20_gen MV.Opts.Options.

Lemma feature_beq_eq x y : feature_beq x y = true <-> x = y.
Proof. split; [apply internal_feature_dec_bl | apply internal_feature_dec_lb]. Qed.

Lemma feature_beq_refl x : feature_beq x x = true.
Proof. apply feature_beq_eq; reflexivity. Qed.

Lemma all_features_complete : forall f, In f all_features.
Proof. destruct f; simpl; tauto. Qed.

Lemma mem_In f l : mem f l = true <-> In f l.
Proof.
  unfold mem; rewrite existsb_exists; split.
  - intros [x [Hx He]]. apply feature_beq_eq in He; subst; exact Hx.
  - intros H; exists f; split; [exact H | apply feature_beq_refl].
Qed.

Lemma In_norm f l : In f (norm l) <-> In f l.
Proof.
  unfold norm; rewrite filter_In, mem_In; split; [tauto|].
  intros H; split; [apply all_features_complete | exact H].
Qed.

Lemma mem_ext l1 l2 : (forall f, In f l1 <-> In f l2) -> forall f, mem f l1 = mem f l2.
Proof.
  intros H f. destruct (mem f l1) eqn:E1, (mem f l2) eqn:E2; try reflexivity.
  - apply mem_In, H, mem_In in E1; congruence.
  - apply mem_In, H, mem_In in E2; congruence.
Qed.

Lemma norm_ext l1 l2 : (forall f, In f l1 <-> In f l2) <-> norm l1 = norm l2.
Proof.
  split.
  - intros H; unfold norm; apply filter_ext; intros f; apply mem_ext; exact H.
  - intros H f; rewrite <- (In_norm f l1), <- (In_norm f l2), H; tauto.
Qed.

Lemma norm_idem l : norm (norm l) = norm l.
Proof. apply norm_ext; intros f; apply In_norm. Qed.

Lemma mem_norm f l : mem f (norm l) = mem f l.
Proof. apply mem_ext; intros g; apply In_norm. Qed.

Lemma mk_wf r u i fs : wf (mk r u i fs).
Proof.
  unfold wf, mk; simpl. destruct fs as [b|s]; simpl.
  - reflexivity.
  - symmetry; apply norm_idem.
Qed.

Lemma construct_wf kws : wf (construct kws).
Proof. unfold construct; apply mk_wf. Qed.

(* ---- equality ---------------------------------------------------------- *)

Lemma list_beq_eq {A} (eqb : A -> A -> bool) :
  (forall x y, eqb x y = true <-> x = y) -> forall l1 l2, list_beq eqb l1 l2 = true <-> l1 = l2.
Proof.
  intros Heq; induction l1 as [|x l1 IH]; destruct l2 as [|y l2]; simpl; split; intros H;
    try reflexivity; try discriminate.
  - apply andb_true_iff in H; destruct H as [H1 H2].
    apply Heq in H1; apply IH in H2; subst; reflexivity.
  - injection H as -> ->. apply andb_true_iff; split; [apply Heq; reflexivity | apply IH; reflexivity].
Qed.

Lemma fval_beq_eq a b : fval_beq a b = true <-> a = b.
Proof.
  destruct a as [x|x], b as [y|y]; simpl; split; intros H; try discriminate.
  - apply eqb_prop in H; subst; reflexivity.
  - injection H as ->; apply eqb_reflx.
  - apply (list_beq_eq feature_beq feature_beq_eq) in H; subst; reflexivity.
  - injection H as ->; apply (list_beq_eq feature_beq feature_beq_eq); reflexivity.
Qed.

(* the per-run side condition: as_tuple mentions every attribute *)
Lemma as_tuple_covers : forall f, In f as_tuple_gen.
Proof. destruct f; vm_compute; tauto. Qed.

Lemma get_all_eq o1 o2 : (forall f, get o1 f = get o2 f) -> o1 = o2.
Proof.
  intros H. destruct o1 as [r1 u1 i1 f1], o2 as [r2 u2 i2 f2].
  pose proof (H FRecursive) as A; pose proof (H FUserRequested) as B;
  pose proof (H FInternal) as C; pose proof (H FFeatures) as D; simpl in *.
  congruence.
Qed.

Lemma map_eq_In {A B} (g1 g2 : A -> B) l : map g1 l = map g2 l -> forall x, In x l -> g1 x = g2 x.
Proof.
  induction l as [|a l IH]; simpl; intros H x Hx; [contradiction|].
  injection H as H1 H2. destruct Hx as [->|Hx]; [exact H1 | apply IH; assumption].
Qed.

Lemma opt_eqb_eq o1 o2 : opt_eqb o1 o2 = true <-> o1 = o2.
Proof.
  unfold opt_eqb, as_tuple; split.
  - intros H. apply (list_beq_eq fval_beq fval_beq_eq) in H.
    apply get_all_eq; intros f. apply (map_eq_In _ _ _ H), as_tuple_covers.
  - intros ->. apply (list_beq_eq fval_beq fval_beq_eq); reflexivity.
Qed.

Lemma opt_eqb_hash {H} (h : list fval -> H) o1 o2 : opt_eqb o1 o2 = true -> opt_hash h o1 = opt_hash h o2.
Proof. intros E; apply opt_eqb_eq in E; subst; reflexivity. Qed.

Lemma opt_neq o1 o2 : o1 <> o2 -> opt_eqb o1 o2 = false.
Proof.
  intros N; destruct (opt_eqb o1 o2) eqn:E; [|reflexivity]. apply opt_eqb_eq in E; contradiction.
Qed.

(* what "equal options" means at the level of constructor calls *)
Lemma mk_eq_iff r u i s r' u' i' s' :
  mk (ABool r) (ABool u) (ABool i) (ASpell s) = mk (ABool r') (ABool u') (ABool i') (ASpell s')
  <-> r = r' /\ u = u' /\ i = i' /\ (forall f, In f (spell_set s) <-> In f (spell_set s')).
Proof.
  unfold mk; simpl; split.
  - intros H; injection H as -> -> -> H. repeat split; try reflexivity; apply norm_ext; rewrite H; reflexivity.
  - intros [-> [-> [-> H]]]. apply norm_ext in H; rewrite H; reflexivity.
Qed.

(* ---- tables ------------------------------------------------------------- *)

Lemma tables_typed_ok : tables_typed = true.
Proof. vm_compute; reflexivity. Qed.

(* ---- call_options --------------------------------------------------------- *)

Lemma call_options_spec o : wf o ->
  call_options o = {| recursive := recursive o; user_requested := false;
                      internal := recursive o; features := features o |}.
Proof.
  intros W. destruct o as [r u i fs]; unfold wf in W; simpl in W.
  unfold call_options, construct, mk; cbn -[norm].
  rewrite <- W. reflexivity.
Qed.

Lemma call_options_wf o : wf (call_options o).
Proof. apply construct_wf. Qed.

(* ---- uses ----------------------------------------------------------------- *)

Lemma uses_spec o f : uses o f = mem ALL (features o) || mem f (features o).
Proof.
  unfold uses; cbn.
  destruct (mem ALL (features o)), (mem f (features o)); reflexivity.
Qed.

Lemma uses_requested r u i s f :
  uses (mk r u i (ASpell s)) f = true <-> In ALL (spell_set s) \/ In f (spell_set s).
Proof.
  rewrite uses_spec; unfold mk; simpl. rewrite !mem_norm, orb_true_iff, !mem_In. tauto.
Qed.

(* ---- to_ast / eval --------------------------------------------------------- *)

Lemma spell_set_of_list l : spell_set (spell_of_list l) = l.
Proof. destruct l as [|a [|b l]]; reflexivity. Qed.

Lemma to_ast_roundtrip o ord :
  wf o -> (forall f, In f ord <-> In f (features o)) -> eval_oexpr (to_ast o ord) = o.
Proof.
  intros W Hord. unfold to_ast. destruct (opt_eqb o STD) eqn:E.
  - apply opt_eqb_eq in E. simpl. symmetry; exact E.
  - destruct o as [r u i fs]; unfold wf in W; simpl in *.
    unfold construct, mk; cbn -[norm spell_of_list].
    rewrite spell_set_of_list. apply norm_ext in Hord. rewrite Hord, <- W. reflexivity.
Qed.

Lemma STD_value : STD = {| recursive := true; user_requested := false; internal := true; features := [] |}.
Proof. vm_compute; reflexivity. Qed.
