(* C20: lemmas about the model of function scopes (Scope.v).  As in OptionsProofs.v the generated tables are used
   only through the decidable side condition scope_tables_ok (re-proved by computation on every run), so the lemmas
   are statements about every __init__ table / entry discipline that passes it. *)
From Coq Require Import List String Bool Lia.
Import ListNotations.
Require Import MV.Opts.OptionsSyntax MV.Generated.C20_gen MV.Opts.Options MV.Opts.OptionsProofs MV.Opts.CacheKey
  MV.Opts.Scope.

Lemma ssrc_opt_is_eq x s : ssrc_opt_is x s = true -> x = Some s.
Proof.
  destruct x as [y|]; simpl; [|discriminate]. intros H. apply internal_ssrc_dec_bl in H. now subst.
Qed.

(* ---- generic in the tables ------------------------------------------------------------------------------- *)

Lemma init_scope_with_spec tbl : init_table_ok tbl = true ->
  forall o, init_scope_with tbl o = mkscope o (call_options o).
Proof.
  intros H o. unfold init_table_ok in H. apply andb_true_iff in H. destruct H as [H1 H2].
  apply ssrc_opt_is_eq in H1. apply ssrc_opt_is_eq in H2.
  unfold init_scope_with. rewrite H1, H2. reflexivity.
Qed.

Lemma key_eq_covers ks o1 o2 : covers ks as_tuple_gen = true ->
  list_beq fval_beq (key_of ks o1) (key_of ks o2) = true -> o1 = o2.
Proof.
  intros C H. apply opt_eqb_eq. unfold opt_eqb, as_tuple.
  exact (covers_key_complete_lemma ks as_tuple_gen (get o1) (get o2) C H).
Qed.

Lemma enter_with_spec tbl e : init_table_ok tbl = true -> entry_ok e = true ->
  forall hist o, Forall (fun s => s = init_scope_with tbl (s_options s)) hist ->
  enter_with tbl e hist o = init_scope_with tbl o.
Proof.
  intros T E hist o Hh. destruct e as [|ks]; [reflexivity|]. simpl in *.
  destruct (find _ hist) as [s|] eqn:F; [|reflexivity].
  apply find_some in F. destruct F as [Hin Hk].
  rewrite Forall_forall in Hh. specialize (Hh s Hin).
  apply (key_eq_covers ks _ _ E) in Hk. rewrite Hh, Hk. reflexivity.
Qed.

Lemma run_with_spec tbl ef el : init_table_ok tbl = true -> entry_ok ef = true -> entry_ok el = true ->
  forall reqs hist, Forall (fun s => s = init_scope_with tbl (s_options s)) hist ->
  run_with tbl ef el hist reqs = map (fun r => init_scope_with tbl (snd r)) reqs.
Proof.
  intros T Ef El. induction reqs as [|[k o] r IH]; intros hist Hh; [reflexivity|].
  simpl. assert (Es : enter_with tbl (match k with KFunction => ef | KLambda => el end) hist o = init_scope_with tbl o).
  { destruct k; apply enter_with_spec; assumption. }
  rewrite Es. f_equal. apply IH. apply Forall_app. split; [exact Hh|].
  constructor; [|constructor]. rewrite (init_scope_with_spec tbl T o). simpl.
  symmetry; apply (init_scope_with_spec tbl T).
Qed.

(* ---- on this run's tables --------------------------------------------------------------------------------- *)

Lemma scope_tables_ok_true : scope_tables_ok = true.
Proof. vm_compute; reflexivity. Qed.

Lemma scope_tables_parts :
  init_table_ok scope_init_gen = true /\ entry_ok function_entry_gen = true /\ entry_ok lambda_entry_gen = true
  /\ callee_reads_gen = SACallopts.
Proof.
  pose proof scope_tables_ok_true as H. unfold scope_tables_ok in H.
  repeat (apply andb_true_iff in H; destruct H as [H ?]).
  split; [assumption|]. split; [assumption|]. split; [assumption|]. now apply internal_sattr_dec_bl.
Qed.

Lemma init_scope_spec o : init_scope o = mkscope o (call_options o).
Proof. apply init_scope_with_spec, scope_tables_parts. Qed.

Lemma callee_options_spec s : callee_options s = s_callopts s.
Proof.
  unfold callee_options. destruct scope_tables_parts as [_ [_ [_ ->]]]. reflexivity.
Qed.

Lemma run_spec hist reqs : hist_ok hist -> run hist reqs = map (fun r => init_scope (snd r)) reqs.
Proof.
  destruct scope_tables_parts as [T [Ef [El _]]]. intros H. apply run_with_spec; assumption.
Qed.

Definition callee_value (o : options) : options :=
  {| recursive := recursive o; user_requested := false; internal := recursive o; features := features o |}.

Lemma callee_value_wf o : wf o -> wf (callee_value o).
Proof. unfold wf, callee_value; simpl; trivial. Qed.

Lemma callee_value_idem o : callee_value (callee_value o) = callee_value o.
Proof. reflexivity. Qed.

(* every entry of every process, whatever was entered before, hands its body a scope that reports the entry's own
   options and hands callees exactly their call_options() *)
Lemma run_entry_spec hist reqs n k o : hist_ok hist -> wf o -> nth_error reqs n = Some (k, o) ->
  exists s, nth_error (run hist reqs) n = Some s /\ s_options s = o /\ callee_options s = callee_value o.
Proof.
  intros Hh W Hn. exists (init_scope o). split.
  - rewrite (run_spec hist reqs Hh). apply (map_nth_error (fun r => init_scope (snd r)) n reqs Hn).
  - rewrite callee_options_spec, init_scope_spec. simpl. split; [reflexivity|]. now apply call_options_spec.
Qed.

Lemma callee_of_init o : callee_options (init_scope o) = call_options o.
Proof. rewrite callee_options_spec, init_scope_spec. reflexivity. Qed.

Lemma chain_spec o n : wf o -> chain o (S n) = callee_value o /\ wf (chain o (S n)).
Proof.
  intros W. induction n as [|n [IH IW]].
  - change (chain o 1) with (callee_options (init_scope o)). rewrite callee_of_init.
    split; [now apply call_options_spec | apply call_options_wf].
  - change (chain o (S (S n))) with (callee_options (init_scope (chain o (S n)))).
    rewrite callee_of_init. split; [|apply call_options_wf].
    rewrite (call_options_spec _ IW), IH. reflexivity.
Qed.
