(* C20: correspondence checker for the scope model, evaluated by vm_compute on the sequence of scope entries the
   harness made in ONE process (tools/props/c20.py, step 2b): the model is run over the same sequence and every
   scope compared with what the real scope reported. *)
From Coq Require Import List String Bool Arith.
Import ListNotations.
Require Import MV.Opts.OptionsSyntax MV.Generated.C20_gen MV.Opts.Options MV.Opts.OptionsCheck MV.Opts.Scope.

(* entry kind, options the entry was made with, observed scope.options, observed scope.callopts *)
Definition scase : Set := (ekind * options * options * options)%type.

Definition sreq (c : scase) : ekind * options := match c with (k, o, _, _) => (k, o) end.

Definition check_scope (c : scase) (s : scope) : bool :=
  match c with (_, _, eo, ec) => struct_beq (s_options s) eo && struct_beq (callee_options s) ec end.

Fixpoint failing_from (i : nat) (cs : list scase) (ss : list scope) : list nat :=
  match cs, ss with
  | c :: cs', s :: ss' => ((if check_scope c s then [] else [i]) ++ failing_from (S i) cs' ss')%list
  | [], [] => []
  | _, _ => [i]
  end.

Definition failing_scopes (cs : list scase) : list nat := failing_from 0 cs (run [] (map sreq cs)).
