(* C20: the sub-key under which converted code is cached per code object (api.PyToPy.get_caching_key, translated
   into cache_key_gen): two option values with equal keys are equal, provided the key covers every field that
   __eq__ compares -- so code generated (and the options embedded in it) for one value is only reused for an equal
   value. *)
From Coq Require Import List String Bool.
Import ListNotations.
Require Import MV.Opts.OptionsSyntax MV.Generated.C20_gen MV.Opts.Options MV.Opts.OptionsProofs.

Definition cache_key (o : options) : list fval := map (get o) cache_key_gen.
Definition key_eqb (o1 o2 : options) : bool := list_beq fval_beq (cache_key o1) (cache_key o2).
Definition covers (ks fs : list field) : bool := forallb (fun f => existsb (field_beq f) ks) fs.

Lemma list_beq_map_pointwise (g g' : field -> fval) ks :
  list_beq fval_beq (map g ks) (map g' ks) = true -> forall f, In f ks -> fval_beq (g f) (g' f) = true.
Proof.
  induction ks as [|k ks IH]; simpl; intros H f Hf; [contradiction|].
  apply andb_true_iff in H. destruct H as [H1 H2]. destruct Hf as [<-|Hf]; [exact H1 | now apply IH].
Qed.

Lemma pointwise_list_beq_map (g g' : field -> fval) fs :
  (forall f, In f fs -> fval_beq (g f) (g' f) = true) -> list_beq fval_beq (map g fs) (map g' fs) = true.
Proof.
  induction fs as [|k fs IH]; simpl; intros H; [reflexivity|].
  apply andb_true_iff. split; [apply H; now left | apply IH; intros f Hf; apply H; now right].
Qed.

Lemma covers_key_complete_lemma ks fs (g g' : field -> fval) :
  covers ks fs = true -> list_beq fval_beq (map g ks) (map g' ks) = true ->
  list_beq fval_beq (map g fs) (map g' fs) = true.
Proof.
  intros C H. apply pointwise_list_beq_map. intros f Hf.
  unfold covers in C. rewrite forallb_forall in C. specialize (C f Hf).
  apply existsb_exists in C. destruct C as [k [Hk E]].
  assert (f = k) by (apply internal_field_dec_bl; exact E). subst k.
  eapply list_beq_map_pointwise; eauto.
Qed.
