(* C20: executable model of the function scopes of malt/operators/function_wrappers.py -- the objects through which
   converted code hands options to its callees.  Generated code obtains a scope at two entry points,
     with ag__.FunctionScope(name, 'fscope', <options>) as fscope: ...          (converted def)
     ag__.with_function_scope(lambda lscope: ..., 'lscope', <options>)          (converted lambda)
   and every call in the body is ag__.converted_call(f, args, kwargs, <scope>), which converts f under
   <scope>.callopts.  The functions below interpret the tables generated from the source (Generated/C20_gen.v:
   scope_init_gen, function_entry_gen, lambda_entry_gen, callee_reads_gen).  A process is a sequence of entries; an
   entry point may, in general, look at the scopes created earlier (EnMemo), which is what makes the options a body
   sees depend on the history.  No proofs here (ScopeProofs.v). *)
From Coq Require Import List String Bool.
Import ListNotations.
Require Import MV.Opts.OptionsSyntax MV.Generated.C20_gen MV.Opts.Options MV.Opts.CacheKey.

Record scope : Set := mkscope { s_options : options; s_callopts : options }.

Definition sget (s : scope) (a : sattr) : options :=
  match a with SAOptions => s_options s | SACallopts => s_callopts s end.

Definition ssrc_val (o : options) (s : ssrc) : options :=
  match s with ScArg => o | ScCallOptions => call_options o end.

(* the last assignment of __init__ to the attribute *)
Definition slookup (l : list (sattr * ssrc)) (a : sattr) : option ssrc :=
  fold_left (fun acc p => if sattr_beq (fst p) a then Some (snd p) else acc) l None.

(* FunctionScope(_, _, o) as the given __init__ table builds it; an attribute never assigned reads as `dummy` *)
Definition init_scope_with (tbl : list (sattr * ssrc)) (o : options) : scope :=
  let v a := match slookup tbl a with Some s => ssrc_val o s | None => dummy end in
  mkscope (v SAOptions) (v SACallopts).
Definition init_scope : options -> scope := init_scope_with scope_init_gen.

Definition key_of (ks : list field) (o : options) : list fval := map (get o) ks.

(* the scope an entry point hands to the body, given the scopes created so far (oldest first) *)
Definition enter_with (tbl : list (sattr * ssrc)) (e : sentry) (hist : list scope) (o : options) : scope :=
  match e with
  | EnFresh => init_scope_with tbl o
  | EnMemo ks =>
      match find (fun s => list_beq fval_beq (key_of ks (s_options s)) (key_of ks o)) hist with
      | Some s => s
      | None => init_scope_with tbl o
      end
  end.

(* a process: the entries made one after the other; the scopes handed to the bodies, in order *)
Fixpoint run_with (tbl : list (sattr * ssrc)) (ef el : sentry) (hist : list scope) (reqs : list (ekind * options))
  : list scope :=
  match reqs with
  | [] => []
  | (k, o) :: r =>
      let s := enter_with tbl (match k with KFunction => ef | KLambda => el end) hist o in
      s :: run_with tbl ef el (hist ++ [s]) r
  end.
Definition run : list scope -> list (ekind * options) -> list scope :=
  run_with scope_init_gen function_entry_gen lambda_entry_gen.

(* what converted_call(f, args, kwargs, caller_fn_scope) converts f under *)
Definition callee_options (s : scope) : options := sget s callee_reads_gen.

(* the per-run side conditions on the generated tables *)
Definition ssrc_opt_is (x : option ssrc) (s : ssrc) : bool :=
  match x with Some y => ssrc_beq y s | None => false end.
Definition init_table_ok (tbl : list (sattr * ssrc)) : bool :=
  ssrc_opt_is (slookup tbl SAOptions) ScArg && ssrc_opt_is (slookup tbl SACallopts) ScCallOptions.
Definition entry_ok (e : sentry) : bool :=
  match e with EnFresh => true | EnMemo ks => covers ks as_tuple_gen end.
Definition scope_tables_ok : bool :=
  init_table_ok scope_init_gen && entry_ok function_entry_gen && entry_ok lambda_entry_gen
  && sattr_beq callee_reads_gen SACallopts.

(* every scope created so far was built from the options it reports *)
Definition hist_ok (hist : list scope) : Prop := Forall (fun s => s = init_scope (s_options s)) hist.

(* the options under which the callee at depth n of a chain of converted calls runs *)
Fixpoint chain (o : options) (n : nat) : options :=
  match n with 0 => o | S m => callee_options (init_scope (chain o m)) end.
