(* C20: the correspondence checker evaluated by vm_compute on the cases the
   harness writes (tools/props/c20.py).  Equality used here is structural and
   independent of the generated as_tuple table. *)
From Coq Require Import List String Bool Arith.
Import ListNotations.
Require Import MV.Opts.OptionsSyntax MV.Generated.C20_gen MV.Opts.Options.

Definition struct_beq (a b : options) : bool :=
  Bool.eqb (recursive a) (recursive b) && Bool.eqb (user_requested a) (user_requested b)
  && Bool.eqb (internal a) (internal b) && list_beq feature_beq (features a) (features b).

Definition spelling_beq (a b : spelling feature) : bool :=
  match a, b with
  | SpNone, SpNone => true
  | SpSingle x, SpSingle y => feature_beq x y
  | SpSeq x, SpSeq y => list_beq feature_beq x y
  | _, _ => false
  end.
Definition arg_beq (a b : arg) : bool :=
  match a, b with
  | ABool x, ABool y => Bool.eqb x y
  | ASpell x, ASpell y => spelling_beq x y
  | _, _ => false
  end.
Definition oexpr_beq (a b : oexpr) : bool :=
  match a, b with
  | EStd, EStd => true
  | ECtor x, ECtor y => list_beq (fun p q => field_beq (fst p) (fst q) && arg_beq (snd p) (snd q)) x y
  | _, _ => false
  end.

(* index, constructor arguments, expected object, expected call_options(),
   expected uses(f) for f in all_features, iteration order seen in to_ast,
   expected to_ast expression, expected value of evaluating it *)
Definition case : Set :=
  (nat * (arg * arg * arg * arg) * options * options * list bool * list feature * oexpr * options)%type.

Definition model_obj (c : case) : options :=
  match c with (_, (r, u, i, s), _, _, _, _, _, _) => mk r u i s end.

Definition check_case (c : case) : bool :=
  match c with
  | (_, _, eobj, ecall, euses, ord, east, eeval) =>
    let o := model_obj c in
    struct_beq o eobj && struct_beq (call_options o) ecall
    && list_beq Bool.eqb (map (uses o) all_features) euses
    && oexpr_beq (to_ast o ord) east
    && struct_beq (eval_oexpr east) eeval
  end.

Definition case_index (c : case) : nat := match c with (n, _, _, _, _, _, _, _) => n end.
Definition failing (cs : list case) : list nat :=
  map case_index (filter (fun c => negb (check_case c)) cs).

(* first index whose object the model's __eq__ says is equal *)
Fixpoint first_eq (o : options) (l : list options) (i : nat) : nat :=
  match l with
  | [] => i
  | x :: r => if opt_eqb o x then i else first_eq o r (S i)
  end.
Definition failing_reps (cs : list case) (reps : list nat) : list nat :=
  let objs := map model_obj cs in
  let fix go (l : list options) (rs : list nat) (i : nat) : list nat :=
    match l, rs with
    | o :: l', r :: rs' => ((if Nat.eqb (first_eq o objs 0) r then [] else [i]) ++ go l' rs' (S i))%list
    | _, _ => []
    end in
  go objs reps 0.
