(* C20: syntax shared by the generated tables (Generated/C20_gen.v) and the
   hand model (Opts/Options.v).  Parametric in the enumeration of features,
   which is itself generated from malt/core/converter.py. *)
From Coq Require Import List String Bool.
Import ListNotations.

(* the four attributes of ConversionOptions *)
Inductive field : Set := FRecursive | FUserRequested | FInternal | FFeatures.
Scheme Equality for field.
Definition all_fields : list field := [FRecursive; FUserRequested; FInternal; FFeatures].

Inductive tkind : Set := TBool | TFeats.

Section Syntax.
  Variable feature : Set.

  (* the ways Python code can spell the optional_features argument *)
  Inductive spelling : Set :=
  | SpNone
  | SpSingle (f : feature)
  | SpSeq (l : list feature).

  (* a value expression appearing as keyword argument of ConversionOptions(...) *)
  Inductive src_ : Set :=
  | SField (f : field)          (* self.<field> *)
  | SBool (b : bool)
  | SSpell (s : spelling).

  (* the boolean expression returned by ConversionOptions.uses *)
  Inductive uexpr_ : Set :=
  | UOr (a b : uexpr_)
  | UAnd (a b : uexpr_)
  | UInArg                      (* feature in self.optional_features *)
  | UInConst (f : feature).     (* Feature.X in self.optional_features *)
End Syntax.

Arguments SpNone {feature}.
Arguments SpSingle {feature}.
Arguments SpSeq {feature}.
Arguments SField {feature}.
Arguments SBool {feature}.
Arguments SSpell {feature}.
Arguments UOr {feature}.
Arguments UAnd {feature}.
Arguments UInArg {feature}.
Arguments UInConst {feature}.

(* ---- function scopes (malt/operators/function_wrappers.py): the objects through which converted code hands
   options to its callees ------------------------------------------------------------------------------------ *)
(* the attributes of a FunctionScope that carry options *)
Inductive sattr : Set := SAOptions | SACallopts.
Scheme Equality for sattr.
(* what FunctionScope.__init__(self, function_name, scope_name, options) assigns to them *)
Inductive ssrc : Set :=
| ScArg              (* options *)
| ScCallOptions.     (* options.call_options() *)
Scheme Equality for ssrc.
(* how an entry point of generated code (`with ag__.FunctionScope(...) as fscope`, `ag__.with_function_scope(...)`)
   obtains the scope it hands to the body *)
Inductive sentry : Set :=
| EnFresh                     (* a FunctionScope constructed from the entry's own options argument *)
| EnMemo (ks : list field).   (* an instance memoised under a key made of attributes of the options *)
(* the two entry points *)
Inductive ekind : Set := KFunction | KLambda.
