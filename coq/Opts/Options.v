(* C20: executable model of malt.core.converter.ConversionOptions.
   The functions are interpreters of the tables generated from the source
   (Generated/C20_gen.v): as_tuple_gen, uses_gen, call_options_gen,
   standard_gen, to_ast_gen, default_of.  No proofs here (OptionsProofs.v). *)
From Coq Require Import List String Bool.
Import ListNotations.
Require Import MV.Opts.OptionsSyntax MV.Generated.C20_gen.

Record options : Set := mkopts {
  recursive : bool; user_requested : bool; internal : bool;
  features : list feature      (* the frozenset, in canonical form (norm) *)
}.

Definition mem (f : feature) (l : list feature) : bool := existsb (feature_beq f) l.
(* canonical representative of a set of features: Python's frozenset(...) *)
Definition norm (l : list feature) : list feature := filter (fun f => mem f l) all_features.
Definition wf (o : options) : Prop := features o = norm (features o).

Definition spell_set (s : spelling feature) : list feature :=
  match s with SpNone => [] | SpSingle f => [f] | SpSeq l => l end.

(* a Python value passed to a constructor parameter *)
Inductive arg : Set := ABool (b : bool) | ASpell (s : spelling feature).
Definition arg_bool (a : arg) : bool := match a with ABool b => b | _ => false end.
Definition arg_feats (a : arg) : list feature :=
  match a with ASpell s => norm (spell_set s) | _ => [] end.

(* ConversionOptions.__init__ *)
Definition mk (r u i fs : arg) : options :=
  {| recursive := arg_bool r; user_requested := arg_bool u; internal := arg_bool i;
     features := arg_feats fs |}.

Inductive fval : Set := FB (b : bool) | FS (l : list feature).
Definition get (o : options) (f : field) : fval :=
  match f with
  | FRecursive => FB (recursive o) | FUserRequested => FB (user_requested o)
  | FInternal => FB (internal o) | FFeatures => FS (features o)
  end.

Fixpoint list_beq {A} (eqb : A -> A -> bool) (l1 l2 : list A) : bool :=
  match l1, l2 with
  | [], [] => true
  | x :: l1, y :: l2 => eqb x y && list_beq eqb l1 l2
  | _, _ => false
  end.
Definition fval_beq (a b : fval) : bool :=
  match a, b with
  | FB x, FB y => Bool.eqb x y
  | FS x, FS y => list_beq feature_beq x y
  | _, _ => false
  end.

Definition as_tuple (o : options) : list fval := map (get o) as_tuple_gen.
(* __eq__ : self.as_tuple() == other.as_tuple() *)
Definition opt_eqb (o1 o2 : options) : bool := list_beq fval_beq (as_tuple o1) (as_tuple o2).
(* __hash__ : hash(self.as_tuple()) for Python's hash, an arbitrary function of the tuple *)
Definition opt_hash {H} (h : list fval -> H) (o : options) : H := h (as_tuple o).

Fixpoint ueval (e : uexpr_ feature) (o : options) (f : feature) : bool :=
  match e with
  | UOr a b => ueval a o f || ueval b o f
  | UAnd a b => ueval a o f && ueval b o f
  | UInArg => mem f (features o)
  | UInConst c => mem c (features o)
  end.
Definition uses (o : options) (f : feature) : bool := ueval uses_gen o f.

Definition eval_src (o : options) (s : src) : arg :=
  match s with
  | SField f => match get o f with FB b => ABool b | FS l => ASpell (SpSeq l) end
  | SBool b => ABool b
  | SSpell s => ASpell s
  end.
Definition dummy : options := mkopts false false false [].

Fixpoint lookup {A} (kws : list (field * A)) (f : field) : option A :=
  match kws with
  | [] => None
  | (k, v) :: r => if field_beq k f then Some v else lookup r f
  end.
(* ConversionOptions(kw=..., ...): missing keywords take the parameter default *)
Definition construct (kws : list (field * arg)) : options :=
  let p f := match lookup kws f with Some a => a | None => eval_src dummy (default_of f) end in
  mk (p FRecursive) (p FUserRequested) (p FInternal) (p FFeatures).

Definition call_options (o : options) : options :=
  construct (map (fun ps => (fst ps, eval_src o (snd ps))) call_options_gen).
Definition STD : options :=
  construct (map (fun ps => (fst ps, eval_src dummy (snd ps))) standard_gen).

(* the expression to_ast builds *)
Inductive oexpr : Set :=
| EStd                                         (* ag__.STD *)
| ECtor (kws : list (field * arg)).            (* ag__.ConversionOptions(kw=value, ...) *)

(* '({})'.format(', '.join(...)): one element is a parenthesised Feature, not a tuple *)
Definition spell_of_list (l : list feature) : spelling feature :=
  match l with [f] => SpSingle f | _ => SpSeq l end.

(* ord: the order in which the frozenset happens to be iterated *)
Definition to_ast (o : options) (ord : list feature) : oexpr :=
  if opt_eqb o STD then EStd
  else ECtor (map (fun e => match e with
                            | (kw, TBool, fld) => (kw, match get o fld with FB b => ABool b | FS _ => ABool false end)
                            | (kw, TFeats, fld) => (kw, ASpell (spell_of_list ord))
                            end) to_ast_gen).

(* Python evaluating that expression with ag__ bound as api.py binds it *)
Definition eval_oexpr (e : oexpr) : options :=
  match e with EStd => STD | ECtor kws => construct kws end.

(* well-kindedness of the generated tables, re-checked by vm_compute on every run *)
Definition kind_of_field (f : field) : tkind := match f with FFeatures => TFeats | _ => TBool end.
Definition tkind_beq (a b : tkind) : bool := match a, b with TBool, TBool | TFeats, TFeats => true | _, _ => false end.
Definition src_kind (s : src) : tkind :=
  match s with SField f => kind_of_field f | SBool _ => TBool | SSpell _ => TFeats end.
Definition src_const (s : src) : bool := match s with SField _ => false | _ => true end.
Definition kws_typed (k : list (field * src)) : bool :=
  forallb (fun ps => tkind_beq (kind_of_field (fst ps)) (src_kind (snd ps))) k.
Definition tables_typed : bool :=
  kws_typed call_options_gen && kws_typed standard_gen
  && forallb (fun ps => src_const (snd ps)) standard_gen
  && forallb (fun f => tkind_beq (kind_of_field f) (src_kind (default_of f)) && src_const (default_of f)) all_fields
  && forallb (fun e => match e with (kw, k, fld) => tkind_beq (kind_of_field kw) k && tkind_beq (kind_of_field fld) k end) to_ast_gen.
