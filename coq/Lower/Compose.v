(* C01: the three canonicalisation passes in pipeline order. *)
From Coq Require Import List Arith Bool Lia.
Import ListNotations.
Require Import MV.Lower.Lang MV.Lower.LangProofs MV.Lower.Passes MV.Lower.BreakProofs MV.Lower.ContinueProofs MV.Lower.ReturnProofs.

Definition after_break (b : block) : block := fst (fst (brk_block 5 0 b)).
Definition after_continue (b : block) : block := fst (fst (cont_block (cflag 0) 1 false false (after_break b))).
Definition lowered (b : block) : block := fst (return_pass (after_continue b)).

(* side conditions on the intermediate programs; decidable, evaluated by the tie on every generated program *)
Definition lowering_hyps (b : block) : bool :=
  plain_block b && clean_block (after_break b) && rclean_block (fst (crr_block (after_continue b))).

Lemma agree_refl s : agree s s.
Proof. intros h _; reflexivity. Qed.
Lemma ragree_refl s : ragree s s.
Proof. intros h _; reflexivity. Qed.

(* an exception that leaves the function leaves the lowered function at the same point (same trace) *)
Theorem lowering_correct_lemma b s d tr o s' d' :
  run_block b s d tr o s' d' -> lowering_hyps b = true -> o = ONormal \/ o = ORet \/ o = ORaise ->
  forall sl, (forall f, sl f = false) ->
  exists sl', run_block (lowered b) sl d tr (ro o) sl' d'
              /\ (o = ORet -> sl' rflag = true) /\ (o <> ORet -> sl' rflag = false).
Proof.
  intros R H Ho sl Z. unfold lowering_hyps in H.
  apply andb_true_iff in H; destruct H as [H H3]. apply andb_true_iff in H; destruct H as [H1 H2].
  assert (N1 : o <> OBrk) by (destruct Ho as [-> | [-> | ->]]; discriminate).
  assert (N2 : o <> OCont) by (destruct Ho as [-> | [-> | ->]]; discriminate).
  destruct (break_lowering_correct_lemma _ _ _ _ _ _ _ R H1 N1 sl) as [sl1 R1].
  destruct (continue_lowering_correct_lemma _ _ _ _ _ _ _ R1 H2 N2 sl (agree_refl sl)) as [sl2 [R2 _]].
  { intros _; apply Z. }
  destruct (return_lowering_correct_lemma _ _ _ _ _ _ _ R2 H3 sl (ragree_refl sl) (Z rflag)) as [sl3 [R3 [_ [P1 P2]]]].
  exists sl3. split.
  - unfold lowered, after_continue, after_break. exact R3.
  - split; [intros E; apply (P1 E) | exact P2].
Qed.
