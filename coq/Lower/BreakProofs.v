(* C01: correctness of the break canonicalisation pass (model: Passes.brk_block). *)
From Coq Require Import List Arith Bool Lia.
Import ListNotations.
Require Import MV.Lower.Lang MV.Lower.LangProofs MV.Lower.Passes.

Scheme stmt_ind2 := Induction for stmt Sort Prop
  with block_ind2 := Induction for block Sort Prop
  with blocks_ind2 := Induction for blocks Sort Prop.
Combined Scheme stmt_block_ind from stmt_ind2, block_ind2, blocks_ind2.

(* programs before any lowering: no flags *)
Definition plain_cond (c : cond) : bool := match c with CUser _ => true | _ => false end.
Fixpoint plain_stmt (st : stmt) : bool :=
  match st with
  | SSet _ _ => false
  | SIf c b1 b2 => plain_cond c && plain_block b1 && plain_block b2
  | SWhile c b1 b2 => plain_cond c && plain_block b1 && plain_block b2
  | STry b1 hs b2 b3 => plain_block b1 && plain_blocks hs && plain_block b2 && plain_block b3
  | SWith _ b1 => plain_block b1
  | _ => true
  end
with plain_block (b : block) : bool :=
  match b with BNil => true | BCons st r => plain_stmt st && plain_block r end
with plain_blocks (h : blocks) : bool :=
  match h with HNil => true | HCons _ b r => plain_block b && plain_blocks r end.

Lemma plain_hsel hs : forall n h, plain_blocks hs = true -> hsel hs n = Some h -> plain_block h = true.
Proof.
  induction hs as [|a b r IH]; intros n h P E; simpl in *; [discriminate|].
  apply andb_true_iff in P; destruct P as [Pb Pr]. destruct n; [injection E as <-; exact Pb | eapply IH; eassumption].
Qed.

Lemma bflag_inj a b : bflag a = bflag b -> a = b.
Proof. unfold bflag; lia. Qed.

Lemma ceval_plain c s s' d : plain_cond c = true -> ceval c s d = ceval c s' d.
Proof. destruct c; simpl; try discriminate; reflexivity. Qed.

Lemma brk_mono3 :
  (forall st f k, snd (fst (brk_stmt f k st)) >= k) /\ (forall b f k, snd (fst (brk_block f k b)) >= k)
  /\ (forall h f k, snd (fst (brk_blocks f k h)) >= k).
Proof.
  apply stmt_block_ind.
  - intros l f k; simpl; lia.
  - intros f0 v f k; simpl; lia.
  - intros c b1 IH1 b2 IH2 f k; simpl.
    destruct (brk_block f k b1) as [[b1' k1] u1] eqn:E1. destruct (brk_block f k1 b2) as [[b2' k2] u2] eqn:E2.
    simpl. pose proof (IH1 f k) as A. pose proof (IH2 f k1) as B. rewrite E1 in A; rewrite E2 in B; simpl in *; lia.
  - intros c body IH1 orelse IH2 f k; simpl.
    destruct (brk_block (bflag k) (S k) body) as [[b1' k1] u1] eqn:E1.
    destruct (brk_block f k1 orelse) as [[b2' k2] u2] eqn:E2.
    pose proof (IH1 (bflag k) (S k)) as A. pose proof (IH2 f k1) as B. rewrite E1 in A; rewrite E2 in B; simpl in *.
    destruct u1; simpl; lia.
  - intros f k; simpl; lia.
  - intros f k; simpl; lia.
  - intros l f k; simpl; lia.
  - (* STry *) intros body IH1 hs IH2 orelse IH3 final IH4 f k; simpl.
    destruct (brk_block f k body) as [[b1 k1] u1] eqn:E1. destruct (brk_blocks f k1 hs) as [[b2 k2] u2] eqn:E2.
    destruct (brk_block f k2 orelse) as [[b3 k3] u3] eqn:E3. destruct (brk_block f k3 final) as [[b4 k4] u4] eqn:E4.
    pose proof (IH1 f k) as A1. pose proof (IH2 f k1) as A2. pose proof (IH3 f k2) as A3. pose proof (IH4 f k3) as A4.
    rewrite E1 in A1; rewrite E2 in A2; rewrite E3 in A3; rewrite E4 in A4; simpl in *; lia.
  - (* SWith *) intros l body IH f k; simpl.
    destruct (brk_block f k body) as [[b1 k1] u1] eqn:E1. pose proof (IH f k) as A. rewrite E1 in A; simpl in *; lia.
  - (* SRaise *) intros l f k; simpl; lia.
  - intros f k; simpl; lia.
  - intros st IH1 r IH2 f k; simpl.
    destruct (brk_stmt f k st) as [[s' k1] u1] eqn:E1. destruct (brk_block f k1 r) as [[r' k2] u2] eqn:E2.
    pose proof (IH1 f k) as A. pose proof (IH2 f k1) as B. rewrite E1 in A; rewrite E2 in B; simpl in *; lia.
  - intros f k; simpl; lia.
  - intros a b IH1 r IH2 f k; simpl.
    destruct (brk_block f k b) as [[b' k1] u1] eqn:E1. destruct (brk_blocks f k1 r) as [[r' k2] u2] eqn:E2.
    pose proof (IH1 f k) as A. pose proof (IH2 f k1) as B. rewrite E1 in A; rewrite E2 in B; simpl in *; lia.
Qed.

Lemma brk_mono :
  (forall st f k, snd (fst (brk_stmt f k st)) >= k) /\ (forall b f k, snd (fst (brk_block f k b)) >= k).
Proof. split; [exact (proj1 brk_mono3) | exact (proj1 (proj2 brk_mono3))]. Qed.

Definition bo (o : outcome) : outcome := match o with OBrk => OCont | _ => o end.

(* the handler an exception is dispatched to is lowered like any block, under some loop number kk *)
Lemma brk_hsel hs : forall f k n h, hsel hs n = Some h ->
  exists kk, k <= kk /\ hsel (fst (fst (brk_blocks f k hs))) n = Some (fst (fst (brk_block f kk h))) /\
             (snd (brk_block f kk h) = true -> snd (brk_blocks f k hs) = true).
Proof.
  induction hs as [|a b r IH]; intros f k n h E; simpl in *; [discriminate|].
  destruct (brk_block f k b) as [[b' k1] u1] eqn:E1. destruct (brk_blocks f k1 r) as [[r' k2] u2] eqn:E2.
  destruct n.
  - injection E as <-. exists k. rewrite E1. simpl. split; [lia|]. split; [reflexivity | intros ->; reflexivity].
  - destruct (IH f k1 n h E) as [kk [L [Hs Hu]]]. rewrite E2 in Hs, Hu. simpl in *.
    assert (L1 : k <= k1) by (pose proof (proj1 (proj2 brk_mono3) b f k) as X; rewrite E1 in X; exact X).
    exists kk. split; [lia|]. split; [exact Hs | intros U; rewrite (Hu U); apply orb_true_r].
Qed.

Lemma brk_hsel_none hs : forall f k n, hsel hs n = None -> hsel (fst (fst (brk_blocks f k hs))) n = None.
Proof.
  induction hs as [|a b r IH]; intros f k n E; simpl in *; [reflexivity|].
  destruct (brk_block f k b) as [[b' k1] u1] eqn:E1. destruct (brk_blocks f k1 r) as [[r' k2] u2] eqn:E2.
  destruct n; [discriminate|]. simpl. pose proof (IH f k1 n E) as X. rewrite E2 in X. exact X.
Qed.

Lemma brk_dispatch hs f k d h d' : dispatch hs d = (Some h, d') ->
  exists kk, k <= kk /\ dispatch (fst (fst (brk_blocks f k hs))) d = (Some (fst (fst (brk_block f kk h))), d') /\
             (snd (brk_block f kk h) = true -> snd (brk_blocks f k hs) = true).
Proof.
  intros E. destruct hs as [|a b r]; [discriminate|]. destruct a.
  - simpl in E. injection E as <- <-. exists k. simpl.
    destruct (brk_block f k b) as [[b' k1] u1]. destruct (brk_blocks f k1 r) as [[r' k2] u2]. simpl.
    split; [lia|]. split; [reflexivity | intros ->; reflexivity].
  - assert (E' : hsel (HCons false b r) (dnat d) = Some h /\ d' = dtail d) by (simpl in E |- *; injection E as E1 E2; auto).
    destruct E' as [E1 ->]. destruct (brk_hsel _ f k _ _ E1) as [kk [L [Hs Hu]]]. exists kk. split; [exact L|]. split; [|exact Hu].
    simpl in Hs |- *. destruct (brk_block f k b) as [[b' k1] u1]. destruct (brk_blocks f k1 r) as [[r' k2] u2]. simpl in *.
    rewrite Hs. reflexivity.
Qed.

Lemma brk_dispatch_none hs f k d d' : dispatch hs d = (None, d') ->
  dispatch (fst (fst (brk_blocks f k hs))) d = (None, d').
Proof.
  intros E. destruct hs as [|a b r]; [exact E|]. destruct a; [discriminate|].
  assert (E' : hsel (HCons false b r) (dnat d) = None /\ d' = dtail d) by (simpl in E |- *; injection E as E1 E2; auto).
  destruct E' as [E1 ->]. pose proof (brk_hsel_none _ f k _ E1) as Hs.
  simpl in Hs |- *. destruct (brk_block f k b) as [[b' k1] u1]. destruct (brk_blocks f k1 r) as [[r' k2] u2]. simpl in *.
  rewrite Hs. reflexivity.
Qed.

Lemma plain_dispatch hs d h d' : plain_blocks hs = true -> dispatch hs d = (Some h, d') -> plain_block h = true.
Proof.
  intros P E. destruct hs as [|a b r]; [discriminate|]. destruct a.
  - simpl in E, P. injection E as <- _. apply andb_true_iff in P. apply P.
  - apply (plain_hsel (HCons false b r) (dnat d)); [exact P|]. simpl in E |- *. injection E as E1 _. exact E1.
Qed.

Lemma bo_raise o : bo o = ORaise <-> o = ORaise.
Proof. destruct o; simpl; split; congruence. Qed.

(* what a lowered fragment guarantees about the stores *)
Definition post (f : flag) (k : nat) (o : outcome) (u : bool) (sl sl' : store) : Prop :=
  (o = OBrk -> sl' f = true /\ u = true) /\ (o <> OBrk -> sl' f = sl f) /\
  (forall h, (forall j, k <= j -> h <> bflag j) -> h <> f -> sl' h = sl h).

Definition outside (k : nat) (f : flag) : Prop := forall j, k <= j -> f <> bflag j.

Definition loop_claim (st : stmt) (f : flag) (k : nat) (d : decisions) (tr : list label) (o : outcome) (d' : decisions) : Prop :=
  match st with
  | SWhile c body orelse =>
      let g := bflag k in
      let '(body', k1, used) := brk_block g (S k) body in
      let '(orelse', k2, uo) := brk_block f k1 orelse in
      forall sl, (used = true -> sl g = false) ->
        exists sl', run_stmt (if used then SWhile (CAndNot g c) body' (guard_if_present g orelse') else SWhile c body' orelse')
                             sl d tr (bo o) sl' d' /\ post f k o uo sl sl'
  | _ => True
  end.

Definition ok_stmt (st : stmt) (s : store) (d : decisions) (tr : list label) (o : outcome) (s' : store) (d' : decisions) : Prop :=
  plain_stmt st = true -> forall f k, outside k f ->
    (forall sl, exists sl', run_block (fst (fst (brk_stmt f k st))) sl d tr (bo o) sl' d' /\ post f k o (snd (brk_stmt f k st)) sl sl')
    /\ loop_claim st f k d tr o d'.

Definition ok_block (b : block) (s : store) (d : decisions) (tr : list label) (o : outcome) (s' : store) (d' : decisions) : Prop :=
  plain_block b = true -> forall f k, outside k f ->
    forall sl, exists sl', run_block (fst (fst (brk_block f k b))) sl d tr (bo o) sl' d' /\ post f k o (snd (brk_block f k b)) sl sl'.

Lemma post_refl f k o sl : o <> OBrk -> post f k o false sl sl.
Proof. intros N; split; [congruence|]. split; [reflexivity | reflexivity]. Qed.

Lemma post_nonbrk f k o o' u sa sb : o <> OBrk -> o' <> OBrk -> post f k o u sa sb -> post f k o' false sa sb.
Proof. intros N N' [_ [A2 A3]]. split; [congruence|]. split; [intros _; apply A2, N | exact A3]. Qed.

Lemma outside_mono k k' f : k <= k' -> outside k f -> outside k' f.
Proof. intros L O j Hj; apply O; lia. Qed.

Lemma post_trans f k k1 o u1 u2 sa sb sc :
  k <= k1 -> post f k ONormal u1 sa sb -> post f k1 o u2 sb sc -> post f k o (u1 || u2) sa sc.
Proof.
  intros L [_ [A2 A3]] [B1 [B2 B3]]. split; [|split].
  - intros E. destruct (B1 E) as [X ->]. split; [exact X | apply orb_true_r].
  - intros N. rewrite (B2 N). apply A2; discriminate.
  - intros h Oh Nf. rewrite (B3 h); [apply A3; assumption | intros j Hj; apply Oh; lia | exact Nf].
Qed.

Lemma post_jump f k o u1 u2 sa sb : o <> ONormal -> post f k o u1 sa sb -> post f k o (u1 || u2) sa sb.
Proof.
  intros _ [A1 [A2 A3]]. split; [|split; assumption].
  intros E. destruct (A1 E) as [X ->]. split; [exact X | reflexivity].
Qed.


Lemma post_weaken f k k1 o u sa sb : k <= k1 -> post f k1 o u sa sb -> post f k o u sa sb.
Proof.
  intros L [A1 [A2 A3]]. split; [exact A1|]. split; [exact A2|].
  intros h Oh Nf. apply A3; [intros j Hj; apply Oh; lia | exact Nf].
Qed.

Lemma outside_g k f : outside k f -> f <> bflag k.
Proof. intros O; apply O; lia. Qed.

Lemma outside_S k : outside (S k) (bflag k).
Proof. intros j Hj E. apply bflag_inj in E. lia. Qed.

(* body under its own flag g = bflag k preserves everything outside, in particular the outer flag f *)
Lemma body_keeps f k o u sl sl1 : outside k f -> post (bflag k) (S k) o u sl sl1 ->
  sl1 f = sl f /\ (forall h, outside k h -> h <> f -> sl1 h = sl h).
Proof.
  intros Of [_ [_ A3]]. split.
  - apply A3; [eapply outside_mono; [|exact Of]; lia | apply outside_g, Of].
  - intros h Oh _. apply A3; [eapply outside_mono; [|exact Oh]; lia | apply outside_g, Oh].
Qed.

Lemma guard_skip g b s d : s g = true -> run_block (guard_if_present g b) s d [] ONormal s d.
Proof.
  intros H. unfold guard_if_present. destruct (is_nil b); [constructor|].
  apply run_one. change (@nil label) with (@nil label ++ []).
  eapply RIf; [simpl; rewrite H; reflexivity | constructor].
Qed.

Lemma guard_run g b s d tr o s' d' : s g = false -> run_block b s d tr o s' d' ->
  run_block (guard_if_present g b) s d tr o s' d'.
Proof.
  intros H R. unfold guard_if_present. destruct (is_nil b) eqn:E.
  - destruct b; [|discriminate]. exact R.
  - apply run_one. change tr with ([] ++ tr). eapply RIf; [simpl; rewrite H; reflexivity | exact R].
Qed.

Lemma from_loop_claim c body orelse f k d tr o d' :
  outside k f -> loop_claim (SWhile c body orelse) f k d tr o d' ->
  forall sl, exists sl', run_block (fst (fst (brk_stmt f k (SWhile c body orelse)))) sl d tr (bo o) sl' d'
                         /\ post f k o (snd (brk_stmt f k (SWhile c body orelse))) sl sl'.
Proof.
  intros Of C sl. simpl in *.
  destruct (brk_block (bflag k) (S k) body) as [[body' k1] used] eqn:E1.
  destruct (brk_block f k1 orelse) as [[orelse' k2] uo] eqn:E2.
  destruct used; simpl.
  - destruct (C (upd sl (bflag k) false)) as [sl' [R [A1 [A2 A3]]]].
    { intros _. unfold upd. rewrite Nat.eqb_refl. reflexivity. }
    exists sl'. split.
    + change tr with ([] ++ tr). eapply RConsN; [constructor | apply run_one; exact R].
    + assert (U : forall h, h <> bflag k -> upd sl (bflag k) false h = sl h).
      { intros h N. unfold upd. destruct (Nat.eqb h (bflag k)) eqn:E; [apply Nat.eqb_eq in E; congruence | reflexivity]. }
      split; [exact A1|]. split.
      * intros N. rewrite (A2 N). apply U, outside_g, Of.
      * intros h Oh Nf. rewrite (A3 h Oh Nf). apply U. apply Oh. lia.
  - destruct (C sl) as [sl' [R Po]]; [discriminate|]. exists sl'. split; [apply run_one; exact R | exact Po].
Qed.


Lemma bo_normal o : bo o = ONormal <-> o = ONormal.
Proof. destruct o; simpl; split; congruence. Qed.

Lemma post_u_mono f k o u u' sa sb : (u = true -> u' = true) -> post f k o u sa sb -> post f k o u' sa sb.
Proof. intros M [A1 [A2 A3]]. split; [|split; assumption]. intros E. destruct (A1 E) as [X Y]. split; [exact X | apply M, Y]. Qed.

Lemma post_then_normal f k k' o u u' sa sb sc :
  k <= k' -> post f k o u sa sb -> post f k' ONormal u' sb sc -> post f k o u sa sc.
Proof.
  intros L [A1 [A2 A3]] [_ [B2 B3]]. assert (N : ONormal <> OBrk) by discriminate.
  split; [|split].
  - intros E. destruct (A1 E) as [X Y]. split; [rewrite (B2 N); exact X | exact Y].
  - intros E. rewrite (B2 N). apply A2, E.
  - intros h Oh Nf. rewrite (B3 h); [apply A3; assumption | intros j Hj; apply Oh; lia | exact Nf].
Qed.

Theorem brk_correct_all :
  (forall st s d tr o s' d', run_stmt st s d tr o s' d' -> ok_stmt st s d tr o s' d') /\
  (forall b s d tr o s' d', run_block b s d tr o s' d' -> ok_block b s d tr o s' d').
Proof.
  apply run_mutind.
  - (* atom *) intros l s d _ f k Of. split; [|exact I]. intros sl. exists sl. simpl. pose proof (RAtom l sl d) as R.
    destruct (fst (atom_res l d)); simpl; (split; [apply run_one; exact R | apply post_refl; discriminate]).
  - (* set: not plain *) intros f0 v s d P; discriminate.
  - (* break *) intros s d _ f k Of. split; [|exact I]. intros sl. exists (upd sl f true). simpl. split.
    + change (@nil label) with (@nil label ++ []). eapply RConsN; [constructor|]. apply RConsJ; [constructor | discriminate].
    + split; [|split].
      * intros _. split; [unfold upd; rewrite Nat.eqb_refl; reflexivity | reflexivity].
      * congruence.
      * intros h _ Nf. unfold upd. destruct (Nat.eqb h f) eqn:E; [apply Nat.eqb_eq in E; congruence | reflexivity].
  - (* continue *) intros s d _ f k Of. split; [|exact I]. intros sl. exists sl. simpl. split; [apply run_one; constructor | apply post_refl; discriminate].
  - (* return *) intros l s d _ f k Of. split; [|exact I]. intros sl. exists sl. simpl. pose proof (RReturn l sl d) as R.
    destruct (fst (atom_res l d)); simpl; (split; [apply run_one; exact R | apply post_refl; discriminate]).
  - (* if *)
    intros c b1 b2 s d v tc d1 tr o s' d' Ec _ IH P f k Of. split; [|exact I]. intros sl.
    simpl in P. apply andb_true_iff in P; destruct P as [P P2]. apply andb_true_iff in P; destruct P as [Pc P1].
    simpl. destruct (brk_block f k b1) as [[b1' k1] u1] eqn:E1. destruct (brk_block f k1 b2) as [[b2' k2] u2] eqn:E2.
    assert (L1 : k <= k1) by (pose proof (proj2 brk_mono b1 f k) as A; rewrite E1 in A; exact A).
    simpl. rewrite (ceval_plain c s sl d Pc) in Ec.
    destruct v.
    + destruct (IH P1 f k Of sl) as [sl' [R Po]]. rewrite E1 in R, Po. simpl in R, Po.
      exists sl'. split; [apply run_one; eapply RIf; [exact Ec | exact R]|].
      destruct o; try (apply post_jump; [discriminate | exact Po]).
      destruct Po as [A1 [A2 A3]]. split; [congruence|]. split; assumption.
    + destruct (IH P2 f k1 (outside_mono _ _ _ L1 Of) sl) as [sl' [R Po]]. rewrite E2 in R, Po. simpl in R, Po.
      exists sl'. split; [apply run_one; eapply RIf; [exact Ec | exact R]|].
      destruct Po as [A1 [A2 A3]]. split; [|split].
      * intros E. destruct (A1 E) as [X ->]. split; [exact X | apply orb_true_r].
      * exact A2.
      * intros h Oh Nf. apply A3; [intros j Hj; apply Oh; lia | exact Nf].
  - (* while: test false, else clause *)
    intros c body orelse s d tc d1 tr o s' d' Ec _ IHo P f k Of.
    simpl in P. apply andb_true_iff in P; destruct P as [P Po]. apply andb_true_iff in P; destruct P as [Pc Pb].
    assert (LC : loop_claim (SWhile c body orelse) f k d (tc ++ tr) o d').
    { simpl. destruct (brk_block (bflag k) (S k) body) as [[body' k1] used] eqn:E1.
      destruct (brk_block f k1 orelse) as [[orelse' k2] uo] eqn:E2.
      assert (L1 : S k <= k1) by (pose proof (proj2 brk_mono body (bflag k) (S k)) as A; rewrite E1 in A; exact A).
      intros sl Hg.
      assert (L0 : k <= k1) by lia.
      destruct (IHo Po f k1 (outside_mono _ _ _ L0 Of) sl) as [sl' [R Pt]]. rewrite E2 in R, Pt; simpl in R, Pt.
      exists sl'. split; [|eapply post_weaken; [|exact Pt]; lia].
      rewrite (ceval_plain c s sl d Pc) in Ec.
      destruct used.
      - eapply RWhileEnd; [simpl; rewrite (Hg eq_refl); exact Ec | apply guard_run; [apply Hg; reflexivity | exact R]].
      - eapply RWhileEnd; [exact Ec | exact R]. }
    split; [apply from_loop_claim; assumption | exact LC].
  - (* while: one more iteration *)
    intros c body orelse s d tc d1 tr o s1 d2 tr2 o2 s2 d3 Ec _ IHb Ho _ IHw P f k Of.
    pose proof P as P'. simpl in P. apply andb_true_iff in P; destruct P as [P Po]. apply andb_true_iff in P; destruct P as [Pc Pb].
    assert (LC : loop_claim (SWhile c body orelse) f k d (tc ++ tr ++ tr2) o2 d3).
    { destruct (IHw P' f k Of) as [_ LW]. simpl in LW |- *.
      pose proof (IHb Pb (bflag k) (S k) (outside_S k)) as IB.
      destruct (brk_block (bflag k) (S k) body) as [[body' k1] used] eqn:E1.
      destruct (brk_block f k1 orelse) as [[orelse' k2] uo] eqn:E2.
      intros sl Hg. destruct (IB sl) as [sl1 [Rb Pb1]]. simpl in Rb, Pb1.
      assert (Nb : o <> OBrk) by (destruct Ho as [-> | ->]; discriminate).
      assert (Eo : bo o = o) by (destruct Ho as [-> | ->]; reflexivity). rewrite Eo in Rb.
      destruct (body_keeps f k o used sl sl1 Of Pb1) as [Kf Kh].
      assert (Hg1 : used = true -> sl1 (bflag k) = false).
      { intros U. destruct Pb1 as [_ [A2 _]]. rewrite (A2 Nb). apply Hg, U. }
      destruct (LW sl1 Hg1) as [sl2 [Rw [B1 [B2 B3]]]].
      exists sl2. rewrite (ceval_plain c s sl d Pc) in Ec. split.
      - destruct used.
        + eapply RWhileIter; [simpl; rewrite (Hg eq_refl); exact Ec | exact Rb | exact Ho | exact Rw].
        + eapply RWhileIter; [exact Ec | exact Rb | exact Ho | exact Rw].
      - split; [exact B1|]. split.
        + intros N. rewrite (B2 N). exact Kf.
        + intros h Oh Nf. rewrite (B3 h Oh Nf). apply Kh; assumption. }
    split; [apply from_loop_claim; assumption | exact LC].
  - (* while: break *)
    intros c body orelse s d tc d1 tr s1 d2 Ec _ IHb P f k Of.
    simpl in P. apply andb_true_iff in P; destruct P as [P Po]. apply andb_true_iff in P; destruct P as [Pc Pb].
    assert (LC : loop_claim (SWhile c body orelse) f k d (tc ++ tr) ONormal d2).
    { simpl. pose proof (IHb Pb (bflag k) (S k) (outside_S k)) as IB.
      destruct (brk_block (bflag k) (S k) body) as [[body' k1] used] eqn:E1.
      destruct (brk_block f k1 orelse) as [[orelse' k2] uo] eqn:E2.
      intros sl Hg. destruct (IB sl) as [sl1 [Rb Pb1]]. simpl in Rb, Pb1.
      destruct (body_keeps f k OBrk used sl sl1 Of Pb1) as [Kf Kh].
      destruct Pb1 as [A1 _]. destruct (A1 eq_refl) as [G1 ->].
      exists sl1. rewrite (ceval_plain c s sl d Pc) in Ec. split.
      - replace (tc ++ tr) with (tc ++ tr ++ ([] ++ [])) by (simpl; rewrite app_nil_r; reflexivity).
        eapply RWhileIter; [simpl; rewrite (Hg eq_refl); exact Ec | exact Rb | right; reflexivity |].
        eapply RWhileEnd; [simpl; rewrite G1; reflexivity | apply guard_skip, G1].
      - split; [discriminate|]. split; [intros _; exact Kf | intros h Oh Nf; apply Kh; assumption]. }
    split; [apply from_loop_claim; assumption | exact LC].
  - (* while: return / raise *)
    intros c body orelse s d tc d1 tr o s1 d2 Ec _ IHb Ho P f k Of.
    simpl in P. apply andb_true_iff in P; destruct P as [P Po]. apply andb_true_iff in P; destruct P as [Pc Pb].
    assert (Eo : bo o = o) by (destruct Ho as [-> | ->]; reflexivity).
    assert (LC : loop_claim (SWhile c body orelse) f k d (tc ++ tr) o d2).
    { simpl. pose proof (IHb Pb (bflag k) (S k) (outside_S k)) as IB.
      destruct (brk_block (bflag k) (S k) body) as [[body' k1] used] eqn:E1.
      destruct (brk_block f k1 orelse) as [[orelse' k2] uo] eqn:E2.
      intros sl Hg. destruct (IB sl) as [sl1 [Rb Pb1]]. simpl in Rb, Pb1.
      destruct (body_keeps f k o used sl sl1 Of Pb1) as [Kf Kh].
      exists sl1. rewrite (ceval_plain c s sl d Pc) in Ec. rewrite Eo in *. split.
      - destruct used.
        + eapply RWhileOut; [simpl; rewrite (Hg eq_refl); exact Ec | exact Rb | exact Ho].
        + eapply RWhileOut; [exact Ec | exact Rb | exact Ho].
      - split; [intros ->; destruct Ho; discriminate|]. split; [intros _; exact Kf | intros h Oh Nf; apply Kh; assumption]. }
    split; [apply from_loop_claim; assumption | exact LC].
  - (* with *)
    intros l body s d tr o s' d' _ IHb P f k Of. split; [|exact I]. intros sl.
    simpl in P. destruct (IHb P f k Of sl) as [sl' [R Po]].
    simpl. destruct (brk_block f k body) as [[body' k1] u1] eqn:E1. simpl in *.
    exists sl'. split; [apply run_one; apply RWith; exact R | exact Po].
  - (* try: body completes, else clause, finally *)
    intros body hs orelse final s d tr1 s1 d1 tr2 o2 s2 d2 tr3 s3 d3 _ IHb _ IHo _ IHf P f k Of. split; [|exact I]. intros sl.
    simpl in P. apply andb_true_iff in P; destruct P as [P P3]. apply andb_true_iff in P; destruct P as [P P2].
    apply andb_true_iff in P; destruct P as [P1 Ph].
    simpl.
    destruct (brk_block f k body) as [[body' k1] u1] eqn:E1.
    destruct (brk_blocks f k1 hs) as [[hs' k2] u2] eqn:E2.
    destruct (brk_block f k2 orelse) as [[orelse' k3] u3] eqn:E3.
    destruct (brk_block f k3 final) as [[final' k4] u4] eqn:E4.
    assert (L1 : k <= k1) by (pose proof (proj1 (proj2 brk_mono3) body f k) as X; rewrite E1 in X; exact X).
    assert (L2 : k1 <= k2) by (pose proof (proj2 (proj2 brk_mono3) hs f k1) as X; rewrite E2 in X; exact X).
    assert (L3 : k2 <= k3) by (pose proof (proj1 (proj2 brk_mono3) orelse f k2) as X; rewrite E3 in X; exact X).
    destruct (IHb P1 f k Of sl) as [sl1 [R1 Po1]]. rewrite E1 in R1, Po1; simpl in R1, Po1.
    assert (O2 : outside k2 f) by (eapply outside_mono; [|exact Of]; lia).
    destruct (IHo P2 f k2 O2 sl1) as [sl2 [R2 Po2]]. rewrite E3 in R2, Po2; simpl in R2, Po2.
    assert (O3 : outside k3 f) by (eapply outside_mono; [|exact Of]; lia).
    destruct (IHf P3 f k3 O3 sl2) as [sl3 [R3 Po3]]. rewrite E4 in R3, Po3; simpl in R3, Po3.
    exists sl3. simpl. split.
    + apply run_one. eapply RTryN; eassumption.
    + eapply post_u_mono; [|eapply post_then_normal; [|eapply post_trans; [|exact Po1|exact Po2]|exact Po3]]; try lia.
      intros H. apply orb_true_iff in H. destruct H as [->| ->]; rewrite ?orb_true_r; reflexivity.
  - (* try: body jumps, finally *)
    intros body hs orelse final s d tr1 ob s1 d1 tr3 s3 d3 _ IHb Nb Nr _ IHf P f k Of. split; [|exact I]. intros sl.
    simpl in P. apply andb_true_iff in P; destruct P as [P P3]. apply andb_true_iff in P; destruct P as [P P2].
    apply andb_true_iff in P; destruct P as [P1 Ph].
    simpl.
    destruct (brk_block f k body) as [[body' k1] u1] eqn:E1.
    destruct (brk_blocks f k1 hs) as [[hs' k2] u2] eqn:E2.
    destruct (brk_block f k2 orelse) as [[orelse' k3] u3] eqn:E3.
    destruct (brk_block f k3 final) as [[final' k4] u4] eqn:E4.
    assert (L1 : k <= k1) by (pose proof (proj1 (proj2 brk_mono3) body f k) as X; rewrite E1 in X; exact X).
    assert (L2 : k1 <= k2) by (pose proof (proj2 (proj2 brk_mono3) hs f k1) as X; rewrite E2 in X; exact X).
    assert (L3 : k2 <= k3) by (pose proof (proj1 (proj2 brk_mono3) orelse f k2) as X; rewrite E3 in X; exact X).
    destruct (IHb P1 f k Of sl) as [sl1 [R1 Po1]]. rewrite E1 in R1, Po1; simpl in R1, Po1.
    assert (O3 : outside k3 f) by (eapply outside_mono; [|exact Of]; lia).
    destruct (IHf P3 f k3 O3 sl1) as [sl3 [R3 Po3]]. rewrite E4 in R3, Po3; simpl in R3, Po3.
    exists sl3. simpl. split.
    + apply run_one. eapply RTryJ; [exact R1 | intros E; apply Nb; apply (proj1 (bo_normal ob)); exact E
                                   | intros E; apply Nr; apply (proj1 (bo_raise ob)); exact E | exact R3].
    + eapply post_u_mono; [|eapply post_then_normal; [|exact Po1|exact Po3]]; try lia.
      intros ->; reflexivity.
  - (* try: body raises, no handler, finally *)
    intros body hs orelse final s d tr1 s1 d1 d1' tr3 s3 d3 _ IHb Eh _ IHf P f k Of. split; [|exact I]. intros sl.
    simpl in P. apply andb_true_iff in P; destruct P as [P P3]. apply andb_true_iff in P; destruct P as [P P2].
    apply andb_true_iff in P; destruct P as [P1 Ph].
    simpl.
    pose proof (brk_dispatch_none hs f (snd (fst (brk_block f k body))) _ _ Eh) as Eh'.
    destruct (brk_block f k body) as [[body' k1] u1] eqn:E1.
    destruct (brk_blocks f k1 hs) as [[hs' k2] u2] eqn:E2.
    destruct (brk_block f k2 orelse) as [[orelse' k3] u3] eqn:E3.
    destruct (brk_block f k3 final) as [[final' k4] u4] eqn:E4.
    assert (L1 : k <= k1) by (pose proof (proj1 (proj2 brk_mono3) body f k) as X; rewrite E1 in X; exact X).
    assert (L2 : k1 <= k2) by (pose proof (proj2 (proj2 brk_mono3) hs f k1) as X; rewrite E2 in X; exact X).
    assert (L3 : k2 <= k3) by (pose proof (proj1 (proj2 brk_mono3) orelse f k2) as X; rewrite E3 in X; exact X).
    destruct (IHb P1 f k Of sl) as [sl1 [R1 Po1]]. rewrite E1 in R1, Po1; simpl in R1, Po1.
    assert (O3 : outside k3 f) by (eapply outside_mono; [|exact Of]; lia).
    destruct (IHf P3 f k3 O3 sl1) as [sl3 [R3 Po3]]. rewrite E4 in R3, Po3; simpl in R3, Po3.
    simpl in Eh'; rewrite E2 in Eh'; simpl in Eh'.
    exists sl3. simpl. split.
    + apply run_one. eapply RTryU; [exact R1 | exact Eh' | exact R3].
    + eapply post_u_mono; [|eapply post_then_normal; [|exact Po1|exact Po3]]; try lia.
      intros ->; reflexivity.
  - (* try: body raises, handler runs, finally *)
    intros body hs orelse final s d tr1 s1 d1 d1' h tr2 oh s2 d2 tr3 s3 d3 _ IHb Eh _ IHh _ IHf P f k Of. split; [|exact I]. intros sl.
    simpl in P. apply andb_true_iff in P; destruct P as [P P3]. apply andb_true_iff in P; destruct P as [P P2].
    apply andb_true_iff in P; destruct P as [P1 Ph].
    simpl.
    destruct (brk_dispatch hs f (snd (fst (brk_block f k body))) _ _ _ Eh) as [kk [Lk [Eh' Hu]]].
    destruct (brk_block f k body) as [[body' k1] u1] eqn:E1.
    destruct (brk_blocks f k1 hs) as [[hs' k2] u2] eqn:E2.
    destruct (brk_block f k2 orelse) as [[orelse' k3] u3] eqn:E3.
    destruct (brk_block f k3 final) as [[final' k4] u4] eqn:E4.
    assert (L1 : k <= k1) by (pose proof (proj1 (proj2 brk_mono3) body f k) as X; rewrite E1 in X; exact X).
    assert (L2 : k1 <= k2) by (pose proof (proj2 (proj2 brk_mono3) hs f k1) as X; rewrite E2 in X; exact X).
    assert (L3 : k2 <= k3) by (pose proof (proj1 (proj2 brk_mono3) orelse f k2) as X; rewrite E3 in X; exact X).
    simpl in Lk, Eh', Hu; rewrite E2 in Eh', Hu; simpl in Eh', Hu.
    destruct (IHb P1 f k Of sl) as [sl1 [R1 Po1]]. rewrite E1 in R1, Po1; simpl in R1, Po1.
    assert (Ok : outside kk f) by (eapply outside_mono; [|exact Of]; lia).
    destruct (IHh (plain_dispatch _ _ _ _ Ph Eh) f kk Ok sl1) as [sl2 [R2 Po2]].
    assert (O3 : outside k3 f) by (eapply outside_mono; [|exact Of]; lia).
    destruct (IHf P3 f k3 O3 sl2) as [sl3 [R3 Po3]]. rewrite E4 in R3, Po3; simpl in R3, Po3.
    exists sl3. simpl. split.
    + apply run_one. eapply RTryH; [exact R1 | exact Eh' | exact R2 | exact R3].
    + assert (Po1' : post f k ONormal false sl sl1) by (eapply post_nonbrk; [| |exact Po1]; discriminate).
      eapply post_u_mono; [|eapply post_then_normal; [|eapply post_trans; [|exact Po1'|exact Po2]|exact Po3]]; try lia.
      simpl. intros U. rewrite (Hu U). rewrite ?orb_true_r. reflexivity.
  - (* raise *) intros l s d _ f k Of. split; [|exact I]. intros sl. exists sl. simpl. split; [apply run_one; constructor | apply post_refl; discriminate].
  - (* nil *) intros s d _ f k Of sl. exists sl. simpl. split; [constructor | apply post_refl; discriminate].
  - (* cons, first statement completes *)
    intros st r s d tr s1 d1 tr2 o2 s2 d2 _ IHs _ IHr P f k Of sl.
    simpl in P. apply andb_true_iff in P; destruct P as [Ps Pr].
    destruct (IHs Ps f k Of) as [GS _]. destruct (GS sl) as [sl1 [R1 Po1]].
    simpl. destruct (brk_stmt f k st) as [[st' k1] u1] eqn:E1.
    assert (L1 : k <= k1) by (pose proof (proj1 brk_mono st f k) as A; rewrite E1 in A; exact A).
    destruct (IHr Pr f k1 (outside_mono _ _ _ L1 Of) sl1) as [sl2 [R2 Po2]].
    destruct (brk_block f k1 r) as [[r' k2] u2] eqn:E2. simpl in *.
    exists sl2. split; [eapply run_bapp; eassumption | eapply post_trans; eassumption].
  - (* cons, first statement jumps *)
    intros st r s d tr o s1 d1 _ IHs No P f k Of sl.
    simpl in P. apply andb_true_iff in P; destruct P as [Ps Pr].
    destruct (IHs Ps f k Of) as [GS _]. destruct (GS sl) as [sl1 [R1 Po1]].
    simpl. destruct (brk_stmt f k st) as [[st' k1] u1] eqn:E1.
    destruct (brk_block f k1 r) as [[r' k2] u2] eqn:E2. simpl in *.
    exists sl1. split; [apply run_bapp_jump; [exact R1 | destruct o; simpl; congruence] | apply post_jump; assumption].
Qed.


(* ---- top level ------------------------------------------------------------ *)
Lemma outside_0_2 : outside 0 5.
Proof. intros j _. unfold bflag. lia. Qed.

Theorem break_lowering_correct_lemma b s d tr o s' d' :
  run_block b s d tr o s' d' -> plain_block b = true -> o <> OBrk ->
  forall sl, exists sl', run_block (fst (fst (brk_block 5 0 b))) sl d tr o sl' d'.
Proof.
  intros R P No sl. destruct (proj2 brk_correct_all _ _ _ _ _ _ _ R P 5 0 outside_0_2 sl) as [sl' [R' _]].
  exists sl'. destruct o; try exact R'; congruence.
Qed.
