(* C01: executable models of the break and continue canonicalisation passes
   (malt/converters/break_statements.py, continue_statements.py) on Lower/Lang.v.
   Flags are numbered the way the Namer numbers them: the k-th loop visited (pre-order) owns
   break flag 3k and continue flag 3k+1, whether or not it ends up using them. *)
From Coq Require Import List Arith Bool.
Import ListNotations.
Require Import MV.Lower.Lang.

Definition bflag (k : nat) : flag := 3 * k.
Definition cflag (k : nat) : flag := 3 * k + 1.
Definition is_nil (b : block) : bool := match b with BNil => true | _ => false end.
Definition one (s : stmt) : block := BCons s BNil.

(* ---- break_statements.BreakTransformer ------------------------------------ *)
(* f: break flag of the innermost enclosing loop; returns (replacement, next loop number,
   whether a break of that enclosing loop was rewritten) *)
Definition guard_if_present (g : flag) (b : block) : block :=
  if is_nil b then BNil else one (SIf (CNot g) b BNil).

Fixpoint brk_stmt (f : flag) (k : nat) (st : stmt) : block * nat * bool :=
  match st with
  | SBreak => (BCons (SSet f true) (one SContinue), k, true)
  | SIf c b1 b2 =>
      let '(b1', k1, u1) := brk_block f k b1 in
      let '(b2', k2, u2) := brk_block f k1 b2 in
      (one (SIf c b1' b2'), k2, u1 || u2)
  | SWhile c body orelse =>
      let g := bflag k in
      let '(body', k1, used) := brk_block g (S k) body in
      let '(orelse', k2, uo) := brk_block f k1 orelse in      (* a break in the else clause belongs to the enclosing loop *)
      if used then
        (BCons (SSet g false) (one (SWhile (CAndNot g c) body' (guard_if_present g orelse'))), k2, uo)
      else (one (SWhile c body' orelse'), k2, uo)
  | _ => (one st, k, false)
  end
with brk_block (f : flag) (k : nat) (b : block) : block * nat * bool :=
  match b with
  | BNil => (BNil, k, false)
  | BCons st r =>
      let '(st', k1, u1) := brk_stmt f k st in
      let '(r', k2, u2) := brk_block f k1 r in
      (bapp st' r', k2, u1 || u2)
  end.

(* ---- continue_statements.ContinueCanonicalizationTransformer -------------- *)
(* c: continue flag of the innermost enclosing loop.  For a statement: (replacement, next loop number,
   hit) where hit = a continue of the enclosing loop was rewritten inside it (create_guard_next).
   For a block, `cur` says whether its first statement must be guarded (create_guard_current): once a
   guard is created the rest of the block moves inside it. *)
Fixpoint cont_stmt (c : flag) (k : nat) (st : stmt) : block * nat * bool :=
  match st with
  | SContinue => (one (SSet c true), k, true)
  | SIf t b1 b2 =>
      let '(b1', k1, h1) := cont_block c k false b1 in
      let '(b2', k2, h2) := cont_block c k1 false b2 in
      (one (SIf t b1' b2'), k2, h1 || h2)
  | SWhile t body orelse =>
      let g := cflag k in
      let '(body', k1, used) := cont_block g (S k) false body in
      let '(orelse', k2, ho) := cont_block c k1 false orelse in   (* a continue in the else clause belongs to the enclosing loop *)
      (one (SWhile t (if used then BCons (SSet g false) body' else body') orelse'), k2, ho)
  | _ => (one st, k, false)
  end
with cont_block (c : flag) (k : nat) (cur : bool) (b : block) : block * nat * bool :=
  match b with
  | BNil => (BNil, k, false)
  | BCons st r =>
      let '(st', k1, h1) := cont_stmt c k st in
      let '(r', k2, h2) := cont_block c k1 h1 r in
      let all := bapp st' r' in
      (if cur then one (SIf (CNot c) all BNil) else all, k2, h1 || h2)
  end.
