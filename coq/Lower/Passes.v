(* C01: executable models of the break and continue canonicalisation passes
   (malt/converters/break_statements.py, continue_statements.py) on Lower/Lang.v.
   Flags are numbered the way the Namer numbers them: the k-th loop visited (pre-order) owns
   break flag 3k and continue flag 3k+1, whether or not it ends up using them. *)
From Coq Require Import List Arith Bool.
Import ListNotations.
Require Import MV.Lower.Lang.

Definition bflag (k : nat) : flag := 3 * k.
Definition cflag (k : nat) : flag := 3 * k + 1.
Definition is_nil (b : block) : bool := match b with BNil => true | _ => false end.
Definition one (s : stmt) : block := BCons s BNil.

(* ---- break_statements.BreakTransformer ------------------------------------ *)
(* f: break flag of the innermost enclosing loop; returns (replacement, next loop number,
   whether a break of that enclosing loop was rewritten) *)
Definition guard_if_present (g : flag) (b : block) : block :=
  if is_nil b then BNil else one (SIf (CNot g) b BNil).

Fixpoint brk_stmt (f : flag) (k : nat) (st : stmt) : block * nat * bool :=
  match st with
  | SBreak => (BCons (SSet f true) (one SContinue), k, true)
  | SIf c b1 b2 =>
      let '(b1', k1, u1) := brk_block f k b1 in
      let '(b2', k2, u2) := brk_block f k1 b2 in
      (one (SIf c b1' b2'), k2, u1 || u2)
  | SWhile c body orelse =>
      let g := bflag k in
      let '(body', k1, used) := brk_block g (S k) body in
      let '(orelse', k2, uo) := brk_block f k1 orelse in      (* a break in the else clause belongs to the enclosing loop *)
      if used then
        (BCons (SSet g false) (one (SWhile (CAndNot g c) body' (guard_if_present g orelse'))), k2, uo)
      else (one (SWhile c body' orelse'), k2, uo)
  | STry body hs orelse final =>     (* generic_visit: fields in the order body, handlers, orelse, finalbody *)
      let '(body', k1, u1) := brk_block f k body in
      let '(hs', k2, u2) := brk_blocks f k1 hs in
      let '(orelse', k3, u3) := brk_block f k2 orelse in
      let '(final', k4, u4) := brk_block f k3 final in
      (one (STry body' hs' orelse' final'), k4, u1 || u2 || u3 || u4)
  | SWith l body =>
      let '(body', k1, u1) := brk_block f k body in (one (SWith l body'), k1, u1)
  | _ => (one st, k, false)
  end
with brk_block (f : flag) (k : nat) (b : block) : block * nat * bool :=
  match b with
  | BNil => (BNil, k, false)
  | BCons st r =>
      let '(st', k1, u1) := brk_stmt f k st in
      let '(r', k2, u2) := brk_block f k1 r in
      (bapp st' r', k2, u1 || u2)
  end
with brk_blocks (f : flag) (k : nat) (h : blocks) : blocks * nat * bool :=
  match h with
  | HNil => (HNil, k, false)
  | HCons a b r =>
      let '(b', k1, u1) := brk_block f k b in
      let '(r', k2, u2) := brk_blocks f k1 r in
      (HCons a b' r', k2, u1 || u2)
  end.

(* ---- continue_statements.ContinueCanonicalizationTransformer -------------- *)
(* c: continue flag of the innermost enclosing loop.  For a statement: (replacement, next loop number,
   hit) where hit = a continue of the enclosing loop was rewritten inside it (create_guard_next).
   For a block, `cur` says whether its first statement must be guarded (create_guard_current): once a
   guard is created the rest of the block moves inside it. *)
Fixpoint cont_stmt (c : flag) (k : nat) (u : bool) (st : stmt) : block * nat * bool :=
  (* u: a continue of the enclosing loop has already been rewritten (state[_Continue].used) *)
  match st with
  | SContinue => (one (SSet c true), k, true)
  | SIf t b1 b2 =>
      let '(b1', k1, h1) := cont_block c k u false b1 in
      let '(b2', k2, h2) := cont_block c k1 (u || h1) false b2 in
      (one (SIf t b1' b2'), k2, h1 || h2)
  | SWhile t body orelse =>
      let g := cflag k in
      let '(body', k1, used) := cont_block g (S k) false false body in
      let '(orelse', k2, ho) := cont_block c k1 u false orelse in   (* a continue in the else clause belongs to the enclosing loop *)
      (one (SWhile t (if used then BCons (SSet g false) body' else body') orelse'), k2, ho)
  | STry body hs orelse final =>     (* visit_Try: body, orelse, finalbody, handlers (in that order) *)
      let '(body', k1, h1) := cont_block c k u false body in
      let '(orelse', k2, h2) := cont_block c k1 (u || h1) false orelse in
      (* the else clause is skipped once a continue (or lowered break) of the body became a flag *)
      let orelse'' := if negb (is_nil orelse') && h1 then one (SIf (CNot c) orelse' BNil) else orelse' in
      let '(final', k3, h3) := cont_block c k2 (u || h1 || h2) false final in
      let '(hs', k4, h4) := cont_blocks c k3 (u || h1 || h2 || h3) hs in
      (one (STry body' hs' orelse'' final'), k4, h1 || h2 || h3 || h4)
  | SWith l body =>
      let '(body', k1, h1) := cont_block c k u false body in (one (SWith l body'), k1, h1)
  | _ => (one st, k, false)
  end
with cont_block (c : flag) (k : nat) (u : bool) (cur : bool) (b : block) : block * nat * bool :=
  match b with
  | BNil => (BNil, k, false)
  | BCons st r =>
      let '(st', k1, h1) := cont_stmt c k u st in
      let '(r', k2, h2) := cont_block c k1 (u || h1) h1 r in
      let all := bapp st' r' in
      (if cur then one (SIf (CNot c) all BNil) else all, k2, h1 || h2)
  end
with cont_blocks (c : flag) (k : nat) (u : bool) (h : blocks) : blocks * nat * bool :=
  match h with
  | HNil => (HNil, k, false)
  | HCons a b r =>
      let '(b', k1, h1) := cont_block c k u false b in
      let '(r', k2, h2) := cont_blocks c k1 (u || h1) r in
      (HCons a b' r', k2, h1 || h2)
  end.

(* ---- return_statements.ConditionalReturnRewriter ---------------------------- *)
(* returns (replacement, definitely_returns contribution of this statement to its block,
            redirect: where the following statements of the block must be moved) *)
Inductive redirect : Set := RNone | RIntoOrelse | RIntoBody.

Fixpoint crr_stmt (st : stmt) : stmt * bool * redirect :=
  match st with
  | SReturn _ => (st, true, RNone)
  | SIf c b1 b2 =>
      let '(b1', d1) := crr_block b1 in
      let '(b2', d2) := crr_block b2 in
      (SIf c b1' b2', d1 && d2, if d1 then RIntoOrelse else if d2 then RIntoBody else RNone)
  | SWhile c body orelse =>
      let '(body', _) := crr_block body in
      let '(orelse', _) := crr_block orelse in
      (SWhile c body' orelse', false, RNone)
  | SWith l body =>
      let '(body', d) := crr_block body in (SWith l body', d, RNone)
  | STry body hs orelse final =>
      let '(body', _) := crr_block body in
      let '(orelse', _) := crr_block orelse in
      let '(final', _) := crr_block final in
      (STry body' (crr_blocks hs) orelse' final', false, RNone)
  | _ => (st, false, RNone)
  end
with crr_block (b : block) : block * bool :=
  match b with
  | BNil => (BNil, false)
  | BCons st r =>
      let '(st', d1, rd) := crr_stmt st in
      let '(r', d2) := crr_block r in
      (match rd, st' with
       | RIntoOrelse, SIf c b1 b2 => one (SIf c b1 (bapp b2 r'))
       | RIntoBody, SIf c b1 b2 => one (SIf c (bapp b1 r') b2)
       | _, _ => BCons st' r'
       end, d1 || d2)
  end
with crr_blocks (h : blocks) : blocks :=
  match h with HNil => HNil | HCons a b r => HCons a (fst (crr_block b)) (crr_blocks r) end.

(* ---- return_statements.ReturnStatementsTransformer -------------------------- *)
Definition rflag : flag := 2.       (* do_return *)
(* `try: do_return = True; retval_ = <value> / except: do_return = False; raise` *)
Definition lowered_return (l : label) : stmt :=
  STry (BCons (SSet rflag true) (one (SAtom l))) (HCons true (BCons (SSet rflag false) (one (SRaise 0))) HNil) BNil BNil.

(* used: return_used of the enclosing block so far (decides whether loop tests get `not do_return and`);
   result (replacement, hit) where hit = a return was lowered inside (create_guard_next / return_used) *)
Fixpoint ret_stmt (used : bool) (st : stmt) : block * bool :=
  match st with
  | SReturn l => (one (lowered_return l), true)
  | SIf c b1 b2 =>
      let '(b1', h1) := ret_block false false b1 in
      let '(b2', h2) := ret_block false false b2 in
      (one (SIf c b1' b2'), h1 || h2)
  | SWhile c body orelse =>
      let '(body', hb) := ret_block false false body in
      let c' := if used || hb then CAndNot rflag c else c in
      let '(orelse', ho) := ret_block false false orelse in
      (one (SWhile c' body' orelse'), hb || ho)
  | SWith l body =>
      let '(body', h) := ret_block false false body in (one (SWith l body'), h)
  | STry body hs orelse final =>
      let '(body', h1) := ret_block false false body in
      let '(orelse', h2) := ret_block false false orelse in
      let orelse'' := if negb (is_nil orelse') && h1 then one (SIf (CNot rflag) orelse' BNil) else orelse' in
      let '(final', h3) := ret_block false false final in
      let '(hs', h4) := ret_blocks hs in
      (one (STry body' hs' orelse'' final'), h1 || h2 || h3 || h4)
  | _ => (one st, false)
  end
with ret_block (cur used : bool) (b : block) : block * bool :=
  match b with
  | BNil => (BNil, false)
  | BCons st r =>
      let '(st', h1) := ret_stmt used st in
      let '(r', h2) := ret_block h1 (used || h1) r in
      let all := bapp st' r' in
      (if cur then one (SIf (CNot rflag) all BNil) else all, h1 || h2)
  end
with ret_blocks (h : blocks) : blocks * bool :=
  match h with
  | HNil => (HNil, false)
  | HCons a b r =>
      let '(b', h1) := ret_block false false b in
      let '(r', h2) := ret_blocks r in
      (HCons a b' r', h1 || h2)
  end.
