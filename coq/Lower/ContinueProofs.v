(* C01: correctness of the continue canonicalisation pass (model: Passes.cont_block). *)
From Coq Require Import List Arith Bool Lia.
Import ListNotations.
Require Import MV.Lower.Lang MV.Lower.LangProofs MV.Lower.Passes.

Scheme stmt_ind3 := Induction for stmt Sort Prop
  with block_ind3 := Induction for block Sort Prop
  with blocks_ind3 := Induction for blocks Sort Prop.
Combined Scheme stmt_block_ind3 from stmt_ind3, block_ind3, blocks_ind3.

(* a flag of the continue pass *)
Definition ckind (f : flag) : bool := Nat.eqb (f mod 3) 1.

(* no break / continue / return at all: required of finally clauses (a jump in a finally clause would
   override a pending jump; the semantics gives no rule to jumps out of finally and the passes guard
   the rest of such a clause by the flag of the pending jump) *)
Fixpoint jfree_stmt (st : stmt) : bool :=
  match st with
  | SBreak | SContinue | SReturn _ => false
  | SIf _ b1 b2 | SWhile _ b1 b2 => jfree_block b1 && jfree_block b2
  | STry b1 hs b2 b3 => jfree_block b1 && jfree_blocks hs && jfree_block b2 && jfree_block b3
  | SWith _ b1 => jfree_block b1
  | _ => true
  end
with jfree_block (b : block) : bool :=
  match b with BNil => true | BCons st r => jfree_stmt st && jfree_block r end
with jfree_blocks (h : blocks) : bool :=
  match h with HNil => true | HCons _ b r => jfree_block b && jfree_blocks r end.

Fixpoint clean_cond (c : cond) : bool :=
  match c with CUser _ => true | CNot f => negb (ckind f) | CAndNot f c' => negb (ckind f) && clean_cond c' end.
Fixpoint clean_stmt (st : stmt) : bool :=
  match st with
  | SSet f _ => negb (ckind f)
  | SIf c b1 b2 => clean_cond c && clean_block b1 && clean_block b2
  | SWhile c b1 b2 => clean_cond c && clean_block b1 && clean_block b2
  | STry b1 hs b2 b3 => clean_block b1 && clean_blocks hs && clean_block b2 && clean_block b3 && jfree_block b3
  | SWith _ b1 => clean_block b1
  | _ => true
  end
with clean_block (b : block) : bool :=
  match b with BNil => true | BCons st r => clean_stmt st && clean_block r end
with clean_blocks (h : blocks) : bool :=
  match h with HNil => true | HCons _ b r => clean_block b && clean_blocks r end.

Lemma clean_hsel hs : forall n h, clean_blocks hs = true -> hsel hs n = Some h -> clean_block h = true.
Proof.
  induction hs as [|a b r IH]; intros n h P E; simpl in *; [discriminate|].
  apply andb_true_iff in P; destruct P as [Pb Pr]. destruct n; [injection E as <-; exact Pb | eapply IH; eassumption].
Qed.

Definition agree (s sl : store) : Prop := forall h, ckind h = false -> sl h = s h.
Definition outside_c (k : nat) (f : flag) : Prop := forall j, k <= j -> f <> cflag j.
Definition co (o : outcome) : outcome := match o with OCont => ONormal | _ => o end.

Lemma ckind_cflag k : ckind (cflag k) = true.
Proof. unfold ckind, cflag. apply Nat.eqb_eq. rewrite Nat.add_comm, Nat.mul_comm. apply Nat.mod_add; lia. Qed.

Lemma cflag_inj a b : cflag a = cflag b -> a = b.
Proof. unfold cflag; lia. Qed.

Lemma ceval_agree c s sl d : clean_cond c = true -> agree s sl -> ceval c sl d = ceval c s d.
Proof.
  intros C A. induction c as [l|f|f c IH]; simpl in *.
  - reflexivity.
  - apply negb_true_iff in C. rewrite (A f C). reflexivity.
  - apply andb_true_iff in C; destruct C as [C1 C2]. apply negb_true_iff in C1. rewrite (A f C1).
    destruct (s f); [reflexivity | apply IH, C2].
Qed.

Lemma agree_upd_clean s sl f v : agree s sl -> agree (upd s f v) (upd sl f v).
Proof. intros A h H. unfold upd. destruct (Nat.eqb h f); [reflexivity | apply A, H]. Qed.

Lemma agree_upd_c s sl f v : ckind f = true -> agree s sl -> agree s (upd sl f v).
Proof.
  intros K A h H. unfold upd. destruct (Nat.eqb h f) eqn:E; [|apply A, H].
  apply Nat.eqb_eq in E; subst. congruence.
Qed.

Lemma upd_same s f v : upd s f v f = v.
Proof. unfold upd. rewrite Nat.eqb_refl. reflexivity. Qed.
Lemma upd_other s f v h : h <> f -> upd s f v h = s h.
Proof. intros N. unfold upd. destruct (Nat.eqb h f) eqn:E; [apply Nat.eqb_eq in E; congruence | reflexivity]. Qed.

Lemma cont_mono3 :
  (forall st c k u, snd (fst (cont_stmt c k u st)) >= k) /\ (forall b c k u cur, snd (fst (cont_block c k u cur b)) >= k)
  /\ (forall h c k u, snd (fst (cont_blocks c k u h)) >= k).
Proof.
  apply stmt_block_ind3.
  - intros l c k u; simpl; lia.
  - intros f0 v c k u; simpl; lia.
  - intros t b1 IH1 b2 IH2 c k u; simpl.
    destruct (cont_block c k u false b1) as [[b1' k1] u1] eqn:E1. destruct (cont_block c k1 (u || u1) false b2) as [[b2' k2] u2] eqn:E2.
    simpl. pose proof (IH1 c k u false) as A. pose proof (IH2 c k1 (u || u1) false) as B. rewrite E1 in A; rewrite E2 in B; simpl in *; lia.
  - intros t body IH1 orelse IH2 c k u; simpl.
    destruct (cont_block (cflag k) (S k) false false body) as [[b1' k1] u1] eqn:E1.
    destruct (cont_block c k1 u false orelse) as [[b2' k2] u2] eqn:E2.
    pose proof (IH1 (cflag k) (S k) false false) as A. pose proof (IH2 c k1 u false) as B. rewrite E1 in A; rewrite E2 in B; simpl in *. lia.
  - intros c k u; simpl; lia.
  - intros c k u; simpl; lia.
  - intros l c k u; simpl; lia.
  - (* STry *) intros body IH1 hs IH2 orelse IH3 final IH4 c k u; simpl.
    destruct (cont_block c k u false body) as [[b1 k1] u1] eqn:E1. destruct (cont_block c k1 (u || u1) false orelse) as [[b2 k2] u2] eqn:E2.
    destruct (cont_block c k2 (u || u1 || u2) false final) as [[b3 k3] u3] eqn:E3. destruct (cont_blocks c k3 (u || u1 || u2 || u3) hs) as [[b4 k4] u4] eqn:E4.
    pose proof (IH1 c k u false) as A1. pose proof (IH3 c k1 (u || u1) false) as A2. pose proof (IH4 c k2 (u || u1 || u2) false) as A3. pose proof (IH2 c k3 (u || u1 || u2 || u3)) as A4.
    rewrite E1 in A1; rewrite E2 in A2; rewrite E3 in A3; rewrite E4 in A4; simpl in *; lia.
  - (* SWith *) intros l body IH c k u; simpl.
    destruct (cont_block c k u false body) as [[b1 k1] u1] eqn:E1. pose proof (IH c k u false) as A. rewrite E1 in A; simpl in *; lia.
  - (* SRaise *) intros l c k u; simpl; lia.
  - intros c k u cur; simpl; lia.
  - intros st IH1 r IH2 c k u cur; simpl.
    destruct (cont_stmt c k u st) as [[s' k1] u1] eqn:E1. destruct (cont_block c k1 (u || u1) u1 r) as [[r' k2] u2] eqn:E2.
    pose proof (IH1 c k u) as A. pose proof (IH2 c k1 (u || u1) u1) as B. rewrite E1 in A; rewrite E2 in B; simpl in *; lia.
  - intros c k u; simpl; lia.
  - intros a b IH1 r IH2 c k u; simpl.
    destruct (cont_block c k u false b) as [[b' k1] u1] eqn:E1. destruct (cont_blocks c k1 (u || u1) r) as [[r' k2] u2] eqn:E2.
    pose proof (IH1 c k u false) as A. pose proof (IH2 c k1 (u || u1)) as B. rewrite E1 in A; rewrite E2 in B; simpl in *; lia.
Qed.

Lemma cont_mono :
  (forall st c k u, snd (fst (cont_stmt c k u st)) >= k) /\ (forall b c k u cur, snd (fst (cont_block c k u cur b)) >= k).
Proof. split; [exact (proj1 cont_mono3) | exact (proj1 (proj2 cont_mono3))]. Qed.

Lemma jfree_nohit :
  (forall st, jfree_stmt st = true -> forall c k u, snd (cont_stmt c k u st) = false) /\
  (forall b, jfree_block b = true -> forall c k u cur, snd (cont_block c k u cur b) = false) /\
  (forall h, jfree_blocks h = true -> forall c k u, snd (cont_blocks c k u h) = false).
Proof.
  apply stmt_block_ind3.
  - intros l _ c k u; reflexivity.
  - intros f v _ c k u; reflexivity.
  - intros t b1 IH1 b2 IH2 J c k u. simpl in J. apply andb_true_iff in J; destruct J as [J1 J2]. simpl.
    pose proof (IH1 J1 c k u false) as A. destruct (cont_block c k u false b1) as [[b1' k1] h1]. simpl in A; subst h1.
    pose proof (IH2 J2 c k1 (u || false) false) as B. destruct (cont_block c k1 (u || false) false b2) as [[b2' k2] h2].
    simpl in *; subst; reflexivity.
  - intros t body IH1 orelse IH2 J c k u. simpl in J. apply andb_true_iff in J; destruct J as [J1 J2]. simpl.
    destruct (cont_block (cflag k) (S k) false false body) as [[b1' k1] h1].
    pose proof (IH2 J2 c k1 u false) as B. destruct (cont_block c k1 u false orelse) as [[b2' k2] h2]. simpl in *; exact B.
  - intros J; discriminate.
  - intros J; discriminate.
  - intros l J; discriminate.
  - intros body IH1 hs IH2 orelse IH3 final IH4 J c k u. simpl in J.
    apply andb_true_iff in J; destruct J as [J J4]. apply andb_true_iff in J; destruct J as [J J3].
    apply andb_true_iff in J; destruct J as [J1 J2]. simpl.
    pose proof (IH1 J1 c k u false) as A1. destruct (cont_block c k u false body) as [[b1 k1] h1]. simpl in A1; subst h1.
    pose proof (IH3 J3 c k1 (u || false) false) as A2. destruct (cont_block c k1 (u || false) false orelse) as [[b2 k2] h2]. simpl in A2; subst h2.
    pose proof (IH4 J4 c k2 (u || false || false) false) as A3. destruct (cont_block c k2 (u || false || false) false final) as [[b3 k3] h3]. simpl in A3; subst h3.
    pose proof (IH2 J2 c k3 (u || false || false || false)) as A4. destruct (cont_blocks c k3 (u || false || false || false) hs) as [[b4 k4] h4]. simpl in A4; subst h4.
    reflexivity.
  - intros l body IH J c k u. simpl in J |- *.
    pose proof (IH J c k u false) as A. destruct (cont_block c k u false body) as [[b1 k1] h1]. exact A.
  - intros l _ c k u; reflexivity.
  - intros _ c k u cur; reflexivity.
  - intros st IH1 r IH2 J c k u cur. simpl in J. apply andb_true_iff in J; destruct J as [J1 J2]. simpl.
    pose proof (IH1 J1 c k u) as A. destruct (cont_stmt c k u st) as [[st' k1] h1]. simpl in A; subst h1.
    pose proof (IH2 J2 c k1 (u || false) false) as B. destruct (cont_block c k1 (u || false) false r) as [[r' k2] h2]. simpl in B; subst h2.
    reflexivity.
  - intros _ c k u; reflexivity.
  - intros a b IH1 r IH2 J c k u. simpl in J. apply andb_true_iff in J; destruct J as [J1 J2]. simpl.
    pose proof (IH1 J1 c k u false) as A. destruct (cont_block c k u false b) as [[b' k1] h1]. simpl in A; subst h1.
    pose proof (IH2 J2 c k1 (u || false)) as B. destruct (cont_blocks c k1 (u || false) r) as [[r' k2] h2]. simpl in B; subst h2.
    reflexivity.
Qed.

(* the handler an exception is dispatched to is lowered like any block *)
Lemma cont_hsel hs : forall c k u n h, hsel hs n = Some h ->
  exists kk uu, k <= kk /\ hsel (fst (fst (cont_blocks c k u hs))) n = Some (fst (fst (cont_block c kk uu false h))) /\
                (snd (cont_block c kk uu false h) = true -> snd (cont_blocks c k u hs) = true).
Proof.
  induction hs as [|a b r IH]; intros c k u n h E; simpl in *; [discriminate|].
  destruct (cont_block c k u false b) as [[b' k1] u1] eqn:E1. destruct (cont_blocks c k1 (u || u1) r) as [[r' k2] u2] eqn:E2.
  destruct n.
  - injection E as <-. exists k, u. rewrite E1. simpl. split; [lia|]. split; [reflexivity | intros ->; reflexivity].
  - destruct (IH c k1 (u || u1) n h E) as [kk [uu [L [Hs Hu]]]]. rewrite E2 in Hs, Hu. simpl in *.
    assert (L1 : k <= k1) by (pose proof (proj1 (proj2 cont_mono3) b c k u false) as X; rewrite E1 in X; exact X).
    exists kk, uu. split; [lia|]. split; [exact Hs | intros U; rewrite (Hu U); apply orb_true_r].
Qed.

Lemma cont_hsel_none hs : forall c k u n, hsel hs n = None -> hsel (fst (fst (cont_blocks c k u hs))) n = None.
Proof.
  induction hs as [|a b r IH]; intros c k u n E; simpl in *; [reflexivity|].
  destruct (cont_block c k u false b) as [[b' k1] u1] eqn:E1. destruct (cont_blocks c k1 (u || u1) r) as [[r' k2] u2] eqn:E2.
  destruct n; [discriminate|]. simpl. pose proof (IH c k1 (u || u1) n E) as X. rewrite E2 in X. exact X.
Qed.

Lemma cont_dispatch hs c k u d h d' : dispatch hs d = (Some h, d') ->
  exists kk uu, k <= kk /\ dispatch (fst (fst (cont_blocks c k u hs))) d = (Some (fst (fst (cont_block c kk uu false h))), d') /\
                (snd (cont_block c kk uu false h) = true -> snd (cont_blocks c k u hs) = true).
Proof.
  intros E. destruct hs as [|a b r]; [discriminate|]. destruct a.
  - simpl in E. injection E as <- <-. exists k, u. simpl.
    destruct (cont_block c k u false b) as [[b' k1] u1]. destruct (cont_blocks c k1 (u || u1) r) as [[r' k2] u2]. simpl.
    split; [lia|]. split; [reflexivity | intros ->; reflexivity].
  - assert (E' : hsel (HCons false b r) (dnat d) = Some h /\ d' = dtail d) by (simpl in E |- *; injection E as E1 E2; auto).
    destruct E' as [E1 ->]. destruct (cont_hsel _ c k u _ _ E1) as [kk [uu [L [Hs Hu]]]]. exists kk, uu. split; [exact L|]. split; [|exact Hu].
    simpl in Hs |- *. destruct (cont_block c k u false b) as [[b' k1] u1]. destruct (cont_blocks c k1 (u || u1) r) as [[r' k2] u2]. simpl in *.
    rewrite Hs. reflexivity.
Qed.

Lemma cont_dispatch_none hs c k u d d' : dispatch hs d = (None, d') ->
  dispatch (fst (fst (cont_blocks c k u hs))) d = (None, d').
Proof.
  intros E. destruct hs as [|a b r]; [exact E|]. destruct a; [discriminate|].
  assert (E' : hsel (HCons false b r) (dnat d) = None /\ d' = dtail d) by (simpl in E |- *; injection E as E1 E2; auto).
  destruct E' as [E1 ->]. pose proof (cont_hsel_none _ c k u _ E1) as Hs.
  simpl in Hs |- *. destruct (cont_block c k u false b) as [[b' k1] u1]. destruct (cont_blocks c k1 (u || u1) r) as [[r' k2] u2]. simpl in *.
  rewrite Hs. reflexivity.
Qed.

Lemma clean_dispatch hs d h d' : clean_blocks hs = true -> dispatch hs d = (Some h, d') -> clean_block h = true.
Proof.
  intros P E. destruct hs as [|a b r]; [discriminate|]. destruct a.
  - simpl in E, P. injection E as <- _. apply andb_true_iff in P. apply P.
  - apply (clean_hsel (HCons false b r) (dnat d)); [exact P|]. simpl in E |- *. injection E as E1 _. exact E1.
Qed.

Definition cpost (c : flag) (k : nat) (o : outcome) (hit : bool) (sl sl' : store) : Prop :=
  (o = OCont -> sl' c = true /\ hit = true) /\ (o <> OCont -> sl' c = sl c) /\
  (forall h, ckind h = true -> outside_c k h -> h <> c -> sl' h = sl h).

Definition cok_stmt (st : stmt) (s : store) (d : decisions) (tr : list label) (o : outcome) (s' : store) (d' : decisions) : Prop :=
  clean_stmt st = true -> forall c k u sl, outside_c k c -> ckind c = true -> agree s sl ->
    (snd (cont_stmt c k u st) = true -> sl c = false) ->
    exists sl', run_block (fst (fst (cont_stmt c k u st))) sl d tr (co o) sl' d' /\ agree s' sl'
                /\ cpost c k o (snd (cont_stmt c k u st)) sl sl'.

Definition cok_block (b : block) (s : store) (d : decisions) (tr : list label) (o : outcome) (s' : store) (d' : decisions) : Prop :=
  clean_block b = true -> forall c k u cur sl, outside_c k c -> ckind c = true -> agree s sl ->
    (cur = true \/ snd (cont_block c k u cur b) = true -> sl c = false) ->
    exists sl', run_block (fst (fst (cont_block c k u cur b))) sl d tr (co o) sl' d' /\ agree s' sl'
                /\ cpost c k o (snd (cont_block c k u cur b)) sl sl'.

Lemma cpost_refl c k o sl : o <> OCont -> cpost c k o false sl sl.
Proof. intros N; split; [congruence|]. split; reflexivity. Qed.

Lemma outside_c_mono k k' f : k <= k' -> outside_c k f -> outside_c k' f.
Proof. intros L O j Hj; apply O; lia. Qed.

Lemma skip_rest r c k u sl d : sl c = true ->
  run_block (fst (fst (cont_block c k u true r))) sl d [] ONormal sl d.
Proof.
  intros H. destruct r as [|st r]; simpl; [constructor|].
  destruct (cont_stmt c k u st) as [[st' k1] h1]. destruct (cont_block c k1 (u || h1) h1 r) as [[r' k2] h2]. simpl.
  apply run_one. change (@nil label) with (@nil label ++ []).
  eapply RIf; [simpl; rewrite H; reflexivity | constructor].
Qed.

Lemma wrap cur c all sl d tr o sl' d' : (cur = true -> sl c = false) ->
  run_block all sl d tr o sl' d' ->
  run_block (if cur then one (SIf (CNot c) all BNil) else all) sl d tr o sl' d'.
Proof.
  intros H R. destruct cur; [|exact R]. apply run_one. change tr with ([] ++ tr).
  eapply RIf; [simpl; rewrite (H eq_refl); reflexivity | exact R].
Qed.

Definition cloop_claim (st : stmt) (s : store) (c : flag) (k : nat) (u : bool) (d : decisions) (tr : list label) (o : outcome)
           (s' : store) (d' : decisions) : Prop :=
  match st with
  | SWhile t body orelse =>
      let g := cflag k in
      let '(body', k1, used) := cont_block g (S k) false false body in
      let '(orelse', k2, ho) := cont_block c k1 u false orelse in
      forall sl, agree s sl -> (ho = true -> sl c = false) ->
        exists sl', run_stmt (SWhile t (if used then BCons (SSet g false) body' else body') orelse') sl d tr (co o) sl' d'
                    /\ agree s' sl' /\ cpost c k o ho sl sl'
  | _ => True
  end.

Lemma outside_c_g k f : outside_c k f -> f <> cflag k.
Proof. intros O; apply O; lia. Qed.
Lemma outside_c_S k : outside_c (S k) (cflag k).
Proof. intros j Hj E. apply cflag_inj in E. lia. Qed.

Lemma cbody_keeps c k o u sl sl1 : outside_c k c -> ckind c = true -> cpost (cflag k) (S k) o u sl sl1 ->
  sl1 c = sl c /\ (forall h, ckind h = true -> outside_c k h -> h <> c -> sl1 h = sl h).
Proof.
  intros Oc Kc [_ [_ A3]]. split.
  - apply A3; [exact Kc | eapply outside_c_mono; [|exact Oc]; lia | apply outside_c_g, Oc].
  - intros h Kh Oh _. apply A3; [exact Kh | eapply outside_c_mono; [|exact Oh]; lia | apply outside_c_g, Oh].
Qed.


Lemma else_skipped c b sl d : sl c = true ->
  run_block (if negb (is_nil b) && true then one (SIf (CNot c) b BNil) else b) sl d [] ONormal sl d.
Proof.
  intros H. destruct b as [|st r]; simpl; [constructor|].
  apply run_one. change (@nil label) with (@nil label ++ []). eapply RIf; [simpl; rewrite H; reflexivity | constructor].
Qed.

Lemma else_guarded c b h1 sl d tr o sl' d' : (h1 = true -> sl c = false) ->
  run_block b sl d tr o sl' d' ->
  run_block (if negb (is_nil b) && h1 then one (SIf (CNot c) b BNil) else b) sl d tr o sl' d'.
Proof.
  intros H R. destruct (negb (is_nil b) && h1) eqn:G; [|exact R].
  apply andb_true_iff in G. destruct G as [_ G]. apply run_one. change tr with ([] ++ tr).
  eapply RIf; [simpl; rewrite (H G); reflexivity | exact R].
Qed.

Theorem cont_correct_all :
  (forall st s d tr o s' d', run_stmt st s d tr o s' d' ->
      cok_stmt st s d tr o s' d' /\ (clean_stmt st = true -> forall c k u, outside_c k c -> ckind c = true -> cloop_claim st s c k u d tr o s' d')) /\
  (forall b s d tr o s' d', run_block b s d tr o s' d' -> cok_block b s d tr o s' d').
Proof.
  apply run_mutind.
  - (* atom *) intros l s d. split; [|intros; exact I]. intros _ c k u sl Oc Kc A _. exists sl. simpl. pose proof (RAtom l sl d) as R.
    destruct (fst (atom_res l d)); simpl; (split; [apply run_one; exact R|]; split; [exact A | apply cpost_refl; discriminate]).
  - (* set *) intros f v s d. split; [|intros; exact I]. intros Cl c k u sl Oc Kc A _. simpl in Cl. apply negb_true_iff in Cl.
    exists (upd sl f v). simpl. split; [apply run_one; constructor|]. split; [apply agree_upd_clean, A|].
    assert (N : forall h, ckind h = true -> upd sl f v h = sl h) by (intros h Kh; apply upd_other; intros ->; congruence).
    split; [discriminate|]. split; [intros _; apply N, Kc | intros h Kh _ _; apply N, Kh].
  - (* break *) intros s d. split; [|intros; exact I]. intros _ c k u sl Oc Kc A _. exists sl. simpl.
    split; [apply run_one; constructor|]. split; [exact A | apply cpost_refl; discriminate].
  - (* continue *) intros s d. split; [|intros; exact I]. intros _ c k u sl Oc Kc A _. exists (upd sl c true). simpl.
    split; [apply run_one; constructor|]. split; [apply agree_upd_c; assumption|].
    split; [intros _; split; [apply upd_same | reflexivity]|]. split; [congruence|].
    intros h _ _ N. apply upd_other, N.
  - (* return *) intros l s d. split; [|intros; exact I]. intros _ c k u sl Oc Kc A _. exists sl. simpl. pose proof (RReturn l sl d) as R.
    destruct (fst (atom_res l d)); simpl; (split; [apply run_one; exact R|]; split; [exact A | apply cpost_refl; discriminate]).
  - (* if *)
    intros t b1 b2 s d v tc d1 tr o s' d' Ec _ IH. split; [|intros; exact I]. intros Cl c k u sl Oc Kc A Pre.
    simpl in Cl. apply andb_true_iff in Cl; destruct Cl as [Cl C2]. apply andb_true_iff in Cl; destruct Cl as [Ct C1].
    simpl in Pre |- *.
    destruct (cont_block c k u false b1) as [[b1' k1] h1] eqn:E1. destruct (cont_block c k1 (u || h1) false b2) as [[b2' k2] h2] eqn:E2.
    assert (L1 : k <= k1) by (pose proof (proj2 cont_mono b1 c k u false) as X; rewrite E1 in X; exact X).
    simpl in Pre |- *. rewrite <- (ceval_agree t s sl d Ct A) in Ec.
    destruct v.
    + destruct (IH C1 c k u false sl Oc Kc A) as [sl' [R [A' Po]]].
      { rewrite E1; simpl. intros [H|H]; try discriminate; apply Pre; rewrite H; reflexivity. }
      rewrite E1 in R, Po; simpl in R, Po.
      exists sl'. split; [apply run_one; eapply RIf; [exact Ec | exact R]|]. split; [exact A'|].
      destruct Po as [P1 [P2 P3]]. split; [|split; assumption].
      intros E. destruct (P1 E) as [X ->]. split; [exact X | reflexivity].
    + destruct (IH C2 c k1 (u || h1) false sl (outside_c_mono _ _ _ L1 Oc) Kc A) as [sl' [R [A' Po]]].
      { rewrite E2; simpl. intros [H|H]; try discriminate; apply Pre; rewrite H; apply orb_true_r. }
      rewrite E2 in R, Po; simpl in R, Po.
      exists sl'. split; [apply run_one; eapply RIf; [exact Ec | exact R]|]. split; [exact A'|].
      destruct Po as [P1 [P2 P3]]. split; [|split].
      * intros E. destruct (P1 E) as [X ->]. split; [exact X | apply orb_true_r].
      * exact P2.
      * intros h Kh Oh N. apply P3; [exact Kh | eapply outside_c_mono; [|exact Oh]; lia | exact N].
  - (* while: test false *)
    intros t body orelse s d tc d1 tr o s' d' Ec _ IHo.
    assert (LC : clean_stmt (SWhile t body orelse) = true -> forall c k u, outside_c k c -> ckind c = true ->
                 cloop_claim (SWhile t body orelse) s c k u d (tc ++ tr) o s' d').
    { intros Cl c k u Oc Kc. simpl in Cl. apply andb_true_iff in Cl; destruct Cl as [Cl Co]. apply andb_true_iff in Cl; destruct Cl as [Ct Cb].
      simpl. destruct (cont_block (cflag k) (S k) false false body) as [[body' k1] used] eqn:E1.
      pose proof (IHo Co c k1 u false) as IO.
      destruct (cont_block c k1 u false orelse) as [[orelse' k2] ho] eqn:E2.
      assert (L1 : S k <= k1) by (pose proof (proj2 cont_mono body (cflag k) (S k) false false) as X; rewrite E1 in X; exact X).
      intros sl A Pre. assert (L0 : k <= k1) by lia.
      destruct (IO sl (outside_c_mono _ _ _ L0 Oc) Kc A) as [sl' [R [A' [P1 [P2 P3]]]]].
      { simpl. intros [H|H]; try discriminate; apply Pre; auto. }
      simpl in R, P1.
      exists sl'. rewrite <- (ceval_agree t s sl d Ct A) in Ec.
      split; [eapply RWhileEnd; [exact Ec | exact R]|]. split; [exact A'|].
      split; [exact P1|]. split; [exact P2|]. intros h Kh Oh N. apply P3; [exact Kh | eapply outside_c_mono; [|exact Oh]; lia | exact N]. }
    split; [|exact LC]. intros Cl c k u sl Oc Kc A Pre. specialize (LC Cl c k u Oc Kc). simpl in LC, Pre |- *.
    destruct (cont_block (cflag k) (S k) false false body) as [[body' k1] used]. destruct (cont_block c k1 u false orelse) as [[orelse' k2] ho].
    simpl in *. destruct (LC sl A Pre) as [sl' [R X]]. exists sl'. split; [apply run_one; exact R | exact X].
  - (* while: one more iteration *)
    intros t body orelse s d tc d1 tr o s1 d2 tr2 o2 s2 d3 Ec _ IHb Ho _ IHw.
    assert (LC : clean_stmt (SWhile t body orelse) = true -> forall c k u, outside_c k c -> ckind c = true ->
                 cloop_claim (SWhile t body orelse) s c k u d (tc ++ tr ++ tr2) o2 s2 d3).
    { intros Cl c k u Oc Kc. destruct IHw as [_ LW]. specialize (LW Cl c k u Oc Kc).
      simpl in Cl. apply andb_true_iff in Cl; destruct Cl as [Cl Co]. apply andb_true_iff in Cl; destruct Cl as [Ct Cb].
      simpl in LW |- *. pose proof (IHb Cb (cflag k) (S k) false false) as IB.
      destruct (cont_block (cflag k) (S k) false false body) as [[body' k1] used] eqn:E1.
      destruct (cont_block c k1 u false orelse) as [[orelse' k2] ho] eqn:E2.
      intros sl A Pre.
      set (sl0 := if used then upd sl (cflag k) false else sl).
      assert (A0 : agree s sl0) by (unfold sl0; destruct used; [apply agree_upd_c; [apply ckind_cflag | exact A] | exact A]).
      destruct (IB sl0 (outside_c_S k) (ckind_cflag k) A0) as [sl1 [Rb [A1 Pb]]].
      { simpl. intros [U|U]; try discriminate. unfold sl0. rewrite U. apply upd_same. }
      simpl in Rb, Pb.
      assert (Eo : co o = ONormal) by (destruct Ho as [-> | ->]; reflexivity). rewrite Eo in Rb.
      destruct (cbody_keeps c k o used sl0 sl1 Oc Kc Pb) as [Kc1 Kh1].
      assert (S0c : sl0 c = sl c) by (unfold sl0; destruct used; [apply upd_other, outside_c_g, Oc | reflexivity]).
      assert (S0h : forall h, outside_c k h -> sl0 h = sl h) by (intros h Oh; unfold sl0; destruct used; [apply upd_other, outside_c_g, Oh | reflexivity]).
      destruct (LW sl1 A1) as [sl2 [Rw [A2 [B1 [B2 B3]]]]].
      { intros Hh. rewrite Kc1, S0c. apply Pre, Hh. }
      exists sl2. rewrite <- (ceval_agree t s sl d Ct A) in Ec. split.
      - eapply RWhileIter; [exact Ec | | left; reflexivity | exact Rw].
        unfold sl0 in Rb. destruct used; [change tr with ([] ++ tr); eapply RConsN; [constructor | exact Rb] | exact Rb].
      - split; [exact A2|]. split; [exact B1|]. split.
        + intros N. rewrite (B2 N), Kc1. exact S0c.
        + intros h Kh Oh N. rewrite (B3 h Kh Oh N), (Kh1 h Kh Oh N). apply S0h, Oh. }
    split; [|exact LC]. intros Cl c k u sl Oc Kc A Pre. specialize (LC Cl c k u Oc Kc). simpl in LC, Pre |- *.
    destruct (cont_block (cflag k) (S k) false false body) as [[body' k1] used]. destruct (cont_block c k1 u false orelse) as [[orelse' k2] ho].
    simpl in *. destruct (LC sl A Pre) as [sl' [R X]]. exists sl'. split; [apply run_one; exact R | exact X].
  - (* while: break *)
    intros t body orelse s d tc d1 tr s1 d2 Ec _ IHb.
    assert (LC : clean_stmt (SWhile t body orelse) = true -> forall c k u, outside_c k c -> ckind c = true ->
                 cloop_claim (SWhile t body orelse) s c k u d (tc ++ tr) ONormal s1 d2).
    { intros Cl c k u Oc Kc.
      simpl in Cl. apply andb_true_iff in Cl; destruct Cl as [Cl Co]. apply andb_true_iff in Cl; destruct Cl as [Ct Cb].
      simpl. pose proof (IHb Cb (cflag k) (S k) false false) as IB.
      destruct (cont_block (cflag k) (S k) false false body) as [[body' k1] used] eqn:E1.
      destruct (cont_block c k1 u false orelse) as [[orelse' k2] ho] eqn:E2.
      intros sl A Pre.
      set (sl0 := if used then upd sl (cflag k) false else sl).
      assert (A0 : agree s sl0) by (unfold sl0; destruct used; [apply agree_upd_c; [apply ckind_cflag | exact A] | exact A]).
      destruct (IB sl0 (outside_c_S k) (ckind_cflag k) A0) as [sl1 [Rb [A1 Pb]]].
      { simpl. intros [U|U]; try discriminate. unfold sl0. rewrite U. apply upd_same. }
      simpl in Rb, Pb.
      destruct (cbody_keeps c k OBrk used sl0 sl1 Oc Kc Pb) as [Kc1 Kh1].
      assert (S0c : sl0 c = sl c) by (unfold sl0; destruct used; [apply upd_other, outside_c_g, Oc | reflexivity]).
      assert (S0h : forall h, outside_c k h -> sl0 h = sl h) by (intros h Oh; unfold sl0; destruct used; [apply upd_other, outside_c_g, Oh | reflexivity]).
      exists sl1. rewrite <- (ceval_agree t s sl d Ct A) in Ec. split.
      - eapply RWhileBrk; [exact Ec |].
        unfold sl0 in Rb. destruct used; [change tr with ([] ++ tr); eapply RConsN; [constructor | exact Rb] | exact Rb].
      - split; [exact A1|]. split; [discriminate|]. split.
        + intros _. rewrite Kc1. exact S0c.
        + intros h Kh Oh N. rewrite (Kh1 h Kh Oh N). apply S0h, Oh. }
    split; [|exact LC]. intros Cl c k u sl Oc Kc A Pre. specialize (LC Cl c k u Oc Kc). simpl in LC, Pre |- *.
    destruct (cont_block (cflag k) (S k) false false body) as [[body' k1] used]. destruct (cont_block c k1 u false orelse) as [[orelse' k2] ho].
    simpl in *. destruct (LC sl A Pre) as [sl' [R X]]. exists sl'. split; [apply run_one; exact R | exact X].
  - (* while: return / raise *)
    intros t body orelse s d tc d1 tr o s1 d2 Ec _ IHb Ho.
    assert (Eo : co o = o) by (destruct Ho as [-> | ->]; reflexivity).
    assert (LC : clean_stmt (SWhile t body orelse) = true -> forall c k u, outside_c k c -> ckind c = true ->
                 cloop_claim (SWhile t body orelse) s c k u d (tc ++ tr) o s1 d2).
    { intros Cl c k u Oc Kc.
      simpl in Cl. apply andb_true_iff in Cl; destruct Cl as [Cl Co]. apply andb_true_iff in Cl; destruct Cl as [Ct Cb].
      simpl. pose proof (IHb Cb (cflag k) (S k) false false) as IB.
      destruct (cont_block (cflag k) (S k) false false body) as [[body' k1] used] eqn:E1.
      destruct (cont_block c k1 u false orelse) as [[orelse' k2] ho] eqn:E2.
      intros sl A Pre.
      set (sl0 := if used then upd sl (cflag k) false else sl).
      assert (A0 : agree s sl0) by (unfold sl0; destruct used; [apply agree_upd_c; [apply ckind_cflag | exact A] | exact A]).
      destruct (IB sl0 (outside_c_S k) (ckind_cflag k) A0) as [sl1 [Rb [A1 Pb]]].
      { simpl. intros [U|U]; try discriminate. unfold sl0. rewrite U. apply upd_same. }
      simpl in Rb, Pb. rewrite Eo in *.
      destruct (cbody_keeps c k o used sl0 sl1 Oc Kc Pb) as [Kc1 Kh1].
      assert (S0c : sl0 c = sl c) by (unfold sl0; destruct used; [apply upd_other, outside_c_g, Oc | reflexivity]).
      assert (S0h : forall h, outside_c k h -> sl0 h = sl h) by (intros h Oh; unfold sl0; destruct used; [apply upd_other, outside_c_g, Oh | reflexivity]).
      exists sl1. rewrite <- (ceval_agree t s sl d Ct A) in Ec. split.
      - eapply RWhileOut; [exact Ec | | exact Ho].
        unfold sl0 in Rb. destruct used; [change tr with ([] ++ tr); eapply RConsN; [constructor | exact Rb] | exact Rb].
      - split; [exact A1|]. split; [intros ->; destruct Ho; discriminate|]. split.
        + intros _. rewrite Kc1. exact S0c.
        + intros h Kh Oh N. rewrite (Kh1 h Kh Oh N). apply S0h, Oh. }
    split; [|exact LC]. intros Cl c k u sl Oc Kc A Pre. specialize (LC Cl c k u Oc Kc). simpl in LC, Pre |- *.
    destruct (cont_block (cflag k) (S k) false false body) as [[body' k1] used]. destruct (cont_block c k1 u false orelse) as [[orelse' k2] ho].
    simpl in *. destruct (LC sl A Pre) as [sl' [R X]]. exists sl'. split; [apply run_one; exact R | exact X].
  - (* with *)
    intros l body s d tr o s' d' _ IHb. split; [|intros; exact I]. intros Cl c k u sl Oc Kc A Pre.
    simpl in Cl, Pre |- *. pose proof (IHb Cl c k u false sl Oc Kc A) as IB.
    destruct (cont_block c k u false body) as [[body' k1] h1] eqn:E1. simpl in *.
    destruct IB as [sl' [R [A' Po]]]. { intros [H|H]; [discriminate | apply Pre, H]. }
    exists sl'. split; [apply run_one, RWith, R|]. split; assumption.
  - (* try: body completes, else clause, finally *)
    intros body hs orelse final s d tr1 s1 d1 tr2 o2 s2 d2 tr3 s3 d3 _ IHb _ IHo _ IHf. split; [|intros; exact I].
    intros Cl c k u sl Oc Kc A Pre. simpl in Cl.
    apply andb_true_iff in Cl; destruct Cl as [Cl Jf]. apply andb_true_iff in Cl; destruct Cl as [Cl Cf].
    apply andb_true_iff in Cl; destruct Cl as [Cl Co]. apply andb_true_iff in Cl; destruct Cl as [Cb Ch].
    simpl in Pre |- *.
    pose proof (IHb Cb c k u false sl Oc Kc A) as IB.
    pose proof (proj1 (proj2 cont_mono3) body c k u false) as L1.
    destruct (cont_block c k u false body) as [[body' k1] h1] eqn:E1.
    pose proof (IHo Co c k1 (u || h1) false) as IO.
    pose proof (proj1 (proj2 cont_mono3) orelse c k1 (u || h1) false) as L2.
    destruct (cont_block c k1 (u || h1) false orelse) as [[orelse' k2] h2] eqn:E2.
    pose proof (IHf Cf c k2 (u || h1 || h2) false) as IFN.
    pose proof (proj1 (proj2 jfree_nohit) final Jf c k2 (u || h1 || h2) false) as H3.
    destruct (cont_block c k2 (u || h1 || h2) false final) as [[final' k3] h3] eqn:E3.
    destruct (cont_blocks c k3 (u || h1 || h2 || h3) hs) as [[hs' k4] h4] eqn:E4.
    simpl in *. subst h3.
    destruct IB as [sl1 [R1 [A1 [P1 [P2 P3]]]]]. { intros [H|H]; [discriminate|]. apply Pre. rewrite H; reflexivity. }
    assert (C1 : sl1 c = sl c) by (apply P2; discriminate).
    destruct (IO sl1 (outside_c_mono _ _ _ L1 Oc) Kc A1) as [sl2 [R2 [A2 [Q1 [Q2 Q3]]]]].
    { intros [H|H]; [discriminate|]. rewrite C1. apply Pre. rewrite H; rewrite ?orb_true_r; reflexivity. }
    assert (L02 : k <= k2) by lia.
    destruct (IFN sl2 (outside_c_mono _ _ _ L02 Oc) Kc A2) as [sl3 [R3 [A3 [F1 [F2 F3]]]]]. { intros [H|H]; discriminate. }
    assert (C3 : sl3 c = sl2 c) by (apply F2; discriminate).
    exists sl3. split; [|split; [exact A3|]].
    + apply run_one. eapply RTryN; [exact R1 | | exact R3].
      apply else_guarded; [|exact R2]. intros H. rewrite C1. apply Pre. rewrite H; reflexivity.
    + split; [|split].
      * intros E. destruct (Q1 E) as [X Y]. split; [rewrite C3; exact X | rewrite Y; rewrite ?orb_true_r; reflexivity].
      * intros N. rewrite C3, (Q2 N). exact C1.
      * intros h Kh Oh N. rewrite (F3 h Kh (outside_c_mono _ _ _ L02 Oh) N), (Q3 h Kh (outside_c_mono _ _ _ L1 Oh) N). apply P3; assumption.
  - (* try: body jumps, finally *)
    intros body hs orelse final s d tr1 ob s1 d1 tr3 s3 d3 _ IHb Nb Nr _ IHf. split; [|intros; exact I].
    intros Cl c k u sl Oc Kc A Pre. simpl in Cl.
    apply andb_true_iff in Cl; destruct Cl as [Cl Jf]. apply andb_true_iff in Cl; destruct Cl as [Cl Cf].
    apply andb_true_iff in Cl; destruct Cl as [Cl Co]. apply andb_true_iff in Cl; destruct Cl as [Cb Ch].
    simpl in Pre |- *.
    pose proof (IHb Cb c k u false sl Oc Kc A) as IB.
    pose proof (proj1 (proj2 cont_mono3) body c k u false) as L1.
    destruct (cont_block c k u false body) as [[body' k1] h1] eqn:E1.
    pose proof (proj1 (proj2 cont_mono3) orelse c k1 (u || h1) false) as L2.
    destruct (cont_block c k1 (u || h1) false orelse) as [[orelse' k2] h2] eqn:E2.
    pose proof (IHf Cf c k2 (u || h1 || h2) false) as IFN.
    pose proof (proj1 (proj2 jfree_nohit) final Jf c k2 (u || h1 || h2) false) as H3.
    destruct (cont_block c k2 (u || h1 || h2) false final) as [[final' k3] h3] eqn:E3.
    destruct (cont_blocks c k3 (u || h1 || h2 || h3) hs) as [[hs' k4] h4] eqn:E4.
    simpl in *. subst h3.
    destruct IB as [sl1 [R1 [A1 [P1 [P2 P3]]]]]. { intros [H|H]; [discriminate|]. apply Pre. rewrite H; reflexivity. }
    assert (L02 : k <= k2) by lia.
    destruct (IFN sl1 (outside_c_mono _ _ _ L02 Oc) Kc A1) as [sl3 [R3 [A3 [F1 [F2 F3]]]]]. { intros [H|H]; discriminate. }
    assert (C3 : sl3 c = sl1 c) by (apply F2; discriminate).
    assert (HP : forall h, ckind h = true -> outside_c k h -> h <> c -> sl3 h = sl h).
    { intros h Kh Oh N. rewrite (F3 h Kh (outside_c_mono _ _ _ L02 Oh) N). apply P3; assumption. }
    exists sl3. split; [|split; [exact A3|]].
    + apply run_one. destruct ob; try congruence.
      * eapply RTryJ; [exact R1 | discriminate | discriminate | exact R3].
      * (* the body continued: in the lowered program it completes with the flag set and the else clause is skipped *)
        destruct (P1 eq_refl) as [Ct ->]. simpl in R1.
        replace (tr1 ++ tr3) with (tr1 ++ [] ++ tr3) by reflexivity.
        eapply RTryN; [exact R1 | apply else_skipped, Ct | exact R3].
      * eapply RTryJ; [exact R1 | discriminate | discriminate | exact R3].
      * eapply RTryJ; [exact R1 | discriminate | discriminate | exact R3].
      * eapply RTryJ; [exact R1 | discriminate | discriminate | exact R3].
    + split; [|split; [|exact HP]].
      * intros E. destruct (P1 E) as [X ->]. split; [rewrite C3; exact X | reflexivity].
      * intros N. rewrite C3. apply P2, N.
  - (* try: body raises, no handler, finally *)
    intros body hs orelse final s d tr1 s1 d1 d1' tr3 s3 d3 _ IHb Eh _ IHf. split; [|intros; exact I].
    intros Cl c k u sl Oc Kc A Pre. simpl in Cl.
    apply andb_true_iff in Cl; destruct Cl as [Cl Jf]. apply andb_true_iff in Cl; destruct Cl as [Cl Cf].
    apply andb_true_iff in Cl; destruct Cl as [Cl Co]. apply andb_true_iff in Cl; destruct Cl as [Cb Ch].
    simpl in Pre |- *.
    pose proof (IHb Cb c k u false sl Oc Kc A) as IB.
    pose proof (proj1 (proj2 cont_mono3) body c k u false) as L1.
    destruct (cont_block c k u false body) as [[body' k1] h1] eqn:E1.
    pose proof (proj1 (proj2 cont_mono3) orelse c k1 (u || h1) false) as L2.
    destruct (cont_block c k1 (u || h1) false orelse) as [[orelse' k2] h2] eqn:E2.
    pose proof (IHf Cf c k2 (u || h1 || h2) false) as IFN.
    pose proof (proj1 (proj2 jfree_nohit) final Jf c k2 (u || h1 || h2) false) as H3.
    destruct (cont_block c k2 (u || h1 || h2) false final) as [[final' k3] h3] eqn:E3.
    pose proof (cont_dispatch_none hs c k3 (u || h1 || h2 || h3) _ _ Eh) as Eh'.
    destruct (cont_blocks c k3 (u || h1 || h2 || h3) hs) as [[hs' k4] h4] eqn:E4.
    simpl in *. subst h3.
    destruct IB as [sl1 [R1 [A1 [P1 [P2 P3]]]]]. { intros [H|H]; [discriminate|]. apply Pre. rewrite H; reflexivity. }
    assert (L02 : k <= k2) by lia.
    destruct (IFN sl1 (outside_c_mono _ _ _ L02 Oc) Kc A1) as [sl3 [R3 [A3 [F1 [F2 F3]]]]]. { intros [H|H]; discriminate. }
    assert (C3 : sl3 c = sl1 c) by (apply F2; discriminate).
    assert (HP : forall h, ckind h = true -> outside_c k h -> h <> c -> sl3 h = sl h).
    { intros h Kh Oh N. rewrite (F3 h Kh (outside_c_mono _ _ _ L02 Oh) N). apply P3; assumption. }
    exists sl3. split; [|split; [exact A3|]].
    + apply run_one. eapply RTryU; [exact R1 | exact Eh' | exact R3].
    + split; [discriminate|]. split; [|exact HP].
      intros N. rewrite C3. apply P2, N.
  - (* try: body raises, handler runs, finally *)
    intros body hs orelse final s d tr1 s1 d1 d1' h tr2 oh s2 d2 tr3 s3 d3 _ IHb Eh _ IHh _ IHf. split; [|intros; exact I].
    intros Cl c k u sl Oc Kc A Pre. simpl in Cl.
    apply andb_true_iff in Cl; destruct Cl as [Cl Jf]. apply andb_true_iff in Cl; destruct Cl as [Cl Cf].
    apply andb_true_iff in Cl; destruct Cl as [Cl Co]. apply andb_true_iff in Cl; destruct Cl as [Cb Ch].
    simpl in Pre |- *.
    pose proof (IHb Cb c k u false sl Oc Kc A) as IB.
    pose proof (proj1 (proj2 cont_mono3) body c k u false) as L1.
    destruct (cont_block c k u false body) as [[body' k1] h1] eqn:E1.
    pose proof (proj1 (proj2 cont_mono3) orelse c k1 (u || h1) false) as L2.
    destruct (cont_block c k1 (u || h1) false orelse) as [[orelse' k2] h2] eqn:E2.
    pose proof (IHf Cf c k2 (u || h1 || h2) false) as IFN.
    pose proof (proj1 (proj2 jfree_nohit) final Jf c k2 (u || h1 || h2) false) as H3.
    pose proof (proj1 (proj2 cont_mono3) final c k2 (u || h1 || h2) false) as L3.
    destruct (cont_block c k2 (u || h1 || h2) false final) as [[final' k3] h3] eqn:E3.
    destruct (cont_dispatch hs c k3 (u || h1 || h2 || h3) _ _ _ Eh) as [kk [uu [Lk [Eh' Hu]]]].
    destruct (cont_blocks c k3 (u || h1 || h2 || h3) hs) as [[hs' k4] h4] eqn:E4.
    simpl in *. subst h3.
    destruct IB as [sl1 [R1 [A1 [P1 [P2 P3]]]]]. { intros [H|H]; [discriminate|]. apply Pre. rewrite H; reflexivity. }
    assert (C1 : sl1 c = sl c) by (apply P2; discriminate).
    assert (L0k : k <= kk) by lia.
    destruct (IHh (clean_dispatch _ _ _ _ Ch Eh) c kk uu false sl1 (outside_c_mono _ _ _ L0k Oc) Kc A1) as [sl2 [R2 [A2 [Q1 [Q2 Q3]]]]].
    { intros [H|H]; [discriminate|]. rewrite C1. apply Pre. rewrite (Hu H). rewrite ?orb_true_r; reflexivity. }
    assert (L02 : k <= k2) by lia.
    destruct (IFN sl2 (outside_c_mono _ _ _ L02 Oc) Kc A2) as [sl3 [R3 [A3 [F1 [F2 F3]]]]]. { intros [H|H]; discriminate. }
    assert (C3 : sl3 c = sl2 c) by (apply F2; discriminate).
    exists sl3. split; [|split; [exact A3|]].
    + apply run_one. eapply RTryH; [exact R1 | exact Eh' | exact R2 | exact R3].
    + split; [|split].
      * intros E. destruct (Q1 E) as [X Y]. split; [rewrite C3; exact X | rewrite (Hu Y); rewrite ?orb_true_r; reflexivity].
      * intros N. rewrite C3, (Q2 N). exact C1.
      * intros h0 Kh Oh N. rewrite (F3 h0 Kh (outside_c_mono _ _ _ L02 Oh) N), (Q3 h0 Kh (outside_c_mono _ _ _ L0k Oh) N). apply P3; assumption.
  - (* raise *) intros l s d. split; [|intros; exact I]. intros _ c k u sl Oc Kc A _. exists sl. simpl.
    split; [apply run_one; constructor|]. split; [exact A | apply cpost_refl; discriminate].
  - (* nil *) intros s d _ c k u cur sl Oc Kc A _. exists sl. simpl. split; [constructor|]. split; [exact A | apply cpost_refl; discriminate].
  - (* cons, first statement completes *)
    intros st r s d tr s1 d1 tr2 o2 s2 d2 _ IHs _ IHr Cl c k u cur sl Oc Kc A Pre.
    simpl in Cl. apply andb_true_iff in Cl; destruct Cl as [Cs Cr]. destruct IHs as [IHs _].
    pose proof (IHs Cs c k u sl Oc Kc A) as IS. simpl in Pre |- *.
    destruct (cont_stmt c k u st) as [[st' k1] h1] eqn:E1.
    assert (L1 : k <= k1) by (pose proof (proj1 cont_mono st c k u) as X; rewrite E1 in X; exact X).
    pose proof (IHr Cr c k1 (u || h1) h1) as IR.
    destruct (cont_block c k1 (u || h1) h1 r) as [[r' k2] h2] eqn:E2. simpl in *.
    destruct IS as [sl1 [R1 [A1 [P1 [P2 P3]]]]].
    { intros H; apply Pre; right; rewrite H; reflexivity. }
    assert (C1 : sl1 c = sl c) by (apply P2; discriminate).
    destruct (IR sl1 (outside_c_mono _ _ _ L1 Oc) Kc A1) as [sl2 [R2 [A2 [Q1 [Q2 Q3]]]]].
    { intros H. rewrite C1. apply Pre. destruct H as [H|H]; right; rewrite H; [reflexivity | apply orb_true_r]. }
    exists sl2. split; [|split; [exact A2|]].
    + apply wrap; [intros ->; apply Pre; left; reflexivity | eapply run_bapp; eassumption].
    + split; [|split].
      * intros E. destruct (Q1 E) as [X ->]. split; [exact X | apply orb_true_r].
      * intros N. rewrite (Q2 N). exact C1.
      * intros h Kh Oh N. rewrite (Q3 h Kh (outside_c_mono _ _ _ L1 Oh) N). apply P3; assumption.
  - (* cons, first statement jumps *)
    intros st r s d tr o s1 d1 _ IHs No Cl c k u cur sl Oc Kc A Pre.
    simpl in Cl. apply andb_true_iff in Cl; destruct Cl as [Cs Cr]. destruct IHs as [IHs _].
    pose proof (IHs Cs c k u sl Oc Kc A) as IS. simpl in Pre |- *.
    destruct (cont_stmt c k u st) as [[st' k1] h1] eqn:E1.
    pose proof (skip_rest r c k1 (u || h1)) as SK.
    destruct (cont_block c k1 (u || h1) h1 r) as [[r' k2] h2] eqn:E2. simpl in *.
    destruct IS as [sl1 [R1 [A1 [P1 [P2 P3]]]]].
    { intros H; apply Pre; right; rewrite H; reflexivity. }
    exists sl1. split; [|split; [exact A1|]].
    + apply wrap; [intros ->; apply Pre; left; reflexivity|].
      destruct o; try congruence.
      * apply run_bapp_jump; [exact R1 | discriminate].
      * destruct (P1 eq_refl) as [Ct ->]. rewrite E2 in SK. simpl in SK, R1.
        rewrite <- (app_nil_r tr). eapply run_bapp; [exact R1 | apply SK, Ct].
      * apply run_bapp_jump; [exact R1 | discriminate].
      * apply run_bapp_jump; [exact R1 | discriminate].
      * apply run_bapp_jump; [exact R1 | discriminate].
      * apply run_bapp_jump; [exact R1 | discriminate].
    + split; [|split; assumption].
      intros E. destruct (P1 E) as [X ->]. split; [exact X | reflexivity].
Qed.


(* ---- top level ------------------------------------------------------------ *)
Theorem continue_lowering_correct_lemma b s d tr o s' d' :
  run_block b s d tr o s' d' -> clean_block b = true -> o <> OCont ->
  forall sl, agree s sl -> (snd (cont_block (cflag 0) 1 false false b) = true -> sl (cflag 0) = false) ->
  exists sl', run_block (fst (fst (cont_block (cflag 0) 1 false false b))) sl d tr o sl' d' /\ agree s' sl'.
Proof.
  intros R C No sl A Pre.
  destruct (proj2 cont_correct_all _ _ _ _ _ _ _ R C (cflag 0) 1 false false sl (outside_c_S 0) (ckind_cflag 0) A) as [sl' [R' [A' _]]].
  { simpl. intros [H|H]; try discriminate. apply Pre, H. }
  exists sl'. split; [|exact A']. destruct o; try exact R'; congruence.
Qed.
