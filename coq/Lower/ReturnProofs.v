(* C01: correctness of the return canonicalisation pass: ConditionalReturnRewriter (crr_block) followed by
   ReturnStatementsTransformer (ret_block), models in Passes.v. *)
From Coq Require Import List Arith Bool Lia.
Import ListNotations.
Require Import MV.Lower.Lang MV.Lower.LangProofs MV.Lower.Passes MV.Lower.ContinueProofs.

(* where the statements that follow st' are placed by the rewriter *)
Definition place (st' : stmt) (rd : redirect) (r' : block) : block :=
  match rd, st' with
  | RIntoOrelse, SIf c b1 b2 => one (SIf c b1 (bapp b2 r'))
  | RIntoBody, SIf c b1 b2 => one (SIf c (bapp b1 r') b2)
  | _, _ => BCons st' r'
  end.

Lemma crr_block_cons st r :
  crr_block (BCons st r) =
  (place (fst (fst (crr_stmt st))) (snd (crr_stmt st)) (fst (crr_block r)),
   snd (fst (crr_stmt st)) || snd (crr_block r)).
Proof.
  simpl. destruct (crr_stmt st) as [[st' d1] rd]. destruct (crr_block r) as [r' d2]. simpl.
  destruct rd; destruct st'; reflexivity.
Qed.

Definition crr_ok_stmt (st : stmt) (s : store) (d : decisions) (tr : list label) (o : outcome) (s' : store) (d' : decisions) : Prop :=
  let st' := fst (fst (crr_stmt st)) in
  let dflag := snd (fst (crr_stmt st)) in
  let rd := snd (crr_stmt st) in
  (dflag = true -> o <> ONormal) /\
  forall r',
    (o <> ONormal -> run_block (place st' rd r') s d tr o s' d') /\
    (o = ONormal -> forall tr2 o2 s2 d2, run_block r' s' d' tr2 o2 s2 d2 ->
                    run_block (place st' rd r') s d (tr ++ tr2) o2 s2 d2).

Definition crr_ok_block (b : block) (s : store) (d : decisions) (tr : list label) (o : outcome) (s' : store) (d' : decisions) : Prop :=
  run_block (fst (crr_block b)) s d tr o s' d' /\ (snd (crr_block b) = true -> o <> ONormal).

(* a statement whose replacement is simply kept in place *)
Lemma plain_place st' rd r' s d tr o s' d' :
  rd = RNone -> run_stmt st' s d tr o s' d' ->
  (o <> ONormal -> run_block (place st' rd r') s d tr o s' d') /\
  (o = ONormal -> forall tr2 o2 s2 d2, run_block r' s' d' tr2 o2 s2 d2 ->
                  run_block (place st' rd r') s d (tr ++ tr2) o2 s2 d2).
Proof.
  intros -> R. unfold place. split.
  - intros N. assert (E : match st' with SIf _ _ _ => BCons st' r' | _ => BCons st' r' end = BCons st' r') by (destruct st'; reflexivity).
    simpl. apply RConsJ; assumption.
  - intros -> tr2 o2 s2 d2 R2. simpl. eapply RConsN; eassumption.
Qed.

Definition crr_ok_stmt' (st : stmt) (s : store) (d : decisions) (tr : list label) (o : outcome) (s' : store) (d' : decisions) : Prop :=
  run_stmt (fst (fst (crr_stmt st))) s d tr o s' d' /\ crr_ok_stmt st s d tr o s' d'.

Lemma from_plain st s d tr o s' d' :
  snd (crr_stmt st) = RNone -> run_stmt (fst (fst (crr_stmt st))) s d tr o s' d' ->
  (snd (fst (crr_stmt st)) = true -> o <> ONormal) -> crr_ok_stmt' st s d tr o s' d'.
Proof.
  intros Hr R F. split; [exact R|]. split; [exact F|]. intros r'. apply plain_place; assumption.
Qed.

Lemma crr_hsel hs : forall n, hsel (crr_blocks hs) n = match hsel hs n with Some h => Some (fst (crr_block h)) | None => None end.
Proof. induction hs as [|a b r IH]; intros n; simpl; [reflexivity|]. destruct n; [reflexivity | apply IH]. Qed.

Lemma crr_dispatch hs d : dispatch (crr_blocks hs) d =
  match dispatch hs d with (Some h, d') => (Some (fst (crr_block h)), d') | (None, d') => (None, d') end.
Proof.
  destruct hs as [|a b r]; [reflexivity|]. destruct a; [reflexivity|].
  unfold dispatch. rewrite crr_hsel. destruct (hsel (HCons false b r) (dnat d)); reflexivity.
Qed.

Theorem crr_correct_all :
  (forall st s d tr o s' d', run_stmt st s d tr o s' d' -> crr_ok_stmt' st s d tr o s' d') /\
  (forall b s d tr o s' d', run_block b s d tr o s' d' -> crr_ok_block b s d tr o s' d').
Proof.
  apply run_mutind.
  - intros l s d. apply from_plain; simpl; [reflexivity | constructor | discriminate].
  - intros f v s d. apply from_plain; simpl; [reflexivity | constructor | discriminate].
  - intros s d. apply from_plain; simpl; [reflexivity | constructor | discriminate].
  - intros s d. apply from_plain; simpl; [reflexivity | constructor | discriminate].
  - intros l s d. apply from_plain; simpl; [reflexivity | constructor | destruct (fst (atom_res l d)); discriminate].
  - (* if *)
    intros c b1 b2 s d v tc d1 tr o s' d' Ec _ IH.
    unfold crr_ok_stmt', crr_ok_stmt. simpl.
    destruct (crr_block b1) as [b1' f1] eqn:E1. destruct (crr_block b2) as [b2' f2] eqn:E2. simpl.
    assert (RB : run_block (if v then b1' else b2') s d1 tr o s' d' /\ ((if v then f1 else f2) = true -> o <> ONormal)).
    { destruct v; destruct IH as [R F]; [rewrite E1 in R, F | rewrite E2 in R, F]; simpl in *; auto. }
    destruct RB as [RB FB].
    assert (RS : run_stmt (SIf c b1' b2') s d (tc ++ tr) o s' d') by (eapply RIf; eassumption).
    split; [exact RS|]. split.
    + intros H. apply andb_true_iff in H. destruct H as [-> ->]. apply FB. destruct v; reflexivity.
    + intros r'. destruct f1.
      * (* the body definitely returns: the rest goes into the else branch *)
        simpl. destruct v.
        -- assert (No : o <> ONormal) by (apply FB; reflexivity). split.
           ++ intros _. apply run_one. eapply RIf; [exact Ec | exact RB].
           ++ intros E; contradiction.
        -- split.
           ++ intros No. apply run_one. eapply RIf; [exact Ec | simpl; apply run_bapp_jump; assumption].
           ++ intros -> tr2 o2 s2 d2 R2. rewrite <- app_assoc. apply run_one.
              eapply RIf; [exact Ec | simpl; eapply run_bapp; eassumption].
      * destruct f2.
        -- simpl. destruct v.
           ++ split.
              ** intros No. apply run_one. eapply RIf; [exact Ec | simpl; apply run_bapp_jump; assumption].
              ** intros -> tr2 o2 s2 d2 R2. rewrite <- app_assoc. apply run_one.
                 eapply RIf; [exact Ec | simpl; eapply run_bapp; eassumption].
           ++ assert (No : o <> ONormal) by (apply FB; reflexivity). split.
              ** intros _. apply run_one. eapply RIf; [exact Ec | exact RB].
              ** intros E; contradiction.
        -- apply plain_place; [reflexivity | exact RS].
  - (* while end *)
    intros c body orelse s d tc d1 tr o s' d' Ec _ IHo. apply from_plain; simpl.
    + destruct (crr_block body); destruct (crr_block orelse); reflexivity.
    + destruct IHo as [R _]. destruct (crr_block body) as [body' fb]. destruct (crr_block orelse) as [orelse' fo]. simpl in *.
      eapply RWhileEnd; eassumption.
    + destruct (crr_block body); destruct (crr_block orelse); simpl; discriminate.
  - (* while iter *)
    intros c body orelse s d tc d1 tr o s1 d2 tr2 o2 s2 d3 Ec _ IHb Ho _ IHw. apply from_plain; simpl.
    + destruct (crr_block body); destruct (crr_block orelse); reflexivity.
    + destruct IHb as [Rb _]. destruct IHw as [Rw _]. simpl in Rw.
      destruct (crr_block body) as [body' fb]. destruct (crr_block orelse) as [orelse' fo]. simpl in *.
      eapply RWhileIter; eassumption.
    + destruct (crr_block body); destruct (crr_block orelse); simpl; discriminate.
  - (* while brk *)
    intros c body orelse s d tc d1 tr s1 d2 Ec _ IHb. apply from_plain; simpl.
    + destruct (crr_block body); destruct (crr_block orelse); reflexivity.
    + destruct IHb as [Rb _]. destruct (crr_block body) as [body' fb]. destruct (crr_block orelse) as [orelse' fo]. simpl in *.
      eapply RWhileBrk; eassumption.
    + destruct (crr_block body); destruct (crr_block orelse); simpl; discriminate.
  - (* while ret / raise *)
    intros c body orelse s d tc d1 tr o s1 d2 Ec _ IHb Ho. apply from_plain; simpl.
    + destruct (crr_block body); destruct (crr_block orelse); reflexivity.
    + destruct IHb as [Rb _]. destruct (crr_block body) as [body' fb]. destruct (crr_block orelse) as [orelse' fo]. simpl in *.
      eapply RWhileOut; eassumption.
    + destruct (crr_block body); destruct (crr_block orelse); simpl; discriminate.
  - (* with *)
    intros l body s d tr o s' d' _ IHb. apply from_plain; simpl.
    + destruct (crr_block body); reflexivity.
    + destruct IHb as [Rb _]. destruct (crr_block body) as [body' fb]. simpl in *. apply RWith; exact Rb.
    + destruct IHb as [_ Fb]. destruct (crr_block body) as [body' fb]. simpl in *. exact Fb.
  - (* try N *)
    intros body hs orelse final s d tr1 s1 d1 tr2 o2 s2 d2 tr3 s3 d3 _ IHb _ IHo _ IHf. apply from_plain; simpl.
    + destruct (crr_block body); destruct (crr_block orelse); destruct (crr_block final); reflexivity.
    + destruct IHb as [Rb _]. destruct IHo as [Ro _]. destruct IHf as [Rf _].
      destruct (crr_block body) as [b1 f1]. destruct (crr_block orelse) as [b2 f2]. destruct (crr_block final) as [b3 f3]. simpl in *.
      eapply RTryN; eassumption.
    + destruct (crr_block body); destruct (crr_block orelse); destruct (crr_block final); simpl; discriminate.
  - (* try J *)
    intros body hs orelse final s d tr1 ob s1 d1 tr3 s3 d3 _ IHb Nb Nr _ IHf. apply from_plain; simpl.
    + destruct (crr_block body); destruct (crr_block orelse); destruct (crr_block final); reflexivity.
    + destruct IHb as [Rb _]. destruct IHf as [Rf _].
      destruct (crr_block body) as [b1 f1]. destruct (crr_block orelse) as [b2 f2]. destruct (crr_block final) as [b3 f3]. simpl in *.
      eapply RTryJ; eassumption.
    + destruct (crr_block body); destruct (crr_block orelse); destruct (crr_block final); simpl; discriminate.
  - (* try U *)
    intros body hs orelse final s d tr1 s1 d1 d1' tr3 s3 d3 _ IHb Eh _ IHf. apply from_plain; simpl.
    + destruct (crr_block body); destruct (crr_block orelse); destruct (crr_block final); reflexivity.
    + destruct IHb as [Rb _]. destruct IHf as [Rf _].
      destruct (crr_block body) as [b1 f1]. destruct (crr_block orelse) as [b2 f2]. destruct (crr_block final) as [b3 f3]. simpl in *.
      eapply RTryU; [exact Rb | rewrite crr_dispatch, Eh; reflexivity | exact Rf].
    + destruct (crr_block body); destruct (crr_block orelse); destruct (crr_block final); simpl; discriminate.
  - (* try H *)
    intros body hs orelse final s d tr1 s1 d1 d1' h tr2 oh s2 d2 tr3 s3 d3 _ IHb Eh _ IHh _ IHf. apply from_plain; simpl.
    + destruct (crr_block body); destruct (crr_block orelse); destruct (crr_block final); reflexivity.
    + destruct IHb as [Rb _]. destruct IHf as [Rf _]. destruct IHh as [Rh _].
      destruct (crr_block body) as [b1 f1]. destruct (crr_block orelse) as [b2 f2]. destruct (crr_block final) as [b3 f3]. simpl in *.
      eapply RTryH; [exact Rb | rewrite crr_dispatch, Eh; reflexivity | exact Rh | exact Rf].
    + destruct (crr_block body); destruct (crr_block orelse); destruct (crr_block final); simpl; discriminate.
  - (* raise *) intros l s d. apply from_plain; simpl; [reflexivity | constructor | discriminate].
  - (* nil *) intros s d. split; [constructor | simpl; discriminate].
  - (* cons N *)
    intros st r s d tr s1 d1 tr2 o2 s2 d2 _ IHs _ IHr. unfold crr_ok_block. rewrite crr_block_cons. simpl.
    destruct IHs as [_ [Fs Ps]]. destruct IHr as [Rr Fr]. split.
    + apply (proj2 (Ps (fst (crr_block r))) eq_refl). exact Rr.
    + intros H. apply orb_true_iff in H. destruct H as [H|H]; [exfalso; apply (Fs H); reflexivity | apply Fr, H].
  - (* cons J *)
    intros st r s d tr o s1 d1 _ IHs No. unfold crr_ok_block. rewrite crr_block_cons. simpl.
    destruct IHs as [_ [Fs Ps]]. split; [apply (proj1 (Ps (fst (crr_block r)))); exact No | intros _; exact No].
Qed.

(* programs that do not mention the return flag, whose loops have no else clause (the pipeline rejects
   loop-else) and whose finally clauses contain no jump *)
Fixpoint rclean_cond (c : cond) : bool :=
  match c with CUser _ => true | CNot f => negb (Nat.eqb f rflag) | CAndNot f c' => negb (Nat.eqb f rflag) && rclean_cond c' end.
Fixpoint rclean_stmt (st : stmt) : bool :=
  match st with
  | SSet f _ => negb (Nat.eqb f rflag)
  | SIf c b1 b2 => rclean_cond c && rclean_block b1 && rclean_block b2
  | SWhile c b1 b2 => rclean_cond c && rclean_block b1 && is_nil b2
  | STry b1 hs b2 b3 => rclean_block b1 && rclean_blocks hs && rclean_block b2 && rclean_block b3 && jfree_block b3
  | SWith _ b1 => rclean_block b1
  | _ => true
  end
with rclean_block (b : block) : bool :=
  match b with BNil => true | BCons st r => rclean_stmt st && rclean_block r end
with rclean_blocks (h : blocks) : bool :=
  match h with HNil => true | HCons _ b r => rclean_block b && rclean_blocks r end.

Lemma rclean_hsel hs : forall n h, rclean_blocks hs = true -> hsel hs n = Some h -> rclean_block h = true.
Proof.
  induction hs as [|a b r IH]; intros n h P E; simpl in *; [discriminate|].
  apply andb_true_iff in P; destruct P as [Pb Pr]. destruct n; [injection E as <-; exact Pb | eapply IH; eassumption].
Qed.

Lemma ret_hsel hs : forall n h, hsel hs n = Some h ->
  hsel (fst (ret_blocks hs)) n = Some (fst (ret_block false false h)) /\
  (snd (ret_block false false h) = true -> snd (ret_blocks hs) = true).
Proof.
  induction hs as [|a b r IH]; intros n h E; simpl in *; [discriminate|].
  destruct (ret_block false false b) as [b' h1] eqn:E1. destruct (ret_blocks r) as [r' h2] eqn:E2.
  destruct n.
  - injection E as <-. rewrite E1. simpl. split; [reflexivity | intros ->; reflexivity].
  - destruct (IH n h E) as [Hs Hu]. simpl in *. split; [exact Hs | intros U; rewrite (Hu U); apply orb_true_r].
Qed.

Lemma ret_dispatch hs d h d' : dispatch hs d = (Some h, d') ->
  dispatch (fst (ret_blocks hs)) d = (Some (fst (ret_block false false h)), d') /\
  (snd (ret_block false false h) = true -> snd (ret_blocks hs) = true).
Proof.
  intros E. destruct hs as [|a b r]; [discriminate|]. destruct a.
  - simpl in E. injection E as <- <-. simpl.
    destruct (ret_block false false b) as [b' h1]. destruct (ret_blocks r) as [r' h2]. simpl.
    split; [reflexivity | intros ->; reflexivity].
  - assert (E' : hsel (HCons false b r) (dnat d) = Some h /\ d' = dtail d) by (simpl in E |- *; injection E as E1 E2; auto).
    destruct E' as [E1 ->]. destruct (ret_hsel _ _ _ E1) as [Hs Hu]. split; [|exact Hu].
    simpl in Hs |- *. destruct (ret_block false false b) as [b' h1]. destruct (ret_blocks r) as [r' h2]. simpl in *.
    rewrite Hs. reflexivity.
Qed.

Lemma rclean_dispatch hs d h d' : rclean_blocks hs = true -> dispatch hs d = (Some h, d') -> rclean_block h = true.
Proof.
  intros P E. destruct hs as [|a b r]; [discriminate|]. destruct a.
  - simpl in E, P. injection E as <- _. apply andb_true_iff in P. apply P.
  - apply (rclean_hsel (HCons false b r) (dnat d)); [exact P|]. simpl in E |- *. injection E as E1 _. exact E1.
Qed.

Lemma ret_hsel_none hs : forall n, hsel hs n = None -> hsel (fst (ret_blocks hs)) n = None.
Proof.
  induction hs as [|a b r IH]; intros n E; simpl in *; [reflexivity|].
  destruct (ret_block false false b) as [b' h1] eqn:E1. destruct (ret_blocks r) as [r' h2] eqn:E2.
  destruct n; [discriminate|]. simpl. exact (IH n E).
Qed.

Definition ragree (s sl : store) : Prop := forall h, h <> rflag -> sl h = s h.
Definition ro (o : outcome) : outcome := match o with ORet => ONormal | _ => o end.

Lemma rceval_agree c s sl d : rclean_cond c = true -> ragree s sl -> ceval c sl d = ceval c s d.
Proof.
  intros C A. induction c as [l|f|f c IH]; simpl in *.
  - reflexivity.
  - apply negb_true_iff in C. apply Nat.eqb_neq in C. rewrite (A f C). reflexivity.
  - apply andb_true_iff in C; destruct C as [C1 C2]. apply negb_true_iff in C1. apply Nat.eqb_neq in C1. rewrite (A f C1).
    destruct (s f); [reflexivity | apply IH, C2].
Qed.

Lemma ragree_upd_clean s sl f v : ragree s sl -> ragree (upd s f v) (upd sl f v).
Proof. intros A h H. unfold upd. destruct (Nat.eqb h f); [reflexivity | apply A, H]. Qed.
Lemma ragree_upd_r s sl v : ragree s sl -> ragree s (upd sl rflag v).
Proof. intros A h H. rewrite upd_other by exact H. apply A, H. Qed.

(* a block without jumps is left alone by the pass *)
Lemma ret_jfree :
  (forall st, jfree_stmt st = true -> forall used, snd (ret_stmt used st) = false) /\
  (forall b, jfree_block b = true -> forall cur used, snd (ret_block cur used b) = false) /\
  (forall h, jfree_blocks h = true -> snd (ret_blocks h) = false).
Proof.
  apply stmt_block_ind3.
  - intros l _ used; reflexivity.
  - intros f v _ used; reflexivity.
  - intros t b1 IH1 b2 IH2 J used. simpl in J. apply andb_true_iff in J; destruct J as [J1 J2]. simpl.
    pose proof (IH1 J1 false false) as A. destruct (ret_block false false b1) as [b1' h1]. simpl in A; subst h1.
    pose proof (IH2 J2 false false) as B. destruct (ret_block false false b2) as [b2' h2]. simpl in B; subst h2. reflexivity.
  - intros t body IH1 orelse IH2 J used. simpl in J. apply andb_true_iff in J; destruct J as [J1 J2]. simpl.
    pose proof (IH1 J1 false false) as A. destruct (ret_block false false body) as [b1' h1]. simpl in A; subst h1.
    pose proof (IH2 J2 false false) as B. destruct (ret_block false false orelse) as [b2' h2]. simpl in B; subst h2. reflexivity.
  - intros J; discriminate.
  - intros J; discriminate.
  - intros l J; discriminate.
  - intros body IH1 hs IH2 orelse IH3 final IH4 J used. simpl in J.
    apply andb_true_iff in J; destruct J as [J J4]. apply andb_true_iff in J; destruct J as [J J3].
    apply andb_true_iff in J; destruct J as [J1 J2]. simpl.
    pose proof (IH1 J1 false false) as A1. destruct (ret_block false false body) as [b1 h1]. simpl in A1; subst h1.
    pose proof (IH3 J3 false false) as A2. destruct (ret_block false false orelse) as [b2 h2]. simpl in A2; subst h2.
    pose proof (IH4 J4 false false) as A3. destruct (ret_block false false final) as [b3 h3]. simpl in A3; subst h3.
    pose proof (IH2 J2) as A4. destruct (ret_blocks hs) as [b4 h4]. simpl in A4; subst h4. reflexivity.
  - intros l body IH J used. simpl in J |- *.
    pose proof (IH J false false) as A. destruct (ret_block false false body) as [b1 h1]. exact A.
  - intros l _ used; reflexivity.
  - intros _ cur used; reflexivity.
  - intros st IH1 r IH2 J cur used. simpl in J. apply andb_true_iff in J; destruct J as [J1 J2]. simpl.
    pose proof (IH1 J1 used) as A. destruct (ret_stmt used st) as [st' h1]. simpl in A; subst h1.
    pose proof (IH2 J2 false (used || false)) as B. destruct (ret_block false (used || false) r) as [r' h2]. simpl in B; subst h2.
    reflexivity.
  - intros _; reflexivity.
  - intros a b IH1 r IH2 J. simpl in J. apply andb_true_iff in J; destruct J as [J1 J2]. simpl.
    pose proof (IH1 J1 false false) as A. destruct (ret_block false false b) as [b' h1]. simpl in A; subst h1.
    pose proof (IH2 J2) as B. destruct (ret_blocks r) as [r' h2]. simpl in B; subst h2. reflexivity.
Qed.

Lemma ret_dispatch_none hs d d' : dispatch hs d = (None, d') -> dispatch (fst (ret_blocks hs)) d = (None, d').
Proof.
  intros E. destruct hs as [|a b r]; [exact E|]. destruct a; [discriminate|].
  assert (E' : hsel (HCons false b r) (dnat d) = None /\ d' = dtail d) by (simpl in E |- *; injection E as E1 E2; auto).
  destruct E' as [E1 ->]. pose proof (ret_hsel_none _ _ E1) as Hs.
  simpl in Hs |- *. destruct (ret_block false false b) as [b' h1]. destruct (ret_blocks r) as [r' h2]. simpl in *.
  rewrite Hs. reflexivity.
Qed.

Definition rpost (o : outcome) (hit : bool) (sl sl' : store) : Prop :=
  (o = ORet -> sl' rflag = true /\ hit = true) /\ (o <> ORet -> sl' rflag = sl rflag).

Definition rok_stmt (st : stmt) (s : store) (d : decisions) (tr : list label) (o : outcome) (s' : store) (d' : decisions) : Prop :=
  rclean_stmt st = true -> forall used sl, ragree s sl ->
    (used = true \/ snd (ret_stmt used st) = true -> sl rflag = false) ->
    exists sl', run_block (fst (ret_stmt used st)) sl d tr (ro o) sl' d' /\ ragree s' sl'
                /\ rpost o (snd (ret_stmt used st)) sl sl'.

Definition rok_block (b : block) (s : store) (d : decisions) (tr : list label) (o : outcome) (s' : store) (d' : decisions) : Prop :=
  rclean_block b = true -> forall cur used sl, ragree s sl ->
    (used = true \/ cur = true \/ snd (ret_block cur used b) = true -> sl rflag = false) ->
    exists sl', run_block (fst (ret_block cur used b)) sl d tr (ro o) sl' d' /\ ragree s' sl'
                /\ rpost o (snd (ret_block cur used b)) sl sl'.

Lemma rpost_refl o sl : o <> ORet -> rpost o false sl sl.
Proof. intros N; split; [congruence | reflexivity]. Qed.

Lemma rskip_rest r used sl d : sl rflag = true ->
  run_block (fst (ret_block true used r)) sl d [] ONormal sl d.
Proof.
  intros H. destruct r as [|st r]; simpl; [constructor|].
  destruct (ret_stmt used st) as [st' h1]. destruct (ret_block h1 (used || h1) r) as [r' h2]. simpl.
  apply run_one. change (@nil label) with (@nil label ++ []).
  eapply RIf; [simpl; rewrite H; reflexivity | constructor].
Qed.

Lemma rwrap cur all sl d tr o sl' d' : (cur = true -> sl rflag = false) ->
  run_block all sl d tr o sl' d' ->
  run_block (if cur then one (SIf (CNot rflag) all BNil) else all) sl d tr o sl' d'.
Proof.
  intros H R. destruct cur; [|exact R]. apply run_one. change tr with ([] ++ tr).
  eapply RIf; [simpl; rewrite (H eq_refl); reflexivity | exact R].
Qed.

(* the value is evaluated without raising: the flag stays set *)
Lemma run_lowered_return l sl d : fst (atom_res l d) = false ->
  run_block (one (lowered_return l)) sl d [l] ONormal (upd sl rflag true) (snd (atom_res l d)).
Proof.
  intros E. apply run_one. unfold lowered_return.
  change [l] with (([] ++ [l]) ++ [] ++ []).
  eapply RTryN; [|constructor|constructor].
  eapply RConsN; [constructor|]. apply run_one.
  pose proof (RAtom l (upd sl rflag true) d) as R. rewrite E in R. exact R.
Qed.

(* evaluating the value raises: the handler of the wrapper resets the flag and re-raises *)
Lemma run_lowered_return_raise l sl d : fst (atom_res l d) = true ->
  run_block (one (lowered_return l)) sl d [l] ORaise (upd (upd sl rflag true) rflag false) (snd (atom_res l d)).
Proof.
  intros E. apply run_one. unfold lowered_return.
  change [l] with (([] ++ [l]) ++ ([] ++ rtrace 0) ++ []).
  eapply RTryH; [| reflexivity | | constructor].
  - eapply RConsN; [constructor|]. apply RConsJ; [|discriminate].
    pose proof (RAtom l (upd sl rflag true) d) as R. rewrite E in R. exact R.
  - eapply RConsN; [constructor|]. apply RConsJ; [constructor | discriminate].
Qed.

Definition rloop_claim (st : stmt) (s : store) (used : bool) (d : decisions) (tr : list label) (o : outcome)
           (s' : store) (d' : decisions) : Prop :=
  match st with
  | SWhile c body orelse =>
      let '(body', hb) := ret_block false false body in
      forall sl, ragree s sl -> (used = true \/ hb = true -> sl rflag = false) ->
        exists sl', run_stmt (SWhile (if used || hb then CAndNot rflag c else c) body' BNil) sl d tr (ro o) sl' d'
                    /\ ragree s' sl' /\ rpost o hb sl sl'
  | _ => True
  end.

Lemma relse_skipped b sl d : sl rflag = true ->
  run_block (if negb (is_nil b) && true then one (SIf (CNot rflag) b BNil) else b) sl d [] ONormal sl d.
Proof.
  intros H. destruct b as [|st r]; simpl; [constructor|].
  apply run_one. change (@nil label) with (@nil label ++ []). eapply RIf; [simpl; rewrite H; reflexivity | constructor].
Qed.

Lemma relse_guarded b h1 sl d tr o sl' d' : (h1 = true -> sl rflag = false) ->
  run_block b sl d tr o sl' d' ->
  run_block (if negb (is_nil b) && h1 then one (SIf (CNot rflag) b BNil) else b) sl d tr o sl' d'.
Proof.
  intros H R. destruct (negb (is_nil b) && h1) eqn:G; [|exact R].
  apply andb_true_iff in G. destruct G as [_ G]. apply run_one. change tr with ([] ++ tr).
  eapply RIf; [simpl; rewrite (H G); reflexivity | exact R].
Qed.

Lemma ceval_guard used hb c sl d : (used = true \/ hb = true -> sl rflag = false) ->
  ceval (if used || hb then CAndNot rflag c else c) sl d = ceval c sl d.
Proof.
  intros H. destruct (used || hb) eqn:E; [|reflexivity]. simpl.
  rewrite H; [reflexivity|]. apply orb_true_iff in E. exact E.
Qed.

Theorem ret_correct_all :
  (forall st s d tr o s' d', run_stmt st s d tr o s' d' ->
      rok_stmt st s d tr o s' d' /\ (rclean_stmt st = true -> forall used, rloop_claim st s used d tr o s' d')) /\
  (forall b s d tr o s' d', run_block b s d tr o s' d' -> rok_block b s d tr o s' d').
Proof.
  apply run_mutind.
  - (* atom *) intros l s d. split; [|intros; exact I]. intros _ used sl A _. exists sl. simpl. pose proof (RAtom l sl d) as R.
    destruct (fst (atom_res l d)); simpl; (split; [apply run_one; exact R|]; split; [exact A | apply rpost_refl; discriminate]).
  - (* set *) intros f v s d. split; [|intros; exact I]. intros Cl used sl A _. simpl in Cl. apply negb_true_iff in Cl. apply Nat.eqb_neq in Cl.
    exists (upd sl f v). simpl. split; [apply run_one; constructor|]. split; [apply ragree_upd_clean, A|].
    split; [discriminate | intros _; apply upd_other; congruence].
  - (* break *) intros s d. split; [|intros; exact I]. intros _ used sl A _. exists sl. simpl.
    split; [apply run_one; constructor|]. split; [exact A | apply rpost_refl; discriminate].
  - (* continue *) intros s d. split; [|intros; exact I]. intros _ used sl A _. exists sl. simpl.
    split; [apply run_one; constructor|]. split; [exact A | apply rpost_refl; discriminate].
  - (* return *) intros l s d. split; [|intros; exact I]. intros _ used sl A Pre. simpl in Pre |- *.
    destruct (fst (atom_res l d)) eqn:E; simpl.
    + (* evaluating the value raises *)
      exists (upd (upd sl rflag true) rflag false). split; [apply run_lowered_return_raise, E|].
      split; [apply ragree_upd_r, ragree_upd_r, A|].
      split; [discriminate|]. intros _. rewrite upd_same. symmetry. apply Pre. right; reflexivity.
    + exists (upd sl rflag true). split; [apply run_lowered_return, E|]. split; [apply ragree_upd_r, A|].
      split; [intros _; split; [apply upd_same | reflexivity] | congruence].
  - (* if *)
    intros t b1 b2 s d v tc d1 tr o s' d' Ec _ IH. split; [|intros; exact I]. intros Cl used sl A Pre.
    simpl in Cl. apply andb_true_iff in Cl; destruct Cl as [Cl C2]. apply andb_true_iff in Cl; destruct Cl as [Ct C1].
    simpl in Pre |- *.
    destruct (ret_block false false b1) as [b1' h1] eqn:E1. destruct (ret_block false false b2) as [b2' h2] eqn:E2.
    simpl in Pre |- *. rewrite <- (rceval_agree t s sl d Ct A) in Ec.
    destruct v.
    + destruct (IH C1 false false sl A) as [sl' [R [A' Po]]].
      { rewrite E1; simpl. intros [H|[H|H]]; try discriminate. apply Pre. right. rewrite H; reflexivity. }
      rewrite E1 in R, Po; simpl in R, Po.
      exists sl'. split; [apply run_one; eapply RIf; [exact Ec | exact R]|]. split; [exact A'|].
      destruct Po as [P1 P2]. split; [|exact P2].
      intros E. destruct (P1 E) as [X ->]. split; [exact X | reflexivity].
    + destruct (IH C2 false false sl A) as [sl' [R [A' Po]]].
      { rewrite E2; simpl. intros [H|[H|H]]; try discriminate. apply Pre. right. rewrite H; apply orb_true_r. }
      rewrite E2 in R, Po; simpl in R, Po.
      exists sl'. split; [apply run_one; eapply RIf; [exact Ec | exact R]|]. split; [exact A'|].
      destruct Po as [P1 P2]. split; [|exact P2].
      intros E. destruct (P1 E) as [X ->]. split; [exact X | apply orb_true_r].
  - (* while: test false (no else clause) *)
    intros t body orelse s d tc d1 tr o s' d' Ec Ro _.
    assert (LC : rclean_stmt (SWhile t body orelse) = true -> forall used, rloop_claim (SWhile t body orelse) s used d (tc ++ tr) o s' d').
    { intros Cl used. simpl in Cl. apply andb_true_iff in Cl; destruct Cl as [Cl Co]. apply andb_true_iff in Cl; destruct Cl as [Ct Cb].
      destruct orelse; [|discriminate]. inversion Ro; subst.
      simpl. destruct (ret_block false false body) as [body' hb] eqn:E1.
      intros sl A Pre. exists sl. rewrite <- (rceval_agree t s' sl d Ct A) in Ec. split; [|split; [exact A | split; [discriminate | reflexivity]]].
      eapply RWhileEnd; [rewrite (ceval_guard _ _ _ _ _ Pre); exact Ec | constructor]. }
    split; [|exact LC]. intros Cl used sl A Pre. specialize (LC Cl used).
    simpl in Cl. apply andb_true_iff in Cl; destruct Cl as [Cl Co]. destruct orelse; [|discriminate].
    simpl in LC, Pre |- *. destruct (ret_block false false body) as [body' hb]. simpl in *.
    destruct (LC sl A) as [sl' [R X]]. { intros [H|H]; apply Pre; [left; exact H | right; rewrite H; reflexivity]. }
    exists sl'. split; [apply run_one; exact R|]. destruct X as [A' [P1 P2]]. split; [exact A'|]. split; [|exact P2].
    intros E. destruct (P1 E) as [X ->]. split; [exact X | reflexivity].
  - (* while: one more iteration *)
    intros t body orelse s d tc d1 tr o s1 d2 tr2 o2 s2 d3 Ec _ IHb Ho _ IHw.
    assert (LC : rclean_stmt (SWhile t body orelse) = true -> forall used, rloop_claim (SWhile t body orelse) s used d (tc ++ tr ++ tr2) o2 s2 d3).
    { intros Cl used. destruct IHw as [_ LW]. specialize (LW Cl used).
      simpl in Cl. apply andb_true_iff in Cl; destruct Cl as [Cl Co]. apply andb_true_iff in Cl; destruct Cl as [Ct Cb].
      simpl in LW |- *. pose proof (IHb Cb false false) as IB.
      destruct (ret_block false false body) as [body' hb] eqn:E1.
      intros sl A Pre.
      destruct (IB sl A) as [sl1 [Rb [A1 [Q1 Q2]]]]. { simpl. intros [H|[H|H]]; try discriminate. apply Pre; right; exact H. }
      simpl in Rb, Q1, Q2.
      assert (Nb : o <> ORet) by (destruct Ho as [-> | ->]; discriminate).
      assert (Eo : ro o = o) by (destruct Ho as [-> | ->]; reflexivity). rewrite Eo in Rb.
      assert (K1 : sl1 rflag = sl rflag) by (apply Q2, Nb).
      destruct (LW sl1 A1) as [sl2 [Rw [A2 [B1 B2]]]]. { intros H. rewrite K1. apply Pre, H. }
      exists sl2. rewrite <- (rceval_agree t s sl d Ct A) in Ec. split.
      - eapply RWhileIter; [rewrite (ceval_guard _ _ _ _ _ Pre); exact Ec | exact Rb | exact Ho | exact Rw].
      - split; [exact A2|]. split; [exact B1 | intros N; rewrite (B2 N); exact K1]. }
    split; [|exact LC]. intros Cl used sl A Pre. specialize (LC Cl used).
    simpl in Cl. apply andb_true_iff in Cl; destruct Cl as [Cl Co]. destruct orelse; [|discriminate].
    simpl in LC, Pre |- *. destruct (ret_block false false body) as [body' hb]. simpl in *.
    destruct (LC sl A) as [sl' [R X]]. { intros [H|H]; apply Pre; [left; exact H | right; rewrite H; reflexivity]. }
    exists sl'. split; [apply run_one; exact R|]. destruct X as [A' [P1 P2]]. split; [exact A'|]. split; [|exact P2].
    intros E. destruct (P1 E) as [X ->]. split; [exact X | reflexivity].
  - (* while: break *)
    intros t body orelse s d tc d1 tr s1 d2 Ec _ IHb.
    assert (LC : rclean_stmt (SWhile t body orelse) = true -> forall used, rloop_claim (SWhile t body orelse) s used d (tc ++ tr) ONormal s1 d2).
    { intros Cl used.
      simpl in Cl. apply andb_true_iff in Cl; destruct Cl as [Cl Co]. apply andb_true_iff in Cl; destruct Cl as [Ct Cb].
      simpl. pose proof (IHb Cb false false) as IB.
      destruct (ret_block false false body) as [body' hb] eqn:E1.
      intros sl A Pre.
      destruct (IB sl A) as [sl1 [Rb [A1 [Q1 Q2]]]]. { simpl. intros [H|[H|H]]; try discriminate. apply Pre; right; exact H. }
      simpl in Rb, Q1, Q2.
      exists sl1. rewrite <- (rceval_agree t s sl d Ct A) in Ec. split.
      - eapply RWhileBrk; [rewrite (ceval_guard _ _ _ _ _ Pre); exact Ec | exact Rb].
      - split; [exact A1|]. split; [discriminate | intros _; apply Q2; discriminate]. }
    split; [|exact LC]. intros Cl used sl A Pre. specialize (LC Cl used).
    simpl in Cl. apply andb_true_iff in Cl; destruct Cl as [Cl Co]. destruct orelse; [|discriminate].
    simpl in LC, Pre |- *. destruct (ret_block false false body) as [body' hb]. simpl in *.
    destruct (LC sl A) as [sl' [R X]]. { intros [H|H]; apply Pre; [left; exact H | right; rewrite H; reflexivity]. }
    exists sl'. split; [apply run_one; exact R|]. destruct X as [A' [P1 P2]]. split; [exact A'|]. split; [|exact P2].
    intros E; discriminate.
  - (* while: return -> the flag ends the loop at its next test; raise -> leaves the loop *)
    intros t body orelse s d tc d1 tr o s1 d2 Ec _ IHb Ho.
    assert (LC : rclean_stmt (SWhile t body orelse) = true -> forall used, rloop_claim (SWhile t body orelse) s used d (tc ++ tr) o s1 d2).
    { intros Cl used.
      simpl in Cl. apply andb_true_iff in Cl; destruct Cl as [Cl Co]. apply andb_true_iff in Cl; destruct Cl as [Ct Cb].
      simpl. pose proof (IHb Cb false false) as IB.
      destruct (ret_block false false body) as [body' hb] eqn:E1.
      intros sl A Pre.
      destruct (IB sl A) as [sl1 [Rb [A1 [Q1 Q2]]]]. { simpl. intros [H|[H|H]]; try discriminate. apply Pre; right; exact H. }
      simpl in Rb, Q1, Q2. destruct Ho as [-> | ->].
      - destruct (Q1 eq_refl) as [T1 ->].
        exists sl1. rewrite <- (rceval_agree t s sl d Ct A) in Ec. split.
        + replace (tc ++ tr) with (tc ++ tr ++ ([] ++ [])) by (simpl; rewrite app_nil_r; reflexivity).
          eapply RWhileIter; [rewrite (ceval_guard _ _ _ _ _ Pre); exact Ec | exact Rb | left; reflexivity |].
          eapply RWhileEnd; [rewrite orb_true_r; simpl; rewrite T1; reflexivity | constructor].
        + split; [exact A1|]. split; [intros _; split; [exact T1 | reflexivity] | congruence].
      - exists sl1. rewrite <- (rceval_agree t s sl d Ct A) in Ec. split.
        + eapply RWhileOut; [rewrite (ceval_guard _ _ _ _ _ Pre); exact Ec | exact Rb | right; reflexivity].
        + split; [exact A1|]. split; [discriminate | intros _; apply Q2; discriminate]. }
    split; [|exact LC]. intros Cl used sl A Pre. specialize (LC Cl used).
    simpl in Cl. apply andb_true_iff in Cl; destruct Cl as [Cl Co]. destruct orelse; [|discriminate].
    simpl in LC, Pre |- *. destruct (ret_block false false body) as [body' hb]. simpl in *.
    destruct (LC sl A) as [sl' [R X]]. { intros [H|H]; apply Pre; [left; exact H | right; rewrite H; reflexivity]. }
    exists sl'. split; [apply run_one; exact R|]. destruct X as [A' [P1 P2]]. split; [exact A'|]. split; [|exact P2].
    intros E. destruct (P1 E) as [X ->]. split; [exact X | reflexivity].
  - (* with *)
    intros l body s d tr o s' d' _ IHb. split; [|intros; exact I]. intros Cl used sl A Pre.
    simpl in Cl, Pre |- *. pose proof (IHb Cl false false sl A) as IB.
    destruct (ret_block false false body) as [body' h1] eqn:E1. simpl in *.
    destruct IB as [sl' [R [A' Po]]]. { intros [H|[H|H]]; try discriminate. apply Pre; right; exact H. }
    exists sl'. split; [apply run_one, RWith, R|]. split; assumption.
  - (* try: body completes, else clause, finally *)
    intros body hs orelse final s d tr1 s1 d1 tr2 o2 s2 d2 tr3 s3 d3 _ IHb _ IHo _ IHf. split; [|intros; exact I].
    intros Cl used sl A Pre. simpl in Cl.
    apply andb_true_iff in Cl; destruct Cl as [Cl Jf]. apply andb_true_iff in Cl; destruct Cl as [Cl Cf].
    apply andb_true_iff in Cl; destruct Cl as [Cl Co]. apply andb_true_iff in Cl; destruct Cl as [Cb Ch].
    simpl in Pre |- *.
    pose proof (IHb Cb false false sl A) as IB.
    destruct (ret_block false false body) as [body' h1] eqn:E1.
    pose proof (IHo Co false false) as IO.
    destruct (ret_block false false orelse) as [orelse' h2] eqn:E2.
    pose proof (IHf Cf false false) as IFN.
    pose proof (proj1 (proj2 ret_jfree) final Jf false false) as H3.
    destruct (ret_block false false final) as [final' h3] eqn:E3.
    destruct (ret_blocks hs) as [hs' h4] eqn:E4.
    simpl in *. subst h3.
    destruct IB as [sl1 [R1 [A1 [P1 P2]]]]. { intros [H|[H|H]]; try discriminate. apply Pre; right. rewrite H; reflexivity. }
    assert (C1 : sl1 rflag = sl rflag) by (apply P2; discriminate).
    destruct (IO sl1 A1) as [sl2 [R2 [A2 [Q1 Q2]]]].
    { intros [H|[H|H]]; try discriminate. rewrite C1. apply Pre; right. rewrite H; rewrite ?orb_true_r; reflexivity. }
    destruct (IFN sl2 A2) as [sl3 [R3 [A3 [F1 F2]]]]. { intros [H|[H|H]]; discriminate. }
    assert (C3 : sl3 rflag = sl2 rflag) by (apply F2; discriminate).
    exists sl3. split; [|split; [exact A3|]].
    + apply run_one. eapply RTryN; [exact R1 | | exact R3].
      apply relse_guarded; [|exact R2]. intros H. rewrite C1. apply Pre; right. rewrite H; reflexivity.
    + split.
      * intros E. destruct (Q1 E) as [X Y]. split; [rewrite C3; exact X | rewrite Y; rewrite ?orb_true_r; reflexivity].
      * intros N. rewrite C3, (Q2 N). exact C1.
  - (* try: body jumps, finally *)
    intros body hs orelse final s d tr1 ob s1 d1 tr3 s3 d3 _ IHb Nb Nr _ IHf. split; [|intros; exact I].
    intros Cl used sl A Pre. simpl in Cl.
    apply andb_true_iff in Cl; destruct Cl as [Cl Jf]. apply andb_true_iff in Cl; destruct Cl as [Cl Cf].
    apply andb_true_iff in Cl; destruct Cl as [Cl Co]. apply andb_true_iff in Cl; destruct Cl as [Cb Ch].
    simpl in Pre |- *.
    pose proof (IHb Cb false false sl A) as IB.
    destruct (ret_block false false body) as [body' h1] eqn:E1.
    destruct (ret_block false false orelse) as [orelse' h2] eqn:E2.
    pose proof (IHf Cf false false) as IFN.
    pose proof (proj1 (proj2 ret_jfree) final Jf false false) as H3.
    destruct (ret_block false false final) as [final' h3] eqn:E3.
    destruct (ret_blocks hs) as [hs' h4] eqn:E4.
    simpl in *. subst h3.
    destruct IB as [sl1 [R1 [A1 [P1 P2]]]]. { intros [H|[H|H]]; try discriminate. apply Pre; right. rewrite H; reflexivity. }
    destruct (IFN sl1 A1) as [sl3 [R3 [A3 [F1 F2]]]]. { intros [H|[H|H]]; discriminate. }
    assert (C3 : sl3 rflag = sl1 rflag) by (apply F2; discriminate).
    exists sl3. split; [|split; [exact A3|]].
    + apply run_one. destruct ob; try congruence.
      * eapply RTryJ; [exact R1 | discriminate | discriminate | exact R3].
      * eapply RTryJ; [exact R1 | discriminate | discriminate | exact R3].
      * (* the body returned: in the lowered program it completes with the flag set and the else clause is skipped *)
        destruct (P1 eq_refl) as [Ct ->]. simpl in R1.
        replace (tr1 ++ tr3) with (tr1 ++ [] ++ tr3) by reflexivity.
        eapply RTryN; [exact R1 | apply relse_skipped, Ct | exact R3].
      * eapply RTryJ; [exact R1 | discriminate | discriminate | exact R3].
      * eapply RTryJ; [exact R1 | discriminate | discriminate | exact R3].
    + split.
      * intros E. destruct (P1 E) as [X ->]. split; [rewrite C3; exact X | reflexivity].
      * intros N. rewrite C3. apply P2, N.
  - (* try: body raises, no handler, finally *)
    intros body hs orelse final s d tr1 s1 d1 d1' tr3 s3 d3 _ IHb Eh _ IHf. split; [|intros; exact I].
    intros Cl used sl A Pre. simpl in Cl.
    apply andb_true_iff in Cl; destruct Cl as [Cl Jf]. apply andb_true_iff in Cl; destruct Cl as [Cl Cf].
    apply andb_true_iff in Cl; destruct Cl as [Cl Co]. apply andb_true_iff in Cl; destruct Cl as [Cb Ch].
    simpl in Pre |- *.
    pose proof (IHb Cb false false sl A) as IB.
    destruct (ret_block false false body) as [body' h1] eqn:E1.
    destruct (ret_block false false orelse) as [orelse' h2] eqn:E2.
    pose proof (IHf Cf false false) as IFN.
    pose proof (proj1 (proj2 ret_jfree) final Jf false false) as H3.
    destruct (ret_block false false final) as [final' h3] eqn:E3.
    pose proof (ret_dispatch_none hs _ _ Eh) as Eh'.
    destruct (ret_blocks hs) as [hs' h4] eqn:E4.
    simpl in *. subst h3.
    destruct IB as [sl1 [R1 [A1 [P1 P2]]]]. { intros [H|[H|H]]; try discriminate. apply Pre; right. rewrite H; reflexivity. }
    destruct (IFN sl1 A1) as [sl3 [R3 [A3 [F1 F2]]]]. { intros [H|[H|H]]; discriminate. }
    assert (C3 : sl3 rflag = sl1 rflag) by (apply F2; discriminate).
    exists sl3. split; [|split; [exact A3|]].
    + apply run_one. eapply RTryU; [exact R1 | exact Eh' | exact R3].
    + split; [discriminate|]. intros N. rewrite C3. apply P2, N.
  - (* try: body raises, handler runs, finally *)
    intros body hs orelse final s d tr1 s1 d1 d1' h tr2 oh s2 d2 tr3 s3 d3 _ IHb Eh _ IHh _ IHf. split; [|intros; exact I].
    intros Cl used sl A Pre. simpl in Cl.
    apply andb_true_iff in Cl; destruct Cl as [Cl Jf]. apply andb_true_iff in Cl; destruct Cl as [Cl Cf].
    apply andb_true_iff in Cl; destruct Cl as [Cl Co]. apply andb_true_iff in Cl; destruct Cl as [Cb Ch].
    simpl in Pre |- *.
    pose proof (IHb Cb false false sl A) as IB.
    destruct (ret_block false false body) as [body' h1] eqn:E1.
    destruct (ret_block false false orelse) as [orelse' h2] eqn:E2.
    pose proof (IHf Cf false false) as IFN.
    pose proof (proj1 (proj2 ret_jfree) final Jf false false) as H3.
    destruct (ret_block false false final) as [final' h3] eqn:E3.
    destruct (ret_dispatch hs _ _ _ Eh) as [Eh' Hu].
    destruct (ret_blocks hs) as [hs' h4] eqn:E4.
    simpl in *. subst h3.
    destruct IB as [sl1 [R1 [A1 [P1 P2]]]]. { intros [H|[H|H]]; try discriminate. apply Pre; right. rewrite H; reflexivity. }
    assert (C1 : sl1 rflag = sl rflag) by (apply P2; discriminate).
    destruct (IHh (rclean_dispatch _ _ _ _ Ch Eh) false false sl1 A1) as [sl2 [R2 [A2 [Q1 Q2]]]].
    { intros [H|[H|H]]; try discriminate. rewrite C1. apply Pre; right. rewrite (Hu H). rewrite ?orb_true_r; reflexivity. }
    destruct (IFN sl2 A2) as [sl3 [R3 [A3 [F1 F2]]]]. { intros [H|[H|H]]; discriminate. }
    assert (C3 : sl3 rflag = sl2 rflag) by (apply F2; discriminate).
    exists sl3. split; [|split; [exact A3|]].
    + apply run_one. eapply RTryH; [exact R1 | exact Eh' | exact R2 | exact R3].
    + split.
      * intros E. destruct (Q1 E) as [X Y]. split; [rewrite C3; exact X | rewrite (Hu Y); rewrite ?orb_true_r; reflexivity].
      * intros N. rewrite C3, (Q2 N). exact C1.
  - (* raise *) intros l s d. split; [|intros; exact I]. intros _ used sl A _. exists sl. simpl.
    split; [apply run_one; constructor|]. split; [exact A | apply rpost_refl; discriminate].
  - (* nil *) intros s d _ cur used sl A _. exists sl. simpl. split; [constructor|]. split; [exact A | apply rpost_refl; discriminate].
  - (* cons, first statement completes *)
    intros st r s d tr s1 d1 tr2 o2 s2 d2 _ IHs _ IHr Cl cur used sl A Pre.
    simpl in Cl. apply andb_true_iff in Cl; destruct Cl as [Cs Cr]. destruct IHs as [IHs _].
    pose proof (IHs Cs used sl A) as IS. simpl in Pre |- *.
    destruct (ret_stmt used st) as [st' h1] eqn:E1.
    pose proof (IHr Cr h1 (used || h1)) as IR.
    destruct (ret_block h1 (used || h1) r) as [r' h2] eqn:E2. simpl in *.
    destruct IS as [sl1 [R1 [A1 [P1 P2]]]].
    { intros [H|H]; apply Pre; [left; exact H | right; right; rewrite H; reflexivity]. }
    assert (C1 : sl1 rflag = sl rflag) by (apply P2; discriminate).
    destruct (IR sl1 A1) as [sl2 [R2 [A2 [Q1 Q2]]]].
    { intros H. rewrite C1. apply Pre. destruct H as [H|[H|H]].
      - apply orb_true_iff in H. destruct H as [H|H]; [left; exact H | right; right; rewrite H; reflexivity].
      - right; right; rewrite H; reflexivity.
      - right; right; rewrite H; apply orb_true_r. }
    exists sl2. split; [|split; [exact A2|]].
    + apply rwrap; [intros ->; apply Pre; right; left; reflexivity | eapply run_bapp; eassumption].
    + split.
      * intros E. destruct (Q1 E) as [X ->]. split; [exact X | apply orb_true_r].
      * intros N. rewrite (Q2 N). exact C1.
  - (* cons, first statement jumps *)
    intros st r s d tr o s1 d1 _ IHs No Cl cur used sl A Pre.
    simpl in Cl. apply andb_true_iff in Cl; destruct Cl as [Cs Cr]. destruct IHs as [IHs _].
    pose proof (IHs Cs used sl A) as IS. simpl in Pre |- *.
    destruct (ret_stmt used st) as [st' h1] eqn:E1.
    pose proof (rskip_rest r (used || h1)) as SK.
    destruct (ret_block h1 (used || h1) r) as [r' h2] eqn:E2. simpl in *.
    destruct IS as [sl1 [R1 [A1 [P1 P2]]]].
    { intros [H|H]; apply Pre; [left; exact H | right; right; rewrite H; reflexivity]. }
    exists sl1. split; [|split; [exact A1|]].
    + apply rwrap; [intros ->; apply Pre; right; left; reflexivity|].
      destruct o; try congruence.
      * apply run_bapp_jump; [exact R1 | discriminate].
      * apply run_bapp_jump; [exact R1 | discriminate].
      * destruct (P1 eq_refl) as [Ct ->]. rewrite E2 in SK. simpl in SK, R1.
        rewrite <- (app_nil_r tr). eapply run_bapp; [exact R1 | apply SK, Ct].
      * apply run_bapp_jump; [exact R1 | discriminate].
      * apply run_bapp_jump; [exact R1 | discriminate].
      * apply run_bapp_jump; [exact R1 | discriminate].
    + split; [|exact P2].
      intros E. destruct (P1 E) as [X ->]. split; [exact X | reflexivity].
Qed.


(* ---- top level: the whole return pass --------------------------------------- *)
Definition return_pass (b : block) : block * bool := ret_block false false (fst (crr_block b)).

Theorem return_lowering_correct_lemma b s d tr o s' d' :
  run_block b s d tr o s' d' -> rclean_block (fst (crr_block b)) = true ->
  forall sl, ragree s sl -> sl rflag = false ->
  exists sl', run_block (fst (return_pass b)) sl d tr (ro o) sl' d' /\ ragree s' sl'
              /\ (o = ORet -> sl' rflag = true /\ snd (return_pass b) = true)
              /\ (o <> ORet -> sl' rflag = false).
Proof.
  intros R C sl A F.
  destruct (proj2 crr_correct_all _ _ _ _ _ _ _ R) as [R' _].
  destruct (proj2 ret_correct_all _ _ _ _ _ _ _ R' C false false sl A) as [sl' [R2 [A2 [P1 P2]]]].
  { intros _; exact F. }
  exists sl'. split; [exact R2|]. split; [exact A2|]. split; [exact P1|].
  intros N. rewrite (P2 N). exact F.
Qed.
