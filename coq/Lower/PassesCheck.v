(* C01: structural comparison of the model passes with the real passes' outputs (vm_compute on cases). *)
From Coq Require Import List Arith Bool.
Import ListNotations.
Require Import MV.Lower.Lang MV.Lower.Passes.

Fixpoint cond_beq (a b : cond) : bool :=
  match a, b with
  | CUser x, CUser y => Nat.eqb x y
  | CNot f, CNot g => Nat.eqb f g
  | CAndNot f x, CAndNot g y => Nat.eqb f g && cond_beq x y
  | _, _ => false
  end.
Fixpoint stmt_beq (a b : stmt) : bool :=
  match a, b with
  | SAtom x, SAtom y => Nat.eqb x y
  | SSet f v, SSet g w => Nat.eqb f g && Bool.eqb v w
  | SIf c x1 x2, SIf e y1 y2 => cond_beq c e && block_beq x1 y1 && block_beq x2 y2
  | SWhile c x1 x2, SWhile e y1 y2 => cond_beq c e && block_beq x1 y1 && block_beq x2 y2
  | SBreak, SBreak | SContinue, SContinue => true
  | SReturn x, SReturn y => Nat.eqb x y
  | STry a1 a2 a3 a4, STry b1 b2 b3 b4 => block_beq a1 b1 && blocks_beq a2 b2 && block_beq a3 b3 && block_beq a4 b4
  | SWith x a1, SWith y b1 => Nat.eqb x y && block_beq a1 b1
  | SRaise x, SRaise y => Nat.eqb x y
  | _, _ => false
  end
with block_beq (a b : block) : bool :=
  match a, b with
  | BNil, BNil => true
  | BCons s r, BCons t q => stmt_beq s t && block_beq r q
  | _, _ => false
  end
with blocks_beq (a b : blocks) : bool :=
  match a, b with
  | HNil, HNil => true
  | HCons a s r, HCons c t q => Bool.eqb a c && block_beq s t && blocks_beq r q
  | _, _ => false
  end.

(* index, input of the break pass, its real output (= input of the continue pass), real output of the continue
   pass (= input of the return pass), real output of the return pass with the function-level prologue /
   epilogue stripped, whether that prologue / epilogue was present *)
Definition lcase : Set := (nat * block * block * block * block * bool)%type.
Definition return_pass (b : block) : block * bool := ret_block false false (fst (crr_block b)).
Definition check_lcase (c : lcase) : bool :=
  match c with (_, b0, b1, b2, b3, used) =>
    block_beq (fst (fst (brk_block 5 0 b0))) b1 && block_beq (fst (fst (cont_block (cflag 0) 1 false false b1))) b2
    && block_beq (fst (return_pass b2)) b3 && Bool.eqb (snd (return_pass b2)) used end.
Definition which_fails (c : lcase) : nat :=
  match c with (_, b0, b1, b2, b3, used) =>
    if negb (block_beq (fst (fst (brk_block 5 0 b0))) b1) then 1
    else if negb (block_beq (fst (fst (cont_block (cflag 0) 1 false false b1))) b2) then 2
    else if negb (block_beq (fst (return_pass b2)) b3 && Bool.eqb (snd (return_pass b2)) used) then 3 else 0 end.
Definition failing_lcases (cs : list lcase) : list nat :=
  map (fun c => match c with (i, _, _, _, _, _) => i end) (filter (fun c => negb (check_lcase c)) cs).

(* ---- validation of the SEMANTICS of the lowering language against CPython ------------------------------
   A real run of the original function under a decision vector yields the ordered log of external events
   (T / D / loop-iteration / context-manager entry), the decisions in the order they were consumed (with
   the index of the handler every raised exception was dispatched to inserted where it was raised) and the
   way the call ended.  The interpreter, run on the exported body with these decisions, must produce a
   trace whose labels expand (evmap: label -> events of that statement) to the same log and the same
   kind of outcome. *)
(* events are pairs (kind, key) of small numbers; evmaps: per program, label -> events of that statement *)
Definition ev : Set := (nat * nat)%type.
Definition scase : Set := (nat * nat * list nat * list ev * nat)%type.   (* id, program, decisions, log, ending *)
Fixpoint lookup_ev (m : list (nat * list ev)) (l : nat) : list ev :=
  match m with [] => [] | (k, v) :: r => if Nat.eqb k l then v else lookup_ev r l end.
Definition project (m : list (nat * list ev)) (tr : list label) : list ev := flat_map (lookup_ev m) tr.
Fixpoint list_ev_beq (a b : list ev) : bool :=
  match a, b with
  | [] , [] => true
  | (x1, x2) :: r, (y1, y2) :: q => Nat.eqb x1 y1 && Nat.eqb x2 y2 && list_ev_beq r q
  | _, _ => false
  end.
(* what a caller can see of the way a call ended: 9 = it completed (fell off the end or returned), 2 = exception *)
Definition outcome_ok (o : outcome) (oc : nat) : bool :=
  match o with
  | ONormal | ORet => Nat.eqb oc 9
  | ORaise => Nat.eqb oc 2
  | _ => false
  end.
Definition b0_of (c : lcase) : block := match c with (_, b0, _, _, _, _) => b0 end.
Definition check_scase (cs : list lcase) (ms : list (list (nat * list ev))) (c : scase) : bool :=
  match c with (_, i, dv, evs, oc) =>
    match nth_error cs i, nth_error ms i with
    | Some lc, Some m =>
        let '(tr, o, _, d') := exec_block 600 (b0_of lc) (fun _ => false) dv in
        list_ev_beq (project m tr) evs && outcome_ok o oc && match d' with [] => true | _ => false end
    | _, _ => false
    end
  end.
Definition failing_scases (cs : list lcase) (ms : list (list (nat * list ev))) (ss : list scase) : list nat :=
  map (fun c => match c with (j, _, _, _, _) => j end) (filter (fun c => negb (check_scase cs ms c)) ss).
