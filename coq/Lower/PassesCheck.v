(* C01: structural comparison of the model passes with the real passes' outputs (vm_compute on cases). *)
From Coq Require Import List Arith Bool.
Import ListNotations.
Require Import MV.Lower.Lang MV.Lower.Passes.

Fixpoint cond_beq (a b : cond) : bool :=
  match a, b with
  | CUser x, CUser y => Nat.eqb x y
  | CNot f, CNot g => Nat.eqb f g
  | CAndNot f x, CAndNot g y => Nat.eqb f g && cond_beq x y
  | _, _ => false
  end.
Fixpoint stmt_beq (a b : stmt) : bool :=
  match a, b with
  | SAtom x, SAtom y => Nat.eqb x y
  | SSet f v, SSet g w => Nat.eqb f g && Bool.eqb v w
  | SIf c x1 x2, SIf e y1 y2 => cond_beq c e && block_beq x1 y1 && block_beq x2 y2
  | SWhile c x1 x2, SWhile e y1 y2 => cond_beq c e && block_beq x1 y1 && block_beq x2 y2
  | SBreak, SBreak | SContinue, SContinue => true
  | SReturn x, SReturn y => Nat.eqb x y
  | _, _ => false
  end
with block_beq (a b : block) : bool :=
  match a, b with
  | BNil, BNil => true
  | BCons s r, BCons t q => stmt_beq s t && block_beq r q
  | _, _ => false
  end.

(* index, input of the break pass, its real output (= input of the continue pass), real output of the continue pass *)
Definition lcase : Set := (nat * block * block * block)%type.
Definition check_lcase (c : lcase) : bool :=
  match c with (_, b0, b1, b2) =>
    block_beq (fst (fst (brk_block 2 0 b0))) b1 && block_beq (fst (fst (cont_block (cflag 0) 1 false b1))) b2 end.
Definition failing_lcases (cs : list lcase) : list nat :=
  map (fun c => match c with (i, _, _, _) => i end) (filter (fun c => negb (check_lcase c)) cs).
