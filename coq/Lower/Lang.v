(* C01: the language on which the jump-lowering passes (break / continue / return canonicalisation)
   are modelled.  User statements and user tests are opaque atoms identified by a label; what the
   passes add -- control flags, `if not flag:` guards, `not flag and test` loop tests -- is explicit.
   Semantics: decision-driven (each user test consumes one decision, as in Cfg/Skel.v), the observable
   is the ordered trace of executed atoms and user tests, the outcome and the remaining decisions. *)
From Coq Require Import List Arith Bool.
Import ListNotations.

Definition label := nat.
Definition flag := nat.

Inductive cond : Set :=
| CUser (l : label)               (* a user test: evaluated (traced), its value is the next decision *)
| CNot (f : flag)                 (* not f *)
| CAndNot (f : flag) (c : cond).  (* not f and c   (short-circuit) *)

Inductive stmt : Set :=
| SAtom (l : label)
| SSet (f : flag) (v : bool)
| SIf (c : cond) (b1 b2 : block)
| SWhile (c : cond) (body orelse : block)     (* while, and for with its extra test *)
| SBreak
| SContinue
| SReturn (l : label)                         (* l: the (traced) evaluation of the return value *)
(* try / with / raise.  Exceptions come from `raise` statements and from user statements / return values
   with an ODD label (`raises`): such a statement consumes a decision that says whether its evaluation
   raises (labels are arbitrary, so quantifying over programs covers every choice of which statements can
   raise).  `raise` with label 0 is the bare re-raise (nothing is evaluated, nothing traced).  When the
   body of a try raises: if the first handler is a bare `except:` it runs; otherwise the next decision
   selects the handler that matches (its index; an index past the last handler = no handler matches and
   the exception propagates) -- an over-approximation of matching by exception type, which the passes do
   not touch.  The else clause runs
   when the body completes normally, the finally clause always runs.  A finally clause that does not
   complete normally (which would override the pending jump or exception) has no rule: a run that
   reaches that is stuck and the theorems say nothing about it.  A context manager that swallows the
   exception is not modelled (an exception leaves the with statement). *)
| STry (body : block) (handlers : blocks) (orelse final : block)
| SWith (l : label) (body : block)
| SRaise (l : label)
with block : Set := BNil | BCons (s : stmt) (b : block)
(* handlers: `all` = a bare `except:` clause (catches everything) *)
with blocks : Set := HNil | HCons (all : bool) (b : block) (h : blocks).

Fixpoint bapp (a b : block) : block :=
  match a with BNil => b | BCons s r => BCons s (bapp r b) end.

Definition store := flag -> bool.
Definition upd (s : store) (f : flag) (v : bool) : store := fun g => if Nat.eqb g f then v else s g.

Inductive outcome : Set := ONormal | OBrk | OCont | ORet | ORaise | OFuel | OStuck.

Definition decisions := list nat.
Definition dhead (d : decisions) : bool := match d with [] => false | c :: _ => negb (Nat.eqb c 0) end.
Definition dtail (d : decisions) : decisions := match d with [] => [] | _ :: r => r end.
Definition dnat (d : decisions) : nat := match d with [] => 0 | c :: _ => c end.

(* the handler an exception is dispatched to *)
Fixpoint hsel (hs : blocks) (n : nat) : option block :=
  match hs with
  | HNil => None
  | HCons _ b r => match n with 0 => Some b | S m => hsel r m end
  end.
Definition dispatch (hs : blocks) (d : decisions) : option block * decisions :=
  match hs with
  | HCons true b _ => (Some b, d)
  | _ => (hsel hs (dnat d), dtail d)
  end.

(* user statements and return values that can raise; (raised?, decisions left) *)
Definition raises (l : label) : bool := Nat.odd l.
Definition atom_res (l : label) (d : decisions) : bool * decisions :=
  if raises l then (negb (Nat.eqb (dnat d) 0), dtail d) else (false, d).
Definition rtrace (l : label) : list label := if Nat.eqb l 0 then [] else [l].

(* value of a test, the user tests it evaluated, remaining decisions *)
Fixpoint ceval (c : cond) (s : store) (d : decisions) : bool * list label * decisions :=
  match c with
  | CUser l => (dhead d, [l], dtail d)
  | CNot f => (negb (s f), [], d)
  | CAndNot f c' => if s f then (false, [], d) else ceval c' s d
  end.

Definition res : Set := (list label * outcome * store * decisions)%type.

Fixpoint exec_stmt (n : nat) (st : stmt) (s : store) (d : decisions) {struct n} : res :=
  match n with
  | 0 => ([], OFuel, s, d)
  | S n' =>
    match st with
    | SAtom l => ([l], if fst (atom_res l d) then ORaise else ONormal, s, snd (atom_res l d))
    | SSet f v => ([], ONormal, upd s f v, d)
    | SBreak => ([], OBrk, s, d)
    | SContinue => ([], OCont, s, d)
    | SReturn l => ([l], if fst (atom_res l d) then ORaise else ORet, s, snd (atom_res l d))
    | SIf c b1 b2 =>
        let '(v, tc, d1) := ceval c s d in
        let '(tr, o, s', d') := exec_block n' (if v then b1 else b2) s d1 in
        (tc ++ tr, o, s', d')
    | SWhile c body orelse =>
        let '(v, tc, d1) := ceval c s d in
        if v then
          let '(tr, o, s1, d2) := exec_block n' body s d1 in
          match o with
          | ONormal | OCont =>
              let '(tr2, o2, s2, d3) := exec_stmt n' (SWhile c body orelse) s1 d2 in
              (tc ++ tr ++ tr2, o2, s2, d3)
          | OBrk => (tc ++ tr, ONormal, s1, d2)
          | _ => (tc ++ tr, o, s1, d2)
          end
        else
          let '(tr, o, s', d') := exec_block n' orelse s d1 in (tc ++ tr, o, s', d')
    | SWith l body =>
        let '(tr, o, s', d') := exec_block n' body s d in (l :: tr, o, s', d')
    | STry body hs orelse final =>
        let '(tr1, ob, s1, d1) := exec_block n' body s d in
        let '(tr2, o2, s2, d2) :=
          match ob with
          | ONormal => exec_block n' orelse s1 d1
          | ORaise => match dispatch hs d1 with
                      | (Some h, d1') => exec_block n' h s1 d1'
                      | (None, d1') => ([], ORaise, s1, d1')
                      end
          | _ => ([], ob, s1, d1)
          end in
        match o2 with
        | OFuel | OStuck => (tr1 ++ tr2, o2, s2, d2)
        | _ =>
          let '(tr3, of, s3, d3) := exec_block n' final s2 d2 in
          match of with
          | ONormal => (tr1 ++ tr2 ++ tr3, o2, s3, d3)
          | OFuel => (tr1 ++ tr2 ++ tr3, OFuel, s3, d3)
          | _ => (tr1 ++ tr2 ++ tr3, OStuck, s3, d3)       (* a jump out of finally: outside the semantics *)
          end
        end
    | SRaise l => (rtrace l, ORaise, s, d)
    end
  end
with exec_block (n : nat) (b : block) (s : store) (d : decisions) {struct n} : res :=
  match n with
  | 0 => ([], OFuel, s, d)
  | S n' =>
    match b with
    | BNil => ([], ONormal, s, d)
    | BCons st r =>
        let '(tr, o, s1, d1) := exec_stmt n' st s d in
        match o with
        | ONormal => let '(tr2, o2, s2, d2) := exec_block n' r s1 d1 in (tr ++ tr2, o2, s2, d2)
        | _ => (tr, o, s1, d1)
        end
    end
  end.

(* the same semantics as a relation (no fuel): what the theorems are stated on *)
Inductive run_stmt : stmt -> store -> decisions -> list label -> outcome -> store -> decisions -> Prop :=
| RAtom l s d : run_stmt (SAtom l) s d [l] (if fst (atom_res l d) then ORaise else ONormal) s (snd (atom_res l d))
| RSet f v s d : run_stmt (SSet f v) s d [] ONormal (upd s f v) d
| RBreak s d : run_stmt SBreak s d [] OBrk s d
| RContinue s d : run_stmt SContinue s d [] OCont s d
| RReturn l s d : run_stmt (SReturn l) s d [l] (if fst (atom_res l d) then ORaise else ORet) s (snd (atom_res l d))
| RIf c b1 b2 s d v tc d1 tr o s' d' :
    ceval c s d = (v, tc, d1) -> run_block (if v then b1 else b2) s d1 tr o s' d' ->
    run_stmt (SIf c b1 b2) s d (tc ++ tr) o s' d'
| RWhileEnd c body orelse s d tc d1 tr o s' d' :
    ceval c s d = (false, tc, d1) -> run_block orelse s d1 tr o s' d' ->
    run_stmt (SWhile c body orelse) s d (tc ++ tr) o s' d'
| RWhileIter c body orelse s d tc d1 tr o s1 d2 tr2 o2 s2 d3 :
    ceval c s d = (true, tc, d1) -> run_block body s d1 tr o s1 d2 -> (o = ONormal \/ o = OCont) ->
    run_stmt (SWhile c body orelse) s1 d2 tr2 o2 s2 d3 ->
    run_stmt (SWhile c body orelse) s d (tc ++ tr ++ tr2) o2 s2 d3
| RWhileBrk c body orelse s d tc d1 tr s1 d2 :
    ceval c s d = (true, tc, d1) -> run_block body s d1 tr OBrk s1 d2 ->
    run_stmt (SWhile c body orelse) s d (tc ++ tr) ONormal s1 d2
| RWhileOut c body orelse s d tc d1 tr o s1 d2 :
    ceval c s d = (true, tc, d1) -> run_block body s d1 tr o s1 d2 -> (o = ORet \/ o = ORaise) ->
    run_stmt (SWhile c body orelse) s d (tc ++ tr) o s1 d2
| RWith l body s d tr o s' d' :
    run_block body s d tr o s' d' -> run_stmt (SWith l body) s d (l :: tr) o s' d'
| RTryN body hs orelse final s d tr1 s1 d1 tr2 o2 s2 d2 tr3 s3 d3 :
    run_block body s d tr1 ONormal s1 d1 -> run_block orelse s1 d1 tr2 o2 s2 d2 ->
    run_block final s2 d2 tr3 ONormal s3 d3 ->
    run_stmt (STry body hs orelse final) s d (tr1 ++ tr2 ++ tr3) o2 s3 d3
| RTryJ body hs orelse final s d tr1 ob s1 d1 tr3 s3 d3 :
    run_block body s d tr1 ob s1 d1 -> ob <> ONormal -> ob <> ORaise ->
    run_block final s1 d1 tr3 ONormal s3 d3 ->
    run_stmt (STry body hs orelse final) s d (tr1 ++ tr3) ob s3 d3
| RTryU body hs orelse final s d tr1 s1 d1 d1' tr3 s3 d3 :        (* no handler matches *)
    run_block body s d tr1 ORaise s1 d1 -> dispatch hs d1 = (None, d1') ->
    run_block final s1 d1' tr3 ONormal s3 d3 ->
    run_stmt (STry body hs orelse final) s d (tr1 ++ tr3) ORaise s3 d3
| RTryH body hs orelse final s d tr1 s1 d1 d1' h tr2 oh s2 d2 tr3 s3 d3 :   (* handler h runs *)
    run_block body s d tr1 ORaise s1 d1 -> dispatch hs d1 = (Some h, d1') ->
    run_block h s1 d1' tr2 oh s2 d2 ->
    run_block final s2 d2 tr3 ONormal s3 d3 ->
    run_stmt (STry body hs orelse final) s d (tr1 ++ tr2 ++ tr3) oh s3 d3
| RRaise l s d : run_stmt (SRaise l) s d (rtrace l) ORaise s d
with run_block : block -> store -> decisions -> list label -> outcome -> store -> decisions -> Prop :=
| RNil s d : run_block BNil s d [] ONormal s d
| RConsN st r s d tr s1 d1 tr2 o2 s2 d2 :
    run_stmt st s d tr ONormal s1 d1 -> run_block r s1 d1 tr2 o2 s2 d2 ->
    run_block (BCons st r) s d (tr ++ tr2) o2 s2 d2
| RConsJ st r s d tr o s1 d1 :
    run_stmt st s d tr o s1 d1 -> o <> ONormal -> run_block (BCons st r) s d tr o s1 d1.

Scheme run_stmt_ind2 := Minimality for run_stmt Sort Prop
  with run_block_ind2 := Minimality for run_block Sort Prop.
Combined Scheme run_mutind from run_stmt_ind2, run_block_ind2.
