(* C01: the fuelled interpreter is sound for the relational semantics; basic facts. *)
From Coq Require Import List Arith Bool Lia.
Import ListNotations.
Require Import MV.Lower.Lang.

Definition done (o : outcome) : Prop := o <> OFuel /\ o <> OStuck.

Lemma exec_sound n :
  (forall st s d tr o s' d', exec_stmt n st s d = (tr, o, s', d') -> done o -> run_stmt st s d tr o s' d') /\
  (forall b s d tr o s' d', exec_block n b s d = (tr, o, s', d') -> done o -> run_block b s d tr o s' d').
Proof.
  induction n as [|n [IHs IHb]]; split; intros x s d tr o s' d' H [Ho Hs]; simpl in H;
    try (injection H as _ <- _ _; congruence).
  - destruct x as [l|f v|c b1 b2|c body orelse| | |l|tb th te tf|wl wb|rl].
    + injection H as <- <- <- <-; constructor.
    + injection H as <- <- <- <-; constructor.
    + destruct (ceval c s d) as [[v tc] d1] eqn:Ec.
      destruct (exec_block n (if v then b1 else b2) s d1) as [[[trb ob] sb] db] eqn:Eb.
      injection H as <- <- <- <-. eapply RIf; [exact Ec | apply IHb; [assumption | split; assumption]].
    + destruct (ceval c s d) as [[v tc] d1] eqn:Ec. destruct v.
      * destruct (exec_block n body s d1) as [[[trb ob] s1] d2] eqn:Eb.
        assert (Nb : done ob) by (split; intros ->; injection H as _ <- _ _; congruence).
        pose proof (IHb _ _ _ _ _ _ _ Eb Nb) as Rb.
        destruct ob.
        -- destruct (exec_stmt n (SWhile c body orelse) s1 d2) as [[[tr2 o2] s2] d3] eqn:E2.
           injection H as <- <- <- <-. eapply RWhileIter; eauto. apply IHs; [exact E2 | split; assumption].
        -- injection H as <- <- <- <-. eapply RWhileBrk; eauto.
        -- destruct (exec_stmt n (SWhile c body orelse) s1 d2) as [[[tr2 o2] s2] d3] eqn:E2.
           injection H as <- <- <- <-. eapply RWhileIter; eauto. apply IHs; [exact E2 | split; assumption].
        -- injection H as <- <- <- <-. eapply RWhileOut; eauto.
        -- injection H as <- <- <- <-. eapply RWhileOut; eauto.
        -- destruct Nb; congruence.
        -- destruct Nb; congruence.
      * destruct (exec_block n orelse s d1) as [[[tro oo] so] do] eqn:Eo.
        injection H as <- <- <- <-. eapply RWhileEnd; eauto. apply IHb; [exact Eo | split; assumption].
    + injection H as <- <- <- <-; constructor.
    + injection H as <- <- <- <-; constructor.
    + injection H as <- <- <- <-; constructor.
    + (* STry *)
      destruct (exec_block n tb s d) as [[[tr1 ob] s1] d1] eqn:E1.
      assert (Dn : forall (tr3 : list label) of (s3 : store) (d3 : decisions) x (y : list label) (z : store) (w : decisions),
                 match of with
                 | ONormal => (tr3, x, s3, d3)
                 | OFuel => (tr3, OFuel, s3, d3)
                 | _ => (tr3, OStuck, s3, d3)
                 end = (y, o, z, w) -> of = ONormal).
      { intros tr3 of s3 d3 x y z w E. destruct of; try reflexivity; injection E as _ <- _ _; congruence. }
      destruct ob.
      * (* normal *)
        destruct (exec_block n te s1 d1) as [[[tr2 o2] s2] d2] eqn:E2.
        assert (N2 : done o2) by (split; intros ->; injection H as _ <- _ _; congruence).
        assert (H' : (let '(tr3, of, s3, d3) := exec_block n tf s2 d2 in
                      match of with
                      | ONormal => (tr1 ++ tr2 ++ tr3, o2, s3, d3)
                      | OFuel => (tr1 ++ tr2 ++ tr3, OFuel, s3, d3)
                      | _ => (tr1 ++ tr2 ++ tr3, OStuck, s3, d3)
                      end) = (tr, o, s', d')) by (destruct N2; destruct o2; try exact H; congruence).
        clear H. destruct (exec_block n tf s2 d2) as [[[tr3 of] s3] d3] eqn:E3.
        pose proof (Dn _ _ _ _ _ _ _ _ H') as ->. injection H' as <- <- <- <-.
        eapply RTryN; [apply IHb; [exact E1 | split; discriminate] | apply IHb; [exact E2 | exact N2]
                      | apply IHb; [exact E3 | split; discriminate]].
      * (* break *)
        destruct (exec_block n tf s1 d1) as [[[tr3 of] s3] d3] eqn:E3.
        pose proof (Dn _ _ _ _ _ _ _ _ H) as ->. injection H as <- <- <- <-.
        eapply RTryJ; [apply IHb; [exact E1 | split; discriminate] | discriminate | discriminate
                      | apply IHb; [exact E3 | split; discriminate]].
      * destruct (exec_block n tf s1 d1) as [[[tr3 of] s3] d3] eqn:E3.
        pose proof (Dn _ _ _ _ _ _ _ _ H) as ->. injection H as <- <- <- <-.
        eapply RTryJ; [apply IHb; [exact E1 | split; discriminate] | discriminate | discriminate
                      | apply IHb; [exact E3 | split; discriminate]].
      * destruct (exec_block n tf s1 d1) as [[[tr3 of] s3] d3] eqn:E3.
        pose proof (Dn _ _ _ _ _ _ _ _ H) as ->. injection H as <- <- <- <-.
        eapply RTryJ; [apply IHb; [exact E1 | split; discriminate] | discriminate | discriminate
                      | apply IHb; [exact E3 | split; discriminate]].
      * (* raise *)
        destruct (dispatch th d1) as [[h|] d1'] eqn:Eh.
        -- destruct (exec_block n h s1 d1') as [[[tr2 o2] s2] d2] eqn:E2.
           assert (N2 : done o2) by (split; intros ->; injection H as _ <- _ _; congruence).
           assert (H' : (let '(tr3, of, s3, d3) := exec_block n tf s2 d2 in
                      match of with
                      | ONormal => (tr1 ++ tr2 ++ tr3, o2, s3, d3)
                      | OFuel => (tr1 ++ tr2 ++ tr3, OFuel, s3, d3)
                      | _ => (tr1 ++ tr2 ++ tr3, OStuck, s3, d3)
                      end) = (tr, o, s', d')) by (destruct N2; destruct o2; try exact H; congruence).
           clear H. destruct (exec_block n tf s2 d2) as [[[tr3 of] s3] d3] eqn:E3.
           pose proof (Dn _ _ _ _ _ _ _ _ H') as ->. injection H' as <- <- <- <-.
           eapply RTryH; [apply IHb; [exact E1 | split; discriminate] | exact Eh | apply IHb; [exact E2 | exact N2]
                         | apply IHb; [exact E3 | split; discriminate]].
        -- destruct (exec_block n tf s1 d1') as [[[tr3 of] s3] d3] eqn:E3.
           pose proof (Dn _ _ _ _ _ _ _ _ H) as ->. injection H as <- <- <- <-.
           eapply RTryU; [apply IHb; [exact E1 | split; discriminate] | exact Eh
                         | apply IHb; [exact E3 | split; discriminate]].
      * injection H as _ <- _ _; congruence.
      * injection H as _ <- _ _; congruence.
    + (* SWith *)
      destruct (exec_block n wb s d) as [[[trb ob] sb] db] eqn:Eb. injection H as <- <- <- <-.
      apply RWith. apply IHb; [exact Eb | split; assumption].
    + injection H as <- <- <- <-; constructor.
  - destruct x as [|st r].
    + injection H as <- <- <- <-; constructor.
    + destruct (exec_stmt n st s d) as [[[tr1 o1] s1] d1] eqn:E1.
      assert (D : o1 = ONormal \/ o1 <> ONormal) by (destruct o1; auto; right; discriminate).
      destruct D as [-> | N1].
      * destruct (exec_block n r s1 d1) as [[[tr2 o2] s2] d2] eqn:E2. injection H as <- <- <- <-.
        eapply RConsN; [apply IHs; [exact E1 | split; discriminate] | apply IHb; [assumption | split; assumption]].
      * assert (H' : (tr1, o1, s1, d1) = (tr, o, s', d')) by (destruct o1; try exact H; congruence).
        injection H' as <- <- <- <-. apply RConsJ; [apply IHs; [assumption | split; assumption] | exact N1].
Qed.

(* running blocks in sequence *)
Lemma run_bapp a b s d tr1 s1 d1 tr2 o2 s2 d2 :
  run_block a s d tr1 ONormal s1 d1 -> run_block b s1 d1 tr2 o2 s2 d2 ->
  run_block (bapp a b) s d (tr1 ++ tr2) o2 s2 d2.
Proof.
  revert s d tr1 s1 d1. induction a as [|st r IH]; intros s d tr1 s1 d1 Ha Hb; simpl.
  - inversion Ha; subst. exact Hb.
  - inversion Ha; subst.
    + rewrite <- app_assoc. eapply RConsN; [eassumption | eapply IH; eassumption].
    + congruence.
Qed.

Lemma run_bapp_jump a b s d tr o s1 d1 :
  run_block a s d tr o s1 d1 -> o <> ONormal -> run_block (bapp a b) s d tr o s1 d1.
Proof.
  revert s d tr. induction a as [|st r IH]; intros s d tr Ha No; simpl.
  - inversion Ha; subst; congruence.
  - inversion Ha; subst.
    + eapply RConsN; [eassumption | eapply IH; eassumption].
    + apply RConsJ; assumption.
Qed.

Lemma run_one st s d tr o s' d' : run_stmt st s d tr o s' d' -> run_block (BCons st BNil) s d tr o s' d'.
Proof.
  intros H. destruct o; try (apply RConsJ; [exact H | discriminate]).
  rewrite <- (app_nil_r tr). eapply RConsN; [exact H | constructor].
Qed.
