(* C01: the side conditions of the composition theorem (Compose.lowering_hyps) follow from a condition on the
   SOURCE program alone: no flags, loops without else clause (the pipeline rejects loop-else), finally
   clauses without break / continue / return.  Every intermediate program then lies in the fragment the
   next pass is proved correct on. *)
From Coq Require Import List Arith Bool Lia.
Import ListNotations.
Require Import MV.Lower.Lang MV.Lower.LangProofs MV.Lower.Passes MV.Lower.BreakProofs MV.Lower.ContinueProofs
               MV.Lower.ReturnProofs MV.Lower.Compose.

Fixpoint src_stmt (st : stmt) : bool :=
  match st with
  | SSet _ _ => false
  | SIf c b1 b2 => plain_cond c && src_block b1 && src_block b2
  | SWhile c b1 b2 => plain_cond c && src_block b1 && is_nil b2
  | STry b1 hs b2 b3 => src_block b1 && src_blocks hs && src_block b2 && src_block b3 && jfree_block b3
  | SWith _ b1 => src_block b1
  | _ => true
  end
with src_block (b : block) : bool :=
  match b with BNil => true | BCons st r => src_stmt st && src_block r end
with src_blocks (h : blocks) : bool :=
  match h with HNil => true | HCons _ b r => src_block b && src_blocks r end.

(* intermediate programs: flags drawn from P, loops without else, finally clauses without jumps *)
Fixpoint wf_cond (P : flag -> bool) (c : cond) : bool :=
  match c with CUser _ => true | CNot f => P f | CAndNot f c' => P f && wf_cond P c' end.
Fixpoint wf_stmt (P : flag -> bool) (st : stmt) : bool :=
  match st with
  | SSet f _ => P f
  | SIf c b1 b2 => wf_cond P c && wf_block P b1 && wf_block P b2
  | SWhile c b1 b2 => wf_cond P c && wf_block P b1 && is_nil b2
  | STry b1 hs b2 b3 => wf_block P b1 && wf_blocks P hs && wf_block P b2 && wf_block P b3 && jfree_block b3
  | SWith _ b1 => wf_block P b1
  | _ => true
  end
with wf_block (P : flag -> bool) (b : block) : bool :=
  match b with BNil => true | BCons st r => wf_stmt P st && wf_block P r end
with wf_blocks (P : flag -> bool) (h : blocks) : bool :=
  match h with HNil => true | HCons _ b r => wf_block P b && wf_blocks P r end.

Lemma wf_bapp P a b : wf_block P a = true -> wf_block P b = true -> wf_block P (bapp a b) = true.
Proof.
  induction a as [|st r IH]; simpl; intros Ha Hb; [exact Hb|].
  apply andb_true_iff in Ha; destruct Ha as [H1 H2]. rewrite H1. simpl. apply IH; assumption.
Qed.

Lemma jfree_bapp a b : jfree_block a = true -> jfree_block b = true -> jfree_block (bapp a b) = true.
Proof.
  induction a as [|st r IH]; simpl; intros Ha Hb; [exact Hb|].
  apply andb_true_iff in Ha; destruct Ha as [H1 H2]. rewrite H1. simpl. apply IH; assumption.
Qed.

Ltac split_and H :=
  repeat match type of H with
         | (_ && _) = true => let H1 := fresh "H" in let H2 := fresh "H" in
                              apply andb_true_iff in H; destruct H as [H1 H2]; try split_and H1; try split_and H2
         end.

(* ---- the fragments the pass theorems are stated on ------------------------------------------ *)
Lemma plain_cond_id c : plain_cond c = true -> plain_cond c = true.
Proof. exact (fun H => H). Qed.

Lemma src_plain :
  (forall st, src_stmt st = true -> plain_stmt st = true) /\ (forall b, src_block b = true -> plain_block b = true)
  /\ (forall h, src_blocks h = true -> plain_blocks h = true).
Proof.
  apply stmt_block_ind3.
  - intros l _; reflexivity.
  - intros f v H; discriminate.
  - intros c b1 IH1 b2 IH2 H; simpl in H |- *. apply andb_true_iff in H; destruct H as [H C]. apply andb_true_iff in H; destruct H as [A B].
    rewrite (plain_cond_id _ A), (IH1 B), (IH2 C). reflexivity.
  - intros c b1 IH1 b2 IH2 H; simpl in H |- *. apply andb_true_iff in H; destruct H as [H C]. apply andb_true_iff in H; destruct H as [A B].
    rewrite (plain_cond_id _ A), (IH1 B). destruct b2; [reflexivity | discriminate].
  - intros _; reflexivity.
  - intros _; reflexivity.
  - intros l _; reflexivity.
  - intros b1 IH1 hs IH2 b2 IH3 b3 IH4 H; simpl in H |- *.
    apply andb_true_iff in H; destruct H as [H J]. apply andb_true_iff in H; destruct H as [H D].
    apply andb_true_iff in H; destruct H as [H C]. apply andb_true_iff in H; destruct H as [A B].
    rewrite (IH1 A), (IH2 B), (IH3 C), (IH4 D). reflexivity.
  - intros l b1 IH1 H; simpl in H |- *. exact (IH1 H).
  - intros l _; reflexivity.
  - intros _; reflexivity.
  - intros st IH1 r IH2 H; simpl in H |- *. apply andb_true_iff in H; destruct H as [A B]. rewrite (IH1 A), (IH2 B). reflexivity.
  - intros _; reflexivity.
  - intros a b IH1 r IH2 H; simpl in H |- *. apply andb_true_iff in H; destruct H as [A B]. rewrite (IH1 A), (IH2 B). reflexivity.
Qed.

Lemma wf_clean P : (forall f, P f = true -> ckind f = false) ->
  (forall st, wf_stmt P st = true -> clean_stmt st = true) /\ (forall b, wf_block P b = true -> clean_block b = true)
  /\ (forall h, wf_blocks P h = true -> clean_blocks h = true).
Proof.
  intros HP.
  assert (HC : forall c, wf_cond P c = true -> clean_cond c = true).
  { induction c as [l|f|f c IH]; simpl; intros H; [reflexivity | rewrite (HP f H); reflexivity|].
    apply andb_true_iff in H; destruct H as [A B]. rewrite (HP f A), (IH B). reflexivity. }
  apply stmt_block_ind3.
  - intros l _; reflexivity.
  - intros f v H; simpl in H |- *. rewrite (HP f H). reflexivity.
  - intros c b1 IH1 b2 IH2 H; simpl in H |- *. apply andb_true_iff in H; destruct H as [H C]. apply andb_true_iff in H; destruct H as [A B].
    rewrite (HC _ A), (IH1 B), (IH2 C). reflexivity.
  - intros c b1 IH1 b2 IH2 H; simpl in H |- *. apply andb_true_iff in H; destruct H as [H C]. apply andb_true_iff in H; destruct H as [A B].
    rewrite (HC _ A), (IH1 B). destruct b2; [reflexivity | discriminate].
  - intros _; reflexivity.
  - intros _; reflexivity.
  - intros l _; reflexivity.
  - intros b1 IH1 hs IH2 b2 IH3 b3 IH4 H; simpl in H |- *.
    apply andb_true_iff in H; destruct H as [H J]. apply andb_true_iff in H; destruct H as [H D].
    apply andb_true_iff in H; destruct H as [H C]. apply andb_true_iff in H; destruct H as [A B].
    rewrite (IH1 A), (IH2 B), (IH3 C), (IH4 D), J. reflexivity.
  - intros l b1 IH1 H; simpl in H |- *. exact (IH1 H).
  - intros l _; reflexivity.
  - intros _; reflexivity.
  - intros st IH1 r IH2 H; simpl in H |- *. apply andb_true_iff in H; destruct H as [A B]. rewrite (IH1 A), (IH2 B). reflexivity.
  - intros _; reflexivity.
  - intros a b IH1 r IH2 H; simpl in H |- *. apply andb_true_iff in H; destruct H as [A B]. rewrite (IH1 A), (IH2 B). reflexivity.
Qed.

Lemma wf_rclean P : (forall f, P f = true -> Nat.eqb f rflag = false) ->
  (forall st, wf_stmt P st = true -> rclean_stmt st = true) /\ (forall b, wf_block P b = true -> rclean_block b = true)
  /\ (forall h, wf_blocks P h = true -> rclean_blocks h = true).
Proof.
  intros HP.
  assert (HC : forall c, wf_cond P c = true -> rclean_cond c = true).
  { induction c as [l|f|f c IH]; simpl; intros H; [reflexivity | rewrite (HP f H); reflexivity|].
    apply andb_true_iff in H; destruct H as [A B]. rewrite (HP f A), (IH B). reflexivity. }
  apply stmt_block_ind3.
  - intros l _; reflexivity.
  - intros f v H; simpl in H |- *. rewrite (HP f H). reflexivity.
  - intros c b1 IH1 b2 IH2 H; simpl in H |- *. apply andb_true_iff in H; destruct H as [H C]. apply andb_true_iff in H; destruct H as [A B].
    rewrite (HC _ A), (IH1 B), (IH2 C). reflexivity.
  - intros c b1 IH1 b2 IH2 H; simpl in H |- *. apply andb_true_iff in H; destruct H as [H C]. apply andb_true_iff in H; destruct H as [A B].
    rewrite (HC _ A), (IH1 B). rewrite C. reflexivity.
  - intros _; reflexivity.
  - intros _; reflexivity.
  - intros l _; reflexivity.
  - intros b1 IH1 hs IH2 b2 IH3 b3 IH4 H; simpl in H |- *.
    apply andb_true_iff in H; destruct H as [H J]. apply andb_true_iff in H; destruct H as [H D].
    apply andb_true_iff in H; destruct H as [H C]. apply andb_true_iff in H; destruct H as [A B].
    rewrite (IH1 A), (IH2 B), (IH3 C), (IH4 D), J. reflexivity.
  - intros l b1 IH1 H; simpl in H |- *. exact (IH1 H).
  - intros l _; reflexivity.
  - intros _; reflexivity.
  - intros st IH1 r IH2 H; simpl in H |- *. apply andb_true_iff in H; destruct H as [A B]. rewrite (IH1 A), (IH2 B). reflexivity.
  - intros _; reflexivity.
  - intros a b IH1 r IH2 H; simpl in H |- *. apply andb_true_iff in H; destruct H as [A B]. rewrite (IH1 A), (IH2 B). reflexivity.
Qed.

(* ---- flags of the passes ------------------------------------------------------------------------ *)
Definition P1 (f : flag) : bool := negb (ckind f) && negb (Nat.eqb f rflag).   (* after the break pass *)
Definition P2 (f : flag) : bool := negb (Nat.eqb f rflag).                     (* after the continue pass *)

Lemma P1_bflag k : P1 (bflag k) = true.
Proof.
  unfold P1, ckind, bflag, rflag. rewrite Nat.mul_comm, Nat.mod_mul by lia. simpl.
  destruct (Nat.eqb (k * 3) 2) eqn:E; [apply Nat.eqb_eq in E; lia | reflexivity].
Qed.
Lemma P1_5 : P1 5 = true.  Proof. reflexivity. Qed.
Lemma P2_cflag k : P2 (cflag k) = true.
Proof. unfold P2, cflag, rflag. destruct (Nat.eqb (3 * k + 1) 2) eqn:E; [apply Nat.eqb_eq in E; lia | reflexivity]. Qed.
Lemma P1_P2 f : P1 f = true -> P2 f = true.
Proof. unfold P1, P2. intros H. apply andb_true_iff in H. apply H. Qed.

Lemma wf_cond_mono (P Q : flag -> bool) : (forall f, P f = true -> Q f = true) -> forall c, wf_cond P c = true -> wf_cond Q c = true.
Proof.
  intros M. induction c as [l|f|f c IH]; simpl; intros H; [reflexivity | apply M, H|].
  apply andb_true_iff in H; destruct H as [A B]. rewrite (M f A), (IH B). reflexivity.
Qed.

Lemma plain_wf_cond P c : plain_cond c = true -> wf_cond P c = true.
Proof. destruct c; simpl; intros H; try discriminate; reflexivity. Qed.

(* ---- jump-free blocks stay jump-free ------------------------------------------------------------- *)
Lemma brk_jfree :
  (forall st, jfree_stmt st = true -> forall f k, jfree_block (fst (fst (brk_stmt f k st))) = true) /\
  (forall b, jfree_block b = true -> forall f k, jfree_block (fst (fst (brk_block f k b))) = true) /\
  (forall h, jfree_blocks h = true -> forall f k, jfree_blocks (fst (fst (brk_blocks f k h))) = true).
Proof.
  apply stmt_block_ind3.
  - intros l _ f k; reflexivity.
  - intros f0 v _ f k; reflexivity.
  - intros c b1 IH1 b2 IH2 H f k; simpl in H |- *. apply andb_true_iff in H; destruct H as [A B].
    pose proof (IH1 A f k) as X1. destruct (brk_block f k b1) as [[b1' k1] u1].
    pose proof (IH2 B f k1) as X2. destruct (brk_block f k1 b2) as [[b2' k2] u2]. simpl in *. rewrite X1, X2. reflexivity.
  - intros c b1 IH1 b2 IH2 H f k; simpl in H |- *. apply andb_true_iff in H; destruct H as [A B].
    pose proof (IH1 A (bflag k) (S k)) as X1. destruct (brk_block (bflag k) (S k) b1) as [[b1' k1] u1].
    pose proof (IH2 B f k1) as X2. destruct (brk_block f k1 b2) as [[b2' k2] u2]. simpl in *.
    destruct u1; simpl; rewrite X1; simpl; [|rewrite X2; reflexivity].
    unfold guard_if_present. destruct (is_nil b2'); simpl; [reflexivity | rewrite X2; reflexivity].
  - intros H; discriminate.
  - intros H; discriminate.
  - intros l H; discriminate.
  - intros b1 IH1 hs IH2 b2 IH3 b3 IH4 H f k; simpl in H |- *.
    apply andb_true_iff in H; destruct H as [H D]. apply andb_true_iff in H; destruct H as [H C]. apply andb_true_iff in H; destruct H as [A B].
    pose proof (IH1 A f k) as X1. destruct (brk_block f k b1) as [[b1' k1] u1].
    pose proof (IH2 B f k1) as X2. destruct (brk_blocks f k1 hs) as [[hs' k2] u2].
    pose proof (IH3 C f k2) as X3. destruct (brk_block f k2 b2) as [[b2' k3] u3].
    pose proof (IH4 D f k3) as X4. destruct (brk_block f k3 b3) as [[b3' k4] u4]. simpl in *. rewrite X1, X2, X3, X4. reflexivity.
  - intros l b1 IH1 H f k; simpl in H |- *. pose proof (IH1 H f k) as X1. destruct (brk_block f k b1) as [[b1' k1] u1]. simpl in *. rewrite X1. reflexivity.
  - intros l _ f k; reflexivity.
  - intros _ f k; reflexivity.
  - intros st IH1 r IH2 H f k; simpl in H |- *. apply andb_true_iff in H; destruct H as [A B].
    pose proof (IH1 A f k) as X1. destruct (brk_stmt f k st) as [[st' k1] u1].
    pose proof (IH2 B f k1) as X2. destruct (brk_block f k1 r) as [[r' k2] u2]. simpl in *. apply jfree_bapp; assumption.
  - intros _ f k; reflexivity.
  - intros a b IH1 r IH2 H f k; simpl in H |- *. apply andb_true_iff in H; destruct H as [A B].
    pose proof (IH1 A f k) as X1. destruct (brk_block f k b) as [[b' k1] u1].
    pose proof (IH2 B f k1) as X2. destruct (brk_blocks f k1 r) as [[r' k2] u2]. simpl in *. rewrite X1, X2. reflexivity.
Qed.

Lemma cont_jfree :
  (forall st, jfree_stmt st = true -> forall c k u, jfree_block (fst (fst (cont_stmt c k u st))) = true) /\
  (forall b, jfree_block b = true -> forall c k u cur, jfree_block (fst (fst (cont_block c k u cur b))) = true) /\
  (forall h, jfree_blocks h = true -> forall c k u, jfree_blocks (fst (fst (cont_blocks c k u h))) = true).
Proof.
  apply stmt_block_ind3.
  - intros l _ c k u; reflexivity.
  - intros f0 v _ c k u; reflexivity.
  - intros t b1 IH1 b2 IH2 H c k u; simpl in H |- *. apply andb_true_iff in H; destruct H as [A B].
    pose proof (IH1 A c k u false) as X1. destruct (cont_block c k u false b1) as [[b1' k1] u1].
    pose proof (IH2 B c k1 (u || u1) false) as X2. destruct (cont_block c k1 (u || u1) false b2) as [[b2' k2] u2]. simpl in *. rewrite X1, X2. reflexivity.
  - intros t b1 IH1 b2 IH2 H c k u; simpl in H |- *. apply andb_true_iff in H; destruct H as [A B].
    pose proof (IH1 A (cflag k) (S k) false false) as X1. destruct (cont_block (cflag k) (S k) false false b1) as [[b1' k1] u1].
    pose proof (IH2 B c k1 u false) as X2. destruct (cont_block c k1 u false b2) as [[b2' k2] u2]. simpl in *.
    destruct u1; simpl; rewrite X1, X2; reflexivity.
  - intros H; discriminate.
  - intros H; discriminate.
  - intros l H; discriminate.
  - intros b1 IH1 hs IH2 b2 IH3 b3 IH4 H c k u; simpl in H |- *.
    apply andb_true_iff in H; destruct H as [H D]. apply andb_true_iff in H; destruct H as [H C]. apply andb_true_iff in H; destruct H as [A B].
    pose proof (IH1 A c k u false) as X1. destruct (cont_block c k u false b1) as [[b1' k1] h1].
    pose proof (IH3 C c k1 (u || h1) false) as X3. destruct (cont_block c k1 (u || h1) false b2) as [[b2' k2] h2].
    pose proof (IH4 D c k2 (u || h1 || h2) false) as X4. destruct (cont_block c k2 (u || h1 || h2) false b3) as [[b3' k3] h3].
    pose proof (IH2 B c k3 (u || h1 || h2 || h3)) as X2. destruct (cont_blocks c k3 (u || h1 || h2 || h3) hs) as [[hs' k4] h4]. simpl in *.
    rewrite X1, X2, X4. simpl. destruct (negb (is_nil b2') && h1); simpl; rewrite X3; reflexivity.
  - intros l b1 IH1 H c k u; simpl in H |- *. pose proof (IH1 H c k u false) as X1. destruct (cont_block c k u false b1) as [[b1' k1] u1]. simpl in *. rewrite X1. reflexivity.
  - intros l _ c k u; reflexivity.
  - intros _ c k u cur; reflexivity.
  - intros st IH1 r IH2 H c k u cur; simpl in H |- *. apply andb_true_iff in H; destruct H as [A B].
    pose proof (IH1 A c k u) as X1. destruct (cont_stmt c k u st) as [[st' k1] h1].
    pose proof (IH2 B c k1 (u || h1) h1) as X2. destruct (cont_block c k1 (u || h1) h1 r) as [[r' k2] h2]. simpl in *.
    assert (J : jfree_block (bapp st' r') = true) by (apply jfree_bapp; assumption).
    destruct cur; simpl; rewrite J; reflexivity.
  - intros _ c k u; reflexivity.
  - intros a b IH1 r IH2 H c k u; simpl in H |- *. apply andb_true_iff in H; destruct H as [A B].
    pose proof (IH1 A c k u false) as X1. destruct (cont_block c k u false b) as [[b' k1] u1].
    pose proof (IH2 B c k1 (u || u1)) as X2. destruct (cont_blocks c k1 (u || u1) r) as [[r' k2] u2]. simpl in *. rewrite X1, X2. reflexivity.
Qed.

Lemma place_none st r : place st RNone r = BCons st r.
Proof. reflexivity. Qed.

Lemma crr_jfree :
  (forall st, jfree_stmt st = true ->
     jfree_stmt (fst (fst (crr_stmt st))) = true /\ snd (fst (crr_stmt st)) = false /\ snd (crr_stmt st) = RNone) /\
  (forall b, jfree_block b = true -> jfree_block (fst (crr_block b)) = true /\ snd (crr_block b) = false) /\
  (forall h, jfree_blocks h = true -> jfree_blocks (crr_blocks h) = true).
Proof.
  apply stmt_block_ind3.
  - intros l _; repeat split.
  - intros f0 v _; repeat split.
  - intros c b1 IH1 b2 IH2 H; simpl in H |- *. apply andb_true_iff in H; destruct H as [A B].
    destruct (IH1 A) as [X1 Y1]. destruct (IH2 B) as [X2 Y2].
    destruct (crr_block b1) as [b1' d1]. destruct (crr_block b2) as [b2' d2]. simpl in *. subst d1 d2. simpl.
    rewrite X1, X2. repeat split.
  - intros c b1 IH1 b2 IH2 H; simpl in H |- *. apply andb_true_iff in H; destruct H as [A B].
    destruct (IH1 A) as [X1 Y1]. destruct (IH2 B) as [X2 Y2].
    destruct (crr_block b1) as [b1' d1]. destruct (crr_block b2) as [b2' d2]. simpl in *. rewrite X1, X2. repeat split.
  - intros H; discriminate.
  - intros H; discriminate.
  - intros l H; discriminate.
  - intros b1 IH1 hs IH2 b2 IH3 b3 IH4 H; simpl in H |- *.
    apply andb_true_iff in H; destruct H as [H D]. apply andb_true_iff in H; destruct H as [H C]. apply andb_true_iff in H; destruct H as [A B].
    destruct (IH1 A) as [X1 _]. pose proof (IH2 B) as X2. destruct (IH3 C) as [X3 _]. destruct (IH4 D) as [X4 _].
    destruct (crr_block b1) as [b1' d1]. destruct (crr_block b2) as [b2' d2]. destruct (crr_block b3) as [b3' d3]. simpl in *.
    rewrite X1, X2, X3, X4. repeat split.
  - intros l b1 IH1 H; simpl in H |- *. destruct (IH1 H) as [X1 Y1]. destruct (crr_block b1) as [b1' d1]. simpl in *. subst d1. rewrite X1. repeat split.
  - intros l _; repeat split.
  - intros _; split; reflexivity.
  - intros st IH1 r IH2 H. simpl in H. apply andb_true_iff in H; destruct H as [A B].
    destruct (IH1 A) as [X1 [Y1 Z1]]. destruct (IH2 B) as [X2 Y2].
    rewrite crr_block_cons. simpl. rewrite Z1, place_none, Y1, Y2. simpl. rewrite X1, X2. split; reflexivity.
  - intros _; reflexivity.
  - intros a b IH1 r IH2 H; simpl in H |- *. apply andb_true_iff in H; destruct H as [A B].
    destruct (IH1 A) as [X1 _]. rewrite X1, (IH2 B). reflexivity.
Qed.

(* ---- break pass: source programs -> wf P1 -------------------------------------------------------- *)
Lemma brk_wf :
  (forall st, src_stmt st = true -> forall f k, P1 f = true -> wf_block P1 (fst (fst (brk_stmt f k st))) = true) /\
  (forall b, src_block b = true -> forall f k, P1 f = true -> wf_block P1 (fst (fst (brk_block f k b))) = true) /\
  (forall h, src_blocks h = true -> forall f k, P1 f = true -> wf_blocks P1 (fst (fst (brk_blocks f k h))) = true).
Proof.
  apply stmt_block_ind3.
  - intros l _ f k Pf; reflexivity.
  - intros f0 v H; discriminate.
  - intros c b1 IH1 b2 IH2 H f k Pf; simpl in H |- *; unfold one. apply andb_true_iff in H; destruct H as [H B]. apply andb_true_iff in H; destruct H as [C A].
    pose proof (IH1 A f k Pf) as X1. destruct (brk_block f k b1) as [[b1' k1] u1].
    pose proof (IH2 B f k1 Pf) as X2. destruct (brk_block f k1 b2) as [[b2' k2] u2]. unfold one in *; simpl in *.
    rewrite (plain_wf_cond P1 c C), X1, X2. reflexivity.
  - intros c b1 IH1 b2 IH2 H f k Pf; simpl in H |- *; unfold one. apply andb_true_iff in H; destruct H as [H B]. apply andb_true_iff in H; destruct H as [C A].
    destruct b2; [|discriminate]. simpl; unfold one.
    pose proof (IH1 A (bflag k) (S k) (P1_bflag k)) as X1. destruct (brk_block (bflag k) (S k) b1) as [[b1' k1] u1]. unfold one in *; simpl in *.
    destruct u1; simpl; rewrite ?(P1_bflag k), (plain_wf_cond P1 c C), X1; reflexivity.
  - intros _ f k Pf; simpl; unfold one; simpl. rewrite Pf. reflexivity.
  - intros _ f k Pf; reflexivity.
  - intros l _ f k Pf; reflexivity.
  - intros b1 IH1 hs IH2 b2 IH3 b3 IH4 H f k Pf; simpl in H |- *; unfold one.
    apply andb_true_iff in H; destruct H as [H J]. apply andb_true_iff in H; destruct H as [H D].
    apply andb_true_iff in H; destruct H as [H C]. apply andb_true_iff in H; destruct H as [A B].
    pose proof (IH1 A f k Pf) as X1. destruct (brk_block f k b1) as [[b1' k1] u1].
    pose proof (IH2 B f k1 Pf) as X2. destruct (brk_blocks f k1 hs) as [[hs' k2] u2].
    pose proof (IH3 C f k2 Pf) as X3. destruct (brk_block f k2 b2) as [[b2' k3] u3].
    pose proof (IH4 D f k3 Pf) as X4. pose proof (proj1 (proj2 brk_jfree) b3 J f k3) as X5.
    destruct (brk_block f k3 b3) as [[b3' k4] u4]. unfold one in *; simpl in *. rewrite X1, X2, X3, X4, X5. reflexivity.
  - intros l b1 IH1 H f k Pf; simpl in H |- *; unfold one. pose proof (IH1 H f k Pf) as X1. destruct (brk_block f k b1) as [[b1' k1] u1]. unfold one in *; simpl in *. rewrite X1. reflexivity.
  - intros l _ f k Pf; reflexivity.
  - intros _ f k Pf; reflexivity.
  - intros st IH1 r IH2 H f k Pf; simpl in H |- *; unfold one. apply andb_true_iff in H; destruct H as [A B].
    pose proof (IH1 A f k Pf) as X1. destruct (brk_stmt f k st) as [[st' k1] u1].
    pose proof (IH2 B f k1 Pf) as X2. destruct (brk_block f k1 r) as [[r' k2] u2]. unfold one in *; simpl in *. apply wf_bapp; assumption.
  - intros _ f k Pf; reflexivity.
  - intros a b IH1 r IH2 H f k Pf; simpl in H |- *; unfold one. apply andb_true_iff in H; destruct H as [A B].
    pose proof (IH1 A f k Pf) as X1. destruct (brk_block f k b) as [[b' k1] u1].
    pose proof (IH2 B f k1 Pf) as X2. destruct (brk_blocks f k1 r) as [[r' k2] u2]. unfold one in *; simpl in *. rewrite X1, X2. reflexivity.
Qed.

(* ---- continue pass: wf P1 -> wf P2 ------------------------------------------------------------------ *)
Lemma cont_wf :
  (forall st, wf_stmt P1 st = true -> forall c k u, P2 c = true -> wf_block P2 (fst (fst (cont_stmt c k u st))) = true) /\
  (forall b, wf_block P1 b = true -> forall c k u cur, P2 c = true -> wf_block P2 (fst (fst (cont_block c k u cur b))) = true) /\
  (forall h, wf_blocks P1 h = true -> forall c k u, P2 c = true -> wf_blocks P2 (fst (fst (cont_blocks c k u h))) = true).
Proof.
  pose proof (wf_cond_mono P1 P2 P1_P2) as MC.
  apply stmt_block_ind3.
  - intros l _ c k u Pc; reflexivity.
  - intros f0 v H c k u Pc; simpl in H |- *; unfold one. rewrite (P1_P2 _ H). reflexivity.
  - intros t b1 IH1 b2 IH2 H c k u Pc; simpl in H |- *; unfold one. apply andb_true_iff in H; destruct H as [H B]. apply andb_true_iff in H; destruct H as [C A].
    pose proof (IH1 A c k u false Pc) as X1. destruct (cont_block c k u false b1) as [[b1' k1] u1].
    pose proof (IH2 B c k1 (u || u1) false Pc) as X2. destruct (cont_block c k1 (u || u1) false b2) as [[b2' k2] u2]. unfold one in *; simpl in *.
    rewrite (MC t C), X1, X2. reflexivity.
  - intros t b1 IH1 b2 IH2 H c k u Pc; simpl in H |- *; unfold one. apply andb_true_iff in H; destruct H as [H B]. apply andb_true_iff in H; destruct H as [C A].
    destruct b2; [|discriminate]. simpl; unfold one.
    pose proof (IH1 A (cflag k) (S k) false false (P2_cflag k)) as X1. destruct (cont_block (cflag k) (S k) false false b1) as [[b1' k1] u1]. unfold one in *; simpl in *.
    destruct u1; simpl; rewrite ?(P2_cflag k), (MC t C), X1; reflexivity.
  - intros _ c k u Pc; reflexivity.
  - intros _ c k u Pc; simpl; unfold one; simpl. rewrite Pc. reflexivity.
  - intros l _ c k u Pc; reflexivity.
  - intros b1 IH1 hs IH2 b2 IH3 b3 IH4 H c k u Pc; simpl in H |- *; unfold one.
    apply andb_true_iff in H; destruct H as [H J]. apply andb_true_iff in H; destruct H as [H D].
    apply andb_true_iff in H; destruct H as [H C]. apply andb_true_iff in H; destruct H as [A B].
    pose proof (IH1 A c k u false Pc) as X1. destruct (cont_block c k u false b1) as [[b1' k1] h1].
    pose proof (IH3 C c k1 (u || h1) false Pc) as X3. destruct (cont_block c k1 (u || h1) false b2) as [[b2' k2] h2].
    pose proof (IH4 D c k2 (u || h1 || h2) false Pc) as X4.
    pose proof (proj1 (proj2 cont_jfree) b3 J c k2 (u || h1 || h2) false) as X5.
    destruct (cont_block c k2 (u || h1 || h2) false b3) as [[b3' k3] h3].
    pose proof (IH2 B c k3 (u || h1 || h2 || h3) Pc) as X2. destruct (cont_blocks c k3 (u || h1 || h2 || h3) hs) as [[hs' k4] h4]. unfold one in *; simpl in *.
    rewrite X1, X2, X4, X5. simpl.
    destruct (negb (is_nil b2') && h1); simpl; rewrite ?Pc, X3; reflexivity.
  - intros l b1 IH1 H c k u Pc; simpl in H |- *; unfold one. pose proof (IH1 H c k u false Pc) as X1. destruct (cont_block c k u false b1) as [[b1' k1] u1]. unfold one in *; simpl in *. rewrite X1. reflexivity.
  - intros l _ c k u Pc; reflexivity.
  - intros _ c k u cur Pc; reflexivity.
  - intros st IH1 r IH2 H c k u cur Pc; simpl in H |- *; unfold one. apply andb_true_iff in H; destruct H as [A B].
    pose proof (IH1 A c k u Pc) as X1. destruct (cont_stmt c k u st) as [[st' k1] h1].
    pose proof (IH2 B c k1 (u || h1) h1 Pc) as X2. destruct (cont_block c k1 (u || h1) h1 r) as [[r' k2] h2]. unfold one in *; simpl in *.
    assert (W : wf_block P2 (bapp st' r') = true) by (apply wf_bapp; assumption).
    destruct cur; simpl; rewrite ?Pc, W; reflexivity.
  - intros _ c k u Pc; reflexivity.
  - intros a b IH1 r IH2 H c k u Pc; simpl in H |- *; unfold one. apply andb_true_iff in H; destruct H as [A B].
    pose proof (IH1 A c k u false Pc) as X1. destruct (cont_block c k u false b) as [[b' k1] u1].
    pose proof (IH2 B c k1 (u || u1) Pc) as X2. destruct (cont_blocks c k1 (u || u1) r) as [[r' k2] u2]. unfold one in *; simpl in *. rewrite X1, X2. reflexivity.
Qed.

(* ---- ConditionalReturnRewriter keeps wf ------------------------------------------------------------------ *)
Lemma wf_place P st rd r : wf_stmt P st = true -> wf_block P r = true -> wf_block P (place st rd r) = true.
Proof.
  intros Hs Hr.
  assert (D : wf_block P (BCons st r) = true) by (simpl; rewrite Hs, Hr; reflexivity).
  destruct rd; [exact D | |]; destruct st; try exact D; simpl in Hs |- *.
  - apply andb_true_iff in Hs; destruct Hs as [Hs B]. apply andb_true_iff in Hs; destruct Hs as [C A].
    rewrite C, A. simpl. rewrite (wf_bapp P _ _ B Hr). reflexivity.
  - apply andb_true_iff in Hs; destruct Hs as [Hs B]. apply andb_true_iff in Hs; destruct Hs as [C A].
    rewrite C, B. simpl. rewrite (wf_bapp P _ _ A Hr). reflexivity.
Qed.

Lemma crr_wf P :
  (forall st, wf_stmt P st = true -> wf_stmt P (fst (fst (crr_stmt st))) = true) /\
  (forall b, wf_block P b = true -> wf_block P (fst (crr_block b)) = true) /\
  (forall h, wf_blocks P h = true -> wf_blocks P (crr_blocks h) = true).
Proof.
  apply stmt_block_ind3.
  - intros l _; reflexivity.
  - intros f0 v H; exact H.
  - intros c b1 IH1 b2 IH2 H; simpl in H |- *; unfold one. apply andb_true_iff in H; destruct H as [H B]. apply andb_true_iff in H; destruct H as [C A].
    pose proof (IH1 A) as X1. pose proof (IH2 B) as X2.
    destruct (crr_block b1) as [b1' d1]. destruct (crr_block b2) as [b2' d2]. unfold one in *; simpl in *. rewrite C, X1, X2. reflexivity.
  - intros c b1 IH1 b2 IH2 H; simpl in H |- *; unfold one. apply andb_true_iff in H; destruct H as [H B]. apply andb_true_iff in H; destruct H as [C A].
    destruct b2; [|discriminate]. pose proof (IH1 A) as X1. simpl.
    destruct (crr_block b1) as [b1' d1]. unfold one in *; simpl in *. rewrite C, X1. reflexivity.
  - intros _; reflexivity.
  - intros _; reflexivity.
  - intros l _; reflexivity.
  - intros b1 IH1 hs IH2 b2 IH3 b3 IH4 H; simpl in H |- *; unfold one.
    apply andb_true_iff in H; destruct H as [H J]. apply andb_true_iff in H; destruct H as [H D].
    apply andb_true_iff in H; destruct H as [H C]. apply andb_true_iff in H; destruct H as [A B].
    pose proof (IH1 A) as X1. pose proof (IH2 B) as X2. pose proof (IH3 C) as X3. pose proof (IH4 D) as X4.
    destruct (proj1 (proj2 crr_jfree) b3 J) as [X5 _].
    destruct (crr_block b1) as [b1' d1]. destruct (crr_block b2) as [b2' d2]. destruct (crr_block b3) as [b3' d3]. unfold one in *; simpl in *.
    rewrite X1, X2, X3, X4, X5. reflexivity.
  - intros l b1 IH1 H; simpl in H |- *; unfold one. pose proof (IH1 H) as X1. destruct (crr_block b1) as [b1' d1]. unfold one in *; simpl in *. exact X1.
  - intros l _; reflexivity.
  - intros _; reflexivity.
  - intros st IH1 r IH2 H. simpl in H. apply andb_true_iff in H; destruct H as [A B].
    rewrite crr_block_cons. simpl. apply wf_place; [apply IH1, A | apply IH2, B].
  - intros _; reflexivity.
  - intros a b IH1 r IH2 H; simpl in H |- *; unfold one. apply andb_true_iff in H; destruct H as [A B]. rewrite (IH1 A), (IH2 B). reflexivity.
Qed.

(* ---- the side conditions of the composition theorem hold for every source program ----------------------------- *)
Theorem src_lowering_hyps b : src_block b = true -> lowering_hyps b = true.
Proof.
  intros S. unfold lowering_hyps.
  rewrite (proj1 (proj2 src_plain) b S). simpl.
  assert (W1 : wf_block P1 (after_break b) = true) by (apply (proj1 (proj2 brk_wf) b S 5 0 P1_5)).
  assert (C1 : clean_block (after_break b) = true).
  { assert (K : forall f, P1 f = true -> ckind f = false).
    { intros f H. unfold P1 in H. apply andb_true_iff in H. destruct H as [H _]. apply negb_true_iff, H. }
    apply (proj1 (proj2 (wf_clean P1 K))). exact W1. }
  rewrite C1. simpl.
  assert (W2 : wf_block P2 (after_continue b) = true) by (apply (proj1 (proj2 cont_wf) _ W1 (cflag 0) 1 false false (P2_cflag 0))).
  assert (K2 : forall f, P2 f = true -> Nat.eqb f rflag = false) by (intros f H; apply negb_true_iff, H).
  apply (proj1 (proj2 (wf_rclean P2 K2))).
  apply (proj1 (proj2 (crr_wf P2))). exact W2.
Qed.

Theorem lowering_correct_source_lemma b s d tr o s' d' :
  run_block b s d tr o s' d' -> src_block b = true -> o = ONormal \/ o = ORet \/ o = ORaise ->
  forall sl, (forall f, sl f = false) ->
  exists sl', run_block (lowered b) sl d tr (ro o) sl' d'
              /\ (o = ORet -> sl' rflag = true) /\ (o <> ORet -> sl' rflag = false).
Proof. intros R S. apply (lowering_correct_lemma b s d tr o s' d' R (src_lowering_hyps b S)). Qed.
