(* C01, factor 2: evaluation of the side conditions of functionalise_correct on exported programs. *)
From Coq Require Import List Arith Bool.
Import ListNotations.
Require Import MV.Fn.FnLang.

Definition fcase : Set := (nat * ablock)%type.
(* nothing is live after the last statement of the function *)
Definition failing_fcases (cs : list fcase) : list nat :=
  map fst (filter (fun c => negb (chk_block (snd c) [])) cs).

(* which variable breaks which condition: (statement label, variable) pairs, for the report *)
Definition missing (a b : list var) : list var := filter (fun x => negb (mem x b)) a.
Definition common (a b : list var) : list var := filter (fun x => mem x b) a.
Fixpoint why_stmt (st : astmt) (li out : list var) {struct st} : list (nat * nat * var) :=
  match st with
  | AAtom l us ds => map (fun x => (l, 1, x)) (missing us li ++ missing (minus out ds) li)
  | AIf l us L1 b1 L2 b2 =>
      map (fun x => (l, 1, x)) (missing us li ++ missing (lin b1 out) li ++ missing (lin b2 out) li)
      ++ map (fun x => (l, 2, x)) (common L1 (lin b1 out) ++ common L1 out ++ common L2 (lin b2 out) ++ common L2 out)
      ++ why_block b1 out ++ why_block b2 out
  | AWhile l us L body =>
      map (fun x => (l, 1, x)) (missing us li ++ missing (lin body li) li ++ missing out li)
      ++ map (fun x => (l, 2, x)) (common L li) ++ why_block body li
  | AFor l us tg ext L body =>
      map (fun x => (l, 1, x)) (missing us li ++ missing (minus (lin body li) tg) li ++ missing out li
                                ++ match ext with Some x => missing [x] li | None => [] end)
      ++ map (fun x => (l, 2, x)) (common L li) ++ why_block body li
  end
with why_block (b : ablock) (O : list var) {struct b} : list (nat * nat * var) :=
  match b with
  | ANil => []
  | ACons li st r => why_stmt st li (lin r O) ++ why_block r O
  end.
