(* C01, factor 2: evaluation of the side conditions of functionalise_correct on exported programs. *)
From Coq Require Import List Arith Bool.
Import ListNotations.
Require Import MV.Fn.FnLang.

Definition fcase : Set := (nat * ablock)%type.
(* nothing is live after the last statement of the function *)
Definition failing_fcases (cs : list fcase) : list nat :=
  map fst (filter (fun c => negb (chk_block (snd c) [] [])) cs).

(* which variable breaks which condition: (statement label, variable) pairs, for the report *)
Definition missing (a b : list var) : list var := filter (fun x => negb (mem x b)) a.
Definition common (a b : list var) : list var := filter (fun x => mem x b) a.
Fixpoint why_stmt (st : astmt) (li out X : list var) {struct st} : list (nat * nat * var) :=
  match st with
  | AAtom l us ds => map (fun x => (l, 1, x)) (missing us li ++ missing (minus out ds) li)
  | AIf l us L1 b1 L2 b2 =>
      map (fun x => (l, 1, x)) (missing us li ++ missing (lin b1 out) li ++ missing (lin b2 out) li)
      ++ map (fun x => (l, 2, x)) (common L1 (lin b1 out) ++ common L1 out ++ common L2 (lin b2 out) ++ common L2 out
                                   ++ (if raises_block b1 then common L1 X else []) ++ (if raises_block b2 then common L2 X else []))
      ++ why_block b1 out X ++ why_block b2 out X
  | AWhile l us L body =>
      map (fun x => (l, 1, x)) (missing us li ++ missing (lin body li) li ++ missing out li)
      ++ map (fun x => (l, 2, x)) (common L li ++ (if raises_block body then common L X else [])) ++ why_block body li X
  | AFor l us tg ext L body =>
      map (fun x => (l, 1, x)) (missing us li ++ missing (minus (lin body li) tg) li ++ missing out li
                                ++ missing ext li)
      ++ map (fun x => (l, 2, x)) (common L li ++ (if raises_block body then common L X else [])) ++ why_block body li X
  | ARaise l us => map (fun x => (l, 1, x)) (missing us li ++ missing X li)
  | AWith l us ds body => map (fun x => (l, 1, x)) (missing us li ++ missing (minus (lin body out) ds) li) ++ why_block body out X
  | ATry body hs orelse final =>
      let Fn := lin final out in let Fx := lin final X in let E := lin orelse Fn in
      map (fun x => (0, 1, x)) (missing (lin body E) li)
      ++ why_block final out X ++ why_block final X X ++ why_hs hs Fn Fx ++ why_block orelse Fn Fx ++ why_block body E (hins hs Fn ++ Fx)
  end
with why_block (b : ablock) (O X : list var) {struct b} : list (nat * nat * var) :=
  match b with
  | ANil => []
  | ACons li st r => why_stmt st li (lin r O) X ++ why_block r O X
  end
with why_hs (hs : ahandlers) (Fn Fx : list var) {struct hs} : list (nat * nat * var) :=
  match hs with AHNil => [] | AHCons b r => why_block b Fn Fx ++ why_hs r Fn Fx end.
