(* C01, factor 2 (functionalisation): the control-flow converter turns the body of every `if` / `while` into a
   local function (`def if_body(): nonlocal <state>; ...`).  A variable the body assigns and that is not declared
   nonlocal becomes a LOCAL of that function: unbound at every entry, discarded at every exit, the variable of
   the enclosing function untouched.  This file models exactly that: statements carry the set L of variables
   that are local to the generated body function (read off the generated code with CPython's symtable by the
   exporter) and the liveness annotation of the real analysis; `run false` is the original semantics (L
   ignored), `run true` the semantics of the functional form.  User statements are opaque: they read `uses`,
   write `defs` with values that are an arbitrary function F of the label and the values read; tests are
   decision-driven; the trace records every label with the values it read. *)
From Coq Require Import List Arith Bool.
Import ListNotations.

Definition var := nat.
Definition label := nat.
Definition val := nat.
Definition store := var -> option val.
Definition decisions := list nat.

Inductive astmt : Set :=
| AAtom (l : label) (uses defs : list var)
| AIf (l : label) (uses : list var) (L1 : list var) (b1 : ablock) (L2 : list var) (b2 : ablock)
| AWhile (l : label) (uses : list var) (L : list var) (body : ablock)
(* for <targets> in <iterable reading uses>: the iterable is evaluated once; every iteration assigns the targets
   inside the body function (`def loop_body(itr): nonlocal ...; <targets> = itr; ...`); ext = the flag of the
   extra loop test `not flag` that break / return lowering attaches to the loop: it is tested before every
   item is pulled from the iterator (ag__.for_stmt: once before the loop and after every body call); with a
   lowered return as well the test is `not do_return and not break_`: ext lists the flags *)
| AFor (l : label) (uses targets : list var) (ext : list var) (L : list var) (body : ablock)
(* exceptions: explicit raise; try / except / else / finally stays a native statement (its clauses contain
   rewritten statements); the handler a raised exception goes to is chosen by the next decision (an index past
   the last handler: none matches) *)
| ARaise (l : label) (uses : list var)
| AWith (l : label) (uses defs : list var) (body : ablock)   (* native `with ... as defs`: the manager is evaluated, the body runs in place
                                                           (a manager that swallows exceptions is not modelled) *)
| ATry (body : ablock) (hs : ahandlers) (orelse final : ablock)
with ablock : Set :=
| ANil
| ACons (li : list var) (s : astmt) (r : ablock)       (* li: LIVE_VARS_IN of s as the analysis reports it *)
with ahandlers : Set :=
| AHNil
| AHCons (b : ablock) (r : ahandlers).

Definition mem (x : var) (l : list var) : bool := existsb (Nat.eqb x) l.
Definition upd (s : store) (x : var) (v : option val) : store := fun y => if Nat.eqb y x then v else s y.

Fixpoint reads (s : store) (us : list var) : option (list val) :=
  match us with
  | [] => Some []
  | u :: r => match s u, reads s r with Some v, Some vs => Some (v :: vs) | _, _ => None end
  end.

Section Sem.
Variable F : label -> nat -> list val -> val.     (* the value a statement gives to its i-th target *)
Variable truthy : val -> bool.                    (* the truth value of a flag *)

(* does the extra test stop the loop?  None: the flag is unbound *)
Fixpoint ext_stop (ext : list var) (s : store) : option bool :=
  match ext with
  | [] => Some false
  | x :: r => match s x, ext_stop r s with
              | Some v, Some b => Some (truthy v || b)
              | _, _ => None
              end
  end.

Fixpoint write (s : store) (l : label) (vs : list val) (i : nat) (ds : list var) : store :=
  match ds with
  | [] => s
  | x :: r => write (upd s x (Some (F l i vs))) l vs (S i) r
  end.

(* entering / leaving a generated body function whose locals are L *)
Definition enter (fn : bool) (L : list var) (s : store) : store :=
  if fn then (fun x => if mem x L then None else s x) else s.
Definition leave (fn : bool) (L : list var) (outer inner : store) : store :=
  if fn then (fun x => if mem x L then outer x else inner x) else inner.

Definition event : Set := (label * list val)%type.
Inductive fout : Set := FN | FR.                                  (* completed / an exception is propagating *)
Definition res : Set := option (list event * fout * store * decisions).   (* None: stuck (unbound read, a finally
                                                                            clause that raises) or out of fuel *)
Definition dnat (d : decisions) : nat := match d with [] => 0 | c :: _ => c end.
Fixpoint hnth (hs : ahandlers) (k : nat) : option ablock :=
  match hs with
  | AHNil => None
  | AHCons b r => match k with 0 => Some b | S k' => hnth r k' end
  end.
Definition dhead (d : decisions) : bool := match d with [] => false | c :: _ => negb (Nat.eqb c 0) end.
Definition dtail (d : decisions) : decisions := match d with [] => [] | _ :: r => r end.

Fixpoint run_stmt (fn : bool) (n : nat) (st : astmt) (s : store) (d : decisions) {struct n} : res :=
  match n with
  | 0 => None
  | S n' =>
    match st with
    | AAtom l us ds =>
        match reads s us with
        | None => None
        | Some vs => Some ([(l, vs)], FN, write s l vs 0 ds, d)
        end
    | AIf l us L1 b1 L2 b2 =>
        match reads s us with
        | None => None
        | Some vs =>
            let L := if dhead d then L1 else L2 in
            match run_block fn n' (if dhead d then b1 else b2) (enter fn L s) (dtail d) with
            | None => None
            | Some (tr, o, s1, d1) => Some ((l, vs) :: tr, o, leave fn L s s1, d1)
            end
        end
    | AWhile l us L body =>
        match reads s us with
        | None => None
        | Some vs =>
            if dhead d then
              match run_block fn n' body (enter fn L s) (dtail d) with
              | None => None
              | Some (tr, FR, s1, d1) => Some ((l, vs) :: tr, FR, leave fn L s s1, d1)
              | Some (tr, FN, s1, d1) =>
                  match run_stmt fn n' (AWhile l us L body) (leave fn L s s1) d1 with
                  | None => None
                  | Some (tr2, o2, s2, d2) => Some ((l, vs) :: tr ++ tr2, o2, s2, d2)
                  end
              end
            else Some ([(l, vs)], FN, s, dtail d)
        end
    | AFor l us tg ext L body =>
        match reads s us with
        | None => None
        | Some vs =>
            match run_for fn n' l tg ext L body vs 0 s d with
            | None => None
            | Some (tr, o, s1, d1) => Some ((l, vs) :: tr, o, s1, d1)
            end
        end
    | ARaise l us =>
        match reads s us with
        | None => None
        | Some vs => Some ([(l, vs)], FR, s, d)
        end
    | AWith l us ds body =>
        match reads s us with
        | None => None
        | Some vs =>
            match run_block fn n' body (write s l vs 0 ds) d with
            | None => None
            | Some (tr, o, s1, d1) => Some ((l, vs) :: tr, o, s1, d1)
            end
        end
    | ATry body hs orelse final =>
        match run_block fn n' body s d with
        | None => None
        | Some (tr1, o1, s1, d1) =>
            (* what runs between the body and the finally clause *)
            let mid :=
              match o1 with
              | FN => run_block fn n' orelse s1 d1
              | FR => match hnth hs (dnat d1) with
                      | Some h => run_block fn n' h s1 (dtail d1)
                      | None => Some ([], FR, s1, dtail d1)
                      end
              end in
            match mid with
            | None => None
            | Some (tr2, o2, s2, d2) =>
                match run_block fn n' final s2 d2 with
                | Some (tr3, FN, s3, d3) => Some (tr1 ++ tr2 ++ tr3, o2, s3, d3)
                | _ => None
                end
            end
        end
    end
  end
with run_for (fn : bool) (n : nat) (l : label) (tg : list var) (ext : list var) (L : list var) (body : ablock)
             (vs : list val) (k : nat) (s : store) (d : decisions) {struct n} : res :=
  match n with
  | 0 => None
  | S n' =>
      match ext_stop ext s with
      | None => None
      | Some true => Some ([], FN, s, d)
      | Some false =>
        if dhead d then
          match run_block fn n' body (write (enter fn L s) l (vs ++ [k]) 0 tg) (dtail d) with
          | None => None
          | Some (tr, FR, s1, d1) => Some ((l, [k]) :: tr, FR, leave fn L s s1, d1)
          | Some (tr, FN, s1, d1) =>
              match run_for fn n' l tg ext L body vs (S k) (leave fn L s s1) d1 with
              | None => None
              | Some (tr2, o2, s2, d2) => Some ((l, [k]) :: tr ++ tr2, o2, s2, d2)
              end
          end
        else Some ([(l, [k])], FN, s, dtail d)
      end
  end
with run_block (fn : bool) (n : nat) (b : ablock) (s : store) (d : decisions) {struct n} : res :=
  match n with
  | 0 => None
  | S n' =>
    match b with
    | ANil => Some ([], FN, s, d)
    | ACons _ st r =>
        match run_stmt fn n' st s d with
        | None => None
        | Some (tr, FR, s1, d1) => Some (tr, FR, s1, d1)
        | Some (tr, FN, s1, d1) =>
            match run_block fn n' r s1 d1 with
            | None => None
            | Some (tr2, o2, s2, d2) => Some (tr ++ tr2, o2, s2, d2)
            end
        end
    end
  end.
End Sem.

(* ---- the conditions under which the functional form is equivalent (checked on every exported program) ---- *)
Definition subset (a b : list var) : bool := forallb (fun x => mem x b) a.
Definition disjoint (a b : list var) : bool := forallb (fun x => negb (mem x b)) a.
Definition minus (a b : list var) : list var := filter (fun x => negb (mem x b)) a.

(* live-in of a block whose exit set is O *)
Definition lin (b : ablock) (O : list var) : list var := match b with ANil => O | ACons li _ _ => li end.

(* can an exception escape from the block? *)
Fixpoint raises_stmt (st : astmt) : bool :=
  match st with
  | AAtom _ _ _ => false
  | AIf _ _ _ b1 _ b2 => raises_block b1 || raises_block b2
  | AWhile _ _ _ body | AFor _ _ _ _ _ body => raises_block body
  | ARaise _ _ => true
  | AWith _ _ _ body => raises_block body
  | ATry body hs orelse final => raises_block body || raises_hs hs || raises_block orelse || raises_block final
  end
with raises_block (b : ablock) : bool :=
  match b with ANil => false | ACons _ st r => raises_stmt st || raises_block r end
with raises_hs (h : ahandlers) : bool :=
  match h with AHNil => false | AHCons b r => raises_block b || raises_hs r end.

(* live-in sets of the handlers of a try (exit set F) *)
Fixpoint hins (hs : ahandlers) (F : list var) : list var :=
  match hs with AHNil => [] | AHCons b r => lin b F ++ hins r F end.

(* out: live after the statement; X: live where an exception that escapes the statement is caught (or nothing,
   when it leaves the function) *)
Fixpoint chk_stmt (st : astmt) (li out X : list var) {struct st} : bool :=
  match st with
  | AAtom _ us ds => subset us li && subset (minus out ds) li
  | AIf _ us L1 b1 L2 b2 =>
      subset us li && subset (lin b1 out) li && subset (lin b2 out) li
      && chk_block b1 out X && chk_block b2 out X
      && disjoint L1 (lin b1 out) && disjoint L1 out && disjoint L2 (lin b2 out) && disjoint L2 out
      && (negb (raises_block b1) || disjoint L1 X) && (negb (raises_block b2) || disjoint L2 X)
  | AWhile _ us L body =>
      subset us li && subset (lin body li) li && subset out li
      && chk_block body li X && disjoint L li && (negb (raises_block body) || disjoint L X)
  | AFor _ us tg ext L body =>
      subset us li && subset (minus (lin body li) tg) li && subset out li
      && chk_block body li X && disjoint L li && subset ext li
      && (negb (raises_block body) || disjoint L X)
  | ARaise _ us => subset us li && subset X li
  | AWith _ us ds body => subset us li && subset (minus (lin body out) ds) li && chk_block body out X
  | ATry body hs orelse final =>
      let Fn := lin final out in            (* the finally clause is entered normally ... *)
      let Fx := lin final X in              (* ... or with an exception propagating *)
      let E := lin orelse Fn in
      subset (lin body E) li
      && chk_block final out X && chk_block final X X
      && chk_hs hs Fn Fx
      && chk_block orelse Fn Fx
      && chk_block body E (hins hs Fn ++ Fx)
  end
with chk_block (b : ablock) (O X : list var) {struct b} : bool :=
  match b with
  | ANil => true
  | ACons li st r => chk_stmt st li (lin r O) X && chk_block r O X
  end
with chk_hs (hs : ahandlers) (Fn Fx : list var) {struct hs} : bool :=
  match hs with
  | AHNil => true
  | AHCons b r => chk_block b Fn Fx && chk_hs r Fn Fx
  end.
