(* C01, factor 2: the functional form computes what the original computes, on everything that is live. *)
From Coq Require Import List Arith Bool Lia.
Import ListNotations.
Require Import MV.Fn.FnLang.

Arguments enter : simpl never.
Arguments leave : simpl never.

Lemma enter_false L s : enter false L s = s.  Proof. reflexivity. Qed.
Lemma leave_false L so si : leave false L so si = si.  Proof. reflexivity. Qed.

Definition agree (X : list var) (s s' : store) : Prop := forall x, mem x X = true -> s x = s' x.

Lemma subset_spec a b : subset a b = true -> forall x, mem x a = true -> mem x b = true.
Proof.
  unfold subset. intros H x Hx. rewrite forallb_forall in H. unfold mem in Hx. apply existsb_exists in Hx.
  destruct Hx as [y [Hy E]]. apply Nat.eqb_eq in E; subst y. apply H, Hy.
Qed.

Lemma disjoint_spec L X : disjoint L X = true -> forall x, mem x X = true -> mem x L = false.
Proof.
  unfold disjoint. intros H x Hx. rewrite forallb_forall in H.
  destruct (mem x L) eqn:E; [|reflexivity]. unfold mem in E. apply existsb_exists in E.
  destruct E as [y [Hy E]]. apply Nat.eqb_eq in E; subst y. specialize (H x Hy). rewrite Hx in H. discriminate.
Qed.

Lemma agree_mono X Y s s' : agree X s s' -> subset Y X = true -> agree Y s s'.
Proof. intros A S x Hx. apply A. eapply subset_spec; eassumption. Qed.

Lemma mem_minus x a b : mem x (minus a b) = mem x a && negb (mem x b).
Proof.
  unfold minus. induction a as [|y r IH]; simpl; [reflexivity|].
  destruct (mem y b) eqn:M; simpl.
  - unfold mem in IH |- *. rewrite IH. destruct (Nat.eqb x y) eqn:E; simpl; [|reflexivity].
    apply Nat.eqb_eq in E; subst y. unfold mem in M. rewrite M. rewrite andb_false_r. reflexivity.
  - unfold mem in IH |- *. rewrite IH. destruct (Nat.eqb x y) eqn:E; simpl; [|reflexivity].
    apply Nat.eqb_eq in E; subst y. unfold mem in M. rewrite M. reflexivity.
Qed.

Lemma reads_agree X s s' us : agree X s s' -> subset us X = true -> reads s us = reads s' us.
Proof.
  intros A. induction us as [|u r IH]; simpl; intros S; [reflexivity|].
  apply andb_true_iff in S. destruct S as [Su Sr]. rewrite (A u Su), (IH Sr). reflexivity.
Qed.

Section Proofs.
Variable F : label -> nat -> list val -> val.
Variable truthy : val -> bool.

Lemma write_agree out l vs ds : forall s s' i,
  (forall y, mem y out = true -> mem y ds = false -> s y = s' y) ->
  agree out (write F s l vs i ds) (write F s' l vs i ds).
Proof.
  induction ds as [|x r IH]; intros s s' i H; simpl.
  - intros y Hy. apply H; [exact Hy | reflexivity].
  - apply IH. intros y Hy Hr. unfold upd. destruct (Nat.eqb y x) eqn:E; [reflexivity|].
    apply H; [exact Hy|]. simpl. rewrite E. exact Hr.
Qed.

Lemma enter_agree X L s s' : agree X s s' -> disjoint L X = true -> agree X s (enter true L s').
Proof. intros A D x Hx. unfold enter, leave. rewrite (disjoint_spec _ _ D x Hx). apply A, Hx. Qed.

Lemma leave_agree X L s1 s1' so : agree X s1 s1' -> disjoint L X = true -> agree X s1 (leave true L so s1').
Proof. intros A D x Hx. unfold enter, leave. rewrite (disjoint_spec _ _ D x Hx). apply A, Hx. Qed.

Lemma disjoint_mono L X Y : disjoint L X = true -> subset Y X = true -> disjoint L Y = true.
Proof.
  unfold disjoint. intros D S. rewrite forallb_forall in *. intros x Hx. specialize (D x Hx).
  destruct (mem x Y) eqn:E; [|reflexivity]. rewrite (subset_spec _ _ S x E) in D. exact D.
Qed.

Definition ok_stmt (n : nat) : Prop :=
  forall st li out s s' d tr s1 d1, chk_stmt st li out = true -> agree li s s' ->
    run_stmt F truthy false n st s d = Some (tr, s1, d1) ->
    exists s1', run_stmt F truthy true n st s' d = Some (tr, s1', d1) /\ agree out s1 s1'.
Definition ok_block (n : nat) : Prop :=
  forall b O s s' d tr s1 d1, chk_block b O = true -> agree (lin b O) s s' ->
    run_block F truthy false n b s d = Some (tr, s1, d1) ->
    exists s1', run_block F truthy true n b s' d = Some (tr, s1', d1) /\ agree O s1 s1'.

Definition ok_for (n : nat) : Prop :=
  forall l tg ext L body vs k li out s s' d tr s1 d1,
    subset (minus (lin body li) tg) li = true -> subset out li = true -> chk_block body li = true -> disjoint L li = true ->
    match ext with None => true | Some x => mem x li end = true ->
    agree li s s' ->
    run_for F truthy false n l tg ext L body vs k s d = Some (tr, s1, d1) ->
    exists s1', run_for F truthy true n l tg ext L body vs k s' d = Some (tr, s1', d1) /\ agree out s1 s1'.

Theorem fn_correct_all : forall n, ok_stmt n /\ ok_block n /\ ok_for n.
Proof.
  induction n as [|n [IHs [IHb IHf]]]; split; [| split | | split].
  - intros st li out s s' d tr s1 d1 _ _ H; discriminate.
  - intros b O s s' d tr s1 d1 _ _ H; discriminate.
  - intros l tg ext L body vs k li out s s' d tr s1 d1 _ _ _ _ _ _ H; discriminate.
  - intros st li out s s' d tr s1 d1 C A H. destruct st as [l us ds | l us L1 b1 L2 b2 | l us L body | l us tg ext L body]; simpl in C, H |- *;
      repeat rewrite enter_false in H; repeat rewrite leave_false in H.
    + (* atom *)
      apply andb_true_iff in C. destruct C as [Cu Co].
      rewrite <- (reads_agree li s s' us A Cu). destruct (reads s us) as [vs|]; [|discriminate].
      injection H as <- <- <-. eexists; split; [reflexivity|].
      apply write_agree. intros y Hy Hd. apply A. eapply subset_spec; [exact Co|]. rewrite mem_minus, Hy, Hd. reflexivity.
    + (* if *)
      repeat (apply andb_true_iff in C; destruct C as [C ?]).
      rename H0 into D2o, H1 into D2i, H2 into D1o, H3 into D1i, H4 into C2, H5 into C1, H6 into S2, H7 into S1.
      rewrite <- (reads_agree li s s' us A C). destruct (reads s us) as [vs|]; [|discriminate].
      destruct (dhead d); cbv iota in H |- *.
      * destruct (run_block F truthy false n b1 s (dtail d)) as [[[tr0 s0] d0]|] eqn:E; [|discriminate]. injection H as <- <- <-.
        destruct (IHb b1 out s (enter true L1 s') (dtail d) tr0 s0 d0 C1) as [s0' [R A0]]; [|exact E|].
        { apply enter_agree; [eapply agree_mono; eassumption | exact D1i]. }
        rewrite R. eexists; split; [reflexivity|]. apply leave_agree; assumption.
      * destruct (run_block F truthy false n b2 s (dtail d)) as [[[tr0 s0] d0]|] eqn:E; [|discriminate]. injection H as <- <- <-.
        destruct (IHb b2 out s (enter true L2 s') (dtail d) tr0 s0 d0 C2) as [s0' [R A0]]; [|exact E|].
        { apply enter_agree; [eapply agree_mono; eassumption | exact D2i]. }
        rewrite R. eexists; split; [reflexivity|]. apply leave_agree; assumption.
    + (* while *)
      pose proof C as C0.
      repeat (apply andb_true_iff in C; destruct C as [C ?]).
      rename H0 into DL, H1 into Cb, H2 into So, H3 into Sb.
      rewrite <- (reads_agree li s s' us A C). destruct (reads s us) as [vs|]; [|discriminate].
      destruct (dhead d).
      * destruct (run_block F truthy false n body s (dtail d)) as [[[tr0 s0] d0]|] eqn:E; [|discriminate].
        change (leave false L s s0) with s0 in H.
        destruct (run_stmt F truthy false n (AWhile l us L body) s0 d0) as [[[tr2 s2] d2]|] eqn:E2; [|discriminate].
        injection H as <- <- <-.
        destruct (IHb body li s (enter true L s') (dtail d) tr0 s0 d0 Cb) as [s0' [R A0]]; [|exact E|].
        { apply enter_agree; [eapply agree_mono; eassumption | eapply disjoint_mono; eassumption]. }
        rewrite R.
        destruct (IHs (AWhile l us L body) li out s0 (leave true L s' s0') d0 tr2 s2 d2 C0) as [s2' [R2 A2]]; [|exact E2|].
        { apply leave_agree; assumption. }
        rewrite R2. eexists; split; [reflexivity | exact A2].
      * injection H as <- <- <-. eexists; split; [reflexivity|]. eapply agree_mono; eassumption.
    + (* for *)
      repeat (apply andb_true_iff in C; destruct C as [C ?]).
      rename H0 into Xe, H1 into DL, H2 into Cb, H3 into So, H4 into Sb.
      rewrite <- (reads_agree li s s' us A C). destruct (reads s us) as [vs|]; [|discriminate].
      destruct (run_for F truthy false n l tg ext L body vs 0 s d) as [[[tr0 s0] d0]|] eqn:E; [|discriminate]. injection H as <- <- <-.
      destruct (IHf l tg ext L body vs 0 li out s s' d tr0 s0 d0 Sb So Cb DL Xe A E) as [s0' [R A0]].
      rewrite R. eexists; split; [reflexivity | exact A0].
  - intros b O s s' d tr s1 d1 C A H. destruct b as [|li st r]; simpl in C, H |- *.
    + injection H as <- <- <-. eexists; split; [reflexivity | exact A].
    + apply andb_true_iff in C. destruct C as [Cs Cr]. simpl in A.
      destruct (run_stmt F truthy false n st s d) as [[[tr0 s0] d0]|] eqn:E; [|discriminate].
      destruct (run_block F truthy false n r s0 d0) as [[[tr2 s2] d2]|] eqn:E2; [|discriminate].
      injection H as <- <- <-.
      destruct (IHs st li (lin r O) s s' d tr0 s0 d0 Cs A E) as [s0' [R A0]]. rewrite R.
      destruct (IHb r O s0 s0' d0 tr2 s2 d2 Cr A0 E2) as [s2' [R2 A2]]. rewrite R2.
      eexists; split; [reflexivity | exact A2].
  - (* the iterations of a for loop *)
    intros l tg ext L body vs k li out s s' d tr s1 d1 Sb So Cb DL Xe A H. simpl in H |- *.
    assert (EX : ext_stop truthy ext s' = ext_stop truthy ext s).
    { destruct ext as [x|]; [|reflexivity]. simpl. rewrite (A x Xe). reflexivity. }
    rewrite EX. destruct (ext_stop truthy ext s) as [[|]|]; [| |discriminate].
    { injection H as <- <- <-. eexists; split; [reflexivity|]. eapply agree_mono; eassumption. }
    destruct (dhead d).
    + rewrite enter_false in H.
      destruct (run_block F truthy false n body (write F s l (vs ++ [k]) 0 tg) (dtail d)) as [[[tr0 s0] d0]|] eqn:E; [|discriminate].
      change (leave false L s s0) with s0 in H.
      destruct (run_for F truthy false n l tg ext L body vs (S k) s0 d0) as [[[tr2 s2] d2]|] eqn:E2; [|discriminate].
      injection H as <- <- <-.
      destruct (IHb body li (write F s l (vs ++ [k]) 0 tg) (write F (enter true L s') l (vs ++ [k]) 0 tg) (dtail d) tr0 s0 d0 Cb)
        as [s0' [R A0]]; [|exact E|].
      { apply write_agree. intros y Hy Hd. unfold enter.
        assert (M : mem y li = true) by (eapply subset_spec; [exact Sb|]; rewrite mem_minus, Hy, Hd; reflexivity).
        rewrite (disjoint_spec _ _ DL y M). apply A, M. }
      rewrite R.
      destruct (IHf l tg ext L body vs (S k) li out s0 (leave true L s' s0') d0 tr2 s2 d2 Sb So Cb DL Xe) as [s2' [R2 A2]]; [|exact E2|].
      { apply leave_agree; assumption. }
      rewrite R2. eexists; split; [reflexivity | exact A2].
    + injection H as <- <- <-. eexists; split; [reflexivity|]. eapply agree_mono; eassumption.
Qed.
End Proofs.

(* The locality conditions follow from how control_flow.py selects the state variables (property C02, theorem
   state_complete): if every assigned name that is live into or out of the statement is a state variable
   (declared nonlocal), then no local of the generated body function -- an assigned name that is not a state
   variable -- is live there. *)
Lemma locals_not_live (L M S li out : list var) :
  subset L (minus M S) = true ->
  (forall x, mem x M = true -> mem x li = true \/ mem x out = true -> mem x S = true) ->
  disjoint L li = true /\ disjoint L out = true.
Proof.
  intros HL HS. assert (K : forall x, mem x L = true -> mem x M = true /\ mem x S = false).
  { intros x Hx. pose proof (subset_spec _ _ HL x Hx) as Hm. rewrite mem_minus in Hm.
    apply andb_true_iff in Hm. destruct Hm as [A B]. apply negb_true_iff in B. auto. }
  assert (D : forall X, (forall x, mem x X = true -> mem x li = true \/ mem x out = true) -> disjoint L X = true).
  { intros X HX. unfold disjoint. apply forallb_forall. intros x Hx.
    assert (Hm : mem x L = true) by (unfold mem; apply existsb_exists; exists x; split; [exact Hx | apply Nat.eqb_refl]).
    destruct (K x Hm) as [A B]. destruct (mem x X) eqn:E; [|reflexivity].
    rewrite (HS x A (HX x E)) in B. discriminate. }
  split; apply D; auto.
Qed.

(* every terminating, non-stuck run of the original from a store is matched by the functional form started in
   any store that agrees on what is live at entry: same events with the same values read, same decisions
   consumed, and the final stores agree on the variables in O (what is live at the exit) *)
Theorem functionalise_correct_lemma : forall F truthy n b O s s' d tr s1 d1,
  chk_block b O = true -> agree (lin b O) s s' ->
  run_block F truthy false n b s d = Some (tr, s1, d1) ->
  exists s1', run_block F truthy true n b s' d = Some (tr, s1', d1) /\ agree O s1 s1'.
Proof. intros F truthy n. exact (proj1 (proj2 (fn_correct_all F truthy n))). Qed.
