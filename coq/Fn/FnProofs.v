(* C01, factor 2: the functional form computes what the original computes, on everything that is live. *)
From Coq Require Import List Arith Bool Lia.
Import ListNotations.
Require Import MV.Fn.FnLang.

Arguments enter : simpl never.
Arguments leave : simpl never.

Lemma enter_false L s : enter false L s = s.  Proof. reflexivity. Qed.
Lemma leave_false L so si : leave false L so si = si.  Proof. reflexivity. Qed.

Definition agree (X : list var) (s s' : store) : Prop := forall x, mem x X = true -> s x = s' x.

Lemma subset_spec a b : subset a b = true -> forall x, mem x a = true -> mem x b = true.
Proof.
  unfold subset. intros H x Hx. rewrite forallb_forall in H. unfold mem in Hx. apply existsb_exists in Hx.
  destruct Hx as [y [Hy E]]. apply Nat.eqb_eq in E; subst y. apply H, Hy.
Qed.

Lemma disjoint_spec L X : disjoint L X = true -> forall x, mem x X = true -> mem x L = false.
Proof.
  unfold disjoint. intros H x Hx. rewrite forallb_forall in H.
  destruct (mem x L) eqn:E; [|reflexivity]. unfold mem in E. apply existsb_exists in E.
  destruct E as [y [Hy E]]. apply Nat.eqb_eq in E; subst y. specialize (H x Hy). rewrite Hx in H. discriminate.
Qed.

Lemma agree_mono X Y s s' : agree X s s' -> subset Y X = true -> agree Y s s'.
Proof. intros A S x Hx. apply A. eapply subset_spec; eassumption. Qed.

Lemma mem_minus x a b : mem x (minus a b) = mem x a && negb (mem x b).
Proof.
  unfold minus. induction a as [|y r IH]; simpl; [reflexivity|].
  destruct (mem y b) eqn:M; simpl.
  - unfold mem in IH |- *. rewrite IH. destruct (Nat.eqb x y) eqn:E; simpl; [|reflexivity].
    apply Nat.eqb_eq in E; subst y. unfold mem in M. rewrite M. rewrite andb_false_r. reflexivity.
  - unfold mem in IH |- *. rewrite IH. destruct (Nat.eqb x y) eqn:E; simpl; [|reflexivity].
    apply Nat.eqb_eq in E; subst y. unfold mem in M. rewrite M. reflexivity.
Qed.

Lemma reads_agree X s s' us : agree X s s' -> subset us X = true -> reads s us = reads s' us.
Proof.
  intros A. induction us as [|u r IH]; simpl; intros S; [reflexivity|].
  apply andb_true_iff in S. destruct S as [Su Sr]. rewrite (A u Su), (IH Sr). reflexivity.
Qed.

Section Proofs.
Variable F : label -> nat -> list val -> val.
Variable truthy : val -> bool.

Lemma write_agree out l vs ds : forall s s' i,
  (forall y, mem y out = true -> mem y ds = false -> s y = s' y) ->
  agree out (write F s l vs i ds) (write F s' l vs i ds).
Proof.
  induction ds as [|x r IH]; intros s s' i H; simpl.
  - intros y Hy. apply H; [exact Hy | reflexivity].
  - apply IH. intros y Hy Hr. unfold upd. destruct (Nat.eqb y x) eqn:E; [reflexivity|].
    apply H; [exact Hy|]. simpl. rewrite E. exact Hr.
Qed.

Lemma enter_agree X L s s' : agree X s s' -> disjoint L X = true -> agree X s (enter true L s').
Proof. intros A D x Hx. unfold enter, leave. rewrite (disjoint_spec _ _ D x Hx). apply A, Hx. Qed.

Lemma leave_agree X L s1 s1' so : agree X s1 s1' -> disjoint L X = true -> agree X s1 (leave true L so s1').
Proof. intros A D x Hx. unfold enter, leave. rewrite (disjoint_spec _ _ D x Hx). apply A, Hx. Qed.

Lemma disjoint_mono L X Y : disjoint L X = true -> subset Y X = true -> disjoint L Y = true.
Proof.
  unfold disjoint. intros D S. rewrite forallb_forall in *. intros x Hx. specialize (D x Hx).
  destruct (mem x Y) eqn:E; [|reflexivity]. rewrite (subset_spec _ _ S x E) in D. exact D.
Qed.

Definition post (o : fout) (out X : list var) (s1 s1' : store) : Prop :=
  match o with FN => agree out s1 s1' | FR => agree X s1 s1' end.

Definition ok_stmt (n : nat) : Prop :=
  forall st li out X s s' d tr o s1 d1, chk_stmt st li out X = true -> agree li s s' ->
    run_stmt F truthy false n st s d = Some (tr, o, s1, d1) ->
    exists s1', run_stmt F truthy true n st s' d = Some (tr, o, s1', d1) /\ post o out X s1 s1'.
Definition ok_block (n : nat) : Prop :=
  forall b O X s s' d tr o s1 d1, chk_block b O X = true -> agree (lin b O) s s' ->
    run_block F truthy false n b s d = Some (tr, o, s1, d1) ->
    exists s1', run_block F truthy true n b s' d = Some (tr, o, s1', d1) /\ post o O X s1 s1'.
Definition ok_for (n : nat) : Prop :=
  forall l tg ext L body vs k li out X s s' d tr o s1 d1,
    subset (minus (lin body li) tg) li = true -> subset out li = true -> chk_block body li X = true -> disjoint L li = true ->
    subset ext li = true ->
    (negb (raises_block body) || disjoint L X) = true ->
    agree li s s' ->
    run_for F truthy false n l tg ext L body vs k s d = Some (tr, o, s1, d1) ->
    exists s1', run_for F truthy true n l tg ext L body vs k s' d = Some (tr, o, s1', d1) /\ post o out X s1 s1'.

(* a block that cannot raise does not end in an exception *)
Lemma no_raise : forall fn n,
  (forall st s d tr o s1 d1, run_stmt F truthy fn n st s d = Some (tr, o, s1, d1) -> raises_stmt st = false -> o = FN) /\
  (forall b s d tr o s1 d1, run_block F truthy fn n b s d = Some (tr, o, s1, d1) -> raises_block b = false -> o = FN) /\
  (forall l tg ext L body vs k s d tr o s1 d1, run_for F truthy fn n l tg ext L body vs k s d = Some (tr, o, s1, d1) ->
      raises_block body = false -> o = FN).
Proof.
  intros fn. induction n as [|n [IHs [IHb IHf]]]; [repeat split; intros; discriminate|].
  split; [|split].
  - intros st s d tr o s1 d1 H R. destruct st as [l us ds | l us L1 b1 L2 b2 | l us L body | l us tg ext L body | l us | l us ds body | body hs orelse final];
      simpl in H, R.
    + destruct (reads s us); [|discriminate]. injection H as _ <- _ _. reflexivity.
    + apply orb_false_iff in R. destruct R as [R1 R2]. destruct (reads s us); [|discriminate].
      destruct (run_block F truthy fn n (if dhead d then b1 else b2) (enter fn (if dhead d then L1 else L2) s) (dtail d))
        as [[[[t0 o0] s0] d0]|] eqn:E; [|discriminate]. injection H as _ <- _ _.
      eapply IHb; [exact E|]. destruct (dhead d); assumption.
    + destruct (reads s us); [|discriminate]. destruct (dhead d).
      * destruct (run_block F truthy fn n body (enter fn L s) (dtail d)) as [[[[t0 o0] s0] d0]|] eqn:E; [|discriminate].
        pose proof (IHb _ _ _ _ _ _ _ E R) as ->.
        destruct (run_stmt F truthy fn n (AWhile l us L body) (leave fn L s s0) d0) as [[[[t2 o2] s2] d2]|] eqn:E2; [|discriminate].
        injection H as _ <- _ _. eapply IHs; [exact E2 | exact R].
      * injection H as _ <- _ _. reflexivity.
    + destruct (reads s us); [|discriminate].
      destruct (run_for F truthy fn n l tg ext L body l0 0 s d) as [[[[t0 o0] s0] d0]|] eqn:E; [|discriminate].
      injection H as _ <- _ _. eapply IHf; [exact E | exact R].
    + discriminate.
    + destruct (reads s us) as [vs0|]; [|discriminate].
      destruct (run_block F truthy fn n body (write F s l vs0 0 ds) d) as [[[[t0 o0] s0] d0]|] eqn:E; [|discriminate].
      injection H as _ <- _ _. eapply IHb; [exact E | exact R].
    + apply orb_false_iff in R. destruct R as [R R4]. apply orb_false_iff in R. destruct R as [R R3].
      apply orb_false_iff in R. destruct R as [R1 R2].
      destruct (run_block F truthy fn n body s d) as [[[[t1 o1] s1'] d1']|] eqn:E1; [|discriminate].
      pose proof (IHb _ _ _ _ _ _ _ E1 R1) as ->.
      destruct (run_block F truthy fn n orelse s1' d1') as [[[[t2 o2] s2] d2]|] eqn:E2; [|discriminate].
      pose proof (IHb _ _ _ _ _ _ _ E2 R3) as ->.
      destruct (run_block F truthy fn n final s2 d2) as [[[[t3 o3] s3] d3]|]; [|discriminate].
      destruct o3; [|discriminate]. injection H as _ <- _ _. reflexivity.
  - intros b s d tr o s1 d1 H R. destruct b as [|li st r]; simpl in H, R.
    + injection H as _ <- _ _. reflexivity.
    + apply orb_false_iff in R. destruct R as [R1 R2].
      destruct (run_stmt F truthy fn n st s d) as [[[[t0 o0] s0] d0]|] eqn:E; [|discriminate].
      pose proof (IHs _ _ _ _ _ _ _ E R1) as ->.
      destruct (run_block F truthy fn n r s0 d0) as [[[[t2 o2] s2] d2]|] eqn:E2; [|discriminate].
      injection H as _ <- _ _. eapply IHb; [exact E2 | exact R2].
  - intros l tg ext L body vs k s d tr o s1 d1 H R. simpl in H.
    destruct (ext_stop truthy ext s) as [[|]|]; [| |discriminate].
    + injection H as _ <- _ _. reflexivity.
    + destruct (dhead d).
      * destruct (run_block F truthy fn n body (write F (enter fn L s) l (vs ++ [k]) 0 tg) (dtail d)) as [[[[t0 o0] s0] d0]|] eqn:E; [|discriminate].
        pose proof (IHb _ _ _ _ _ _ _ E R) as ->.
        destruct (run_for F truthy fn n l tg ext L body vs (S k) (leave fn L s s0) d0) as [[[[t2 o2] s2] d2]|] eqn:E2; [|discriminate].
        injection H as _ <- _ _. eapply IHf; [exact E2 | exact R].
      * injection H as _ <- _ _. reflexivity.
Qed.

Lemma mem_app x X Y : mem x (X ++ Y) = mem x X || mem x Y.
Proof. unfold mem. apply existsb_app. Qed.
Lemma agree_app_l X Y s s' : agree (X ++ Y) s s' -> agree X s s'.
Proof. intros A x Hx. apply A. rewrite mem_app, Hx. reflexivity. Qed.
Lemma agree_app_r X Y s s' : agree (X ++ Y) s s' -> agree Y s s'.
Proof. intros A x Hx. apply A. rewrite mem_app, Hx. apply orb_true_r. Qed.

(* leaving a body function: what is needed of its locals *)
Lemma leave_post o out X L s1 s1' so (rb : bool) :
  post o out X s1 s1' -> disjoint L out = true -> (negb rb || disjoint L X) = true -> (o = FR -> rb = true) ->
  post o out X s1 (leave true L so s1').
Proof.
  intros P D DX R. destruct o; simpl in *.
  - apply leave_agree; assumption.
  - rewrite (R eq_refl) in DX. simpl in DX. apply leave_agree; assumption.
Qed.

Lemma hnth_chk hs Fn Fx k h : chk_hs hs Fn Fx = true -> hnth hs k = Some h ->
  chk_block h Fn Fx = true /\ (forall s s', agree (hins hs Fn ++ Fx) s s' -> agree (lin h Fn) s s').
Proof.
  revert k. induction hs as [|b r IH]; intros k C E; simpl in *; [discriminate|].
  apply andb_true_iff in C. destruct C as [Cb Cr]. destruct k.
  - injection E as <-. split; [exact Cb|]. intros s s' A. apply agree_app_l in A. apply agree_app_l in A. exact A.
  - destruct (IH k Cr E) as [C2 A2]. split; [exact C2|]. intros s s' A. apply A2.
    intros x Hx. apply A. rewrite !mem_app in *. apply orb_true_iff in Hx. destruct Hx as [Hx|Hx]; rewrite Hx; rewrite ?orb_true_r; reflexivity.
Qed.

Theorem fn_correct_all : forall n, ok_stmt n /\ ok_block n /\ ok_for n.
Proof.
  induction n as [|n [IHs [IHb IHf]]]; split; [| split | | split].
  - intros st li out X s s' d tr o s1 d1 _ _ H; discriminate.
  - intros b O X s s' d tr o s1 d1 _ _ H; discriminate.
  - intros l tg ext L body vs k li out X s s' d tr o s1 d1 _ _ _ _ _ _ _ H; discriminate.
  - intros st li out X s s' d tr o s1 d1 C A H.
    destruct st as [l us ds | l us L1 b1 L2 b2 | l us L body | l us tg ext L body | l us | l us ds body | body hs orelse final]; simpl in C, H |- *;
      repeat rewrite enter_false in H; repeat rewrite leave_false in H.
    + (* atom *)
      apply andb_true_iff in C. destruct C as [Cu Co].
      rewrite <- (reads_agree li s s' us A Cu). destruct (reads s us) as [vs|]; [|discriminate].
      injection H as <- <- <- <-. eexists; split; [reflexivity|]. simpl.
      apply write_agree. intros y Hy Hd. apply A. eapply subset_spec; [exact Co|]. rewrite mem_minus, Hy, Hd. reflexivity.
    + (* if *)
      repeat (apply andb_true_iff in C; destruct C as [C ?]).
      rename H0 into R2, H1 into R1, H2 into D2o, H3 into D2i, H4 into D1o, H5 into D1i, H6 into C2, H7 into C1, H8 into S2, H9 into S1.
      rewrite <- (reads_agree li s s' us A C). destruct (reads s us) as [vs|]; [|discriminate].
      destruct (dhead d); cbv iota in H |- *.
      * destruct (run_block F truthy false n b1 s (dtail d)) as [[[[tr0 o0] s0] d0]|] eqn:E; [|discriminate]. injection H as <- <- <- <-.
        destruct (IHb b1 out X s (enter true L1 s') (dtail d) tr0 o0 s0 d0 C1) as [s0' [R P0]]; [|exact E|].
        { apply enter_agree; [eapply agree_mono; eassumption | exact D1i]. }
        rewrite R. eexists; split; [reflexivity|].
        eapply leave_post; [exact P0 | exact D1o | exact R1|].
        intros ->. destruct (raises_block b1) eqn:RB; [reflexivity|].
        pose proof (proj1 (proj2 (no_raise false n)) _ _ _ _ _ _ _ E RB). discriminate.
      * destruct (run_block F truthy false n b2 s (dtail d)) as [[[[tr0 o0] s0] d0]|] eqn:E; [|discriminate]. injection H as <- <- <- <-.
        destruct (IHb b2 out X s (enter true L2 s') (dtail d) tr0 o0 s0 d0 C2) as [s0' [R P0]]; [|exact E|].
        { apply enter_agree; [eapply agree_mono; eassumption | exact D2i]. }
        rewrite R. eexists; split; [reflexivity|].
        eapply leave_post; [exact P0 | exact D2o | exact R2|].
        intros ->. destruct (raises_block b2) eqn:RB; [reflexivity|].
        pose proof (proj1 (proj2 (no_raise false n)) _ _ _ _ _ _ _ E RB). discriminate.
    + (* while *)
      pose proof C as C0.
      repeat (apply andb_true_iff in C; destruct C as [C ?]).
      rename H0 into RX, H1 into DL, H2 into Cb, H3 into So, H4 into Sb.
      rewrite <- (reads_agree li s s' us A C). destruct (reads s us) as [vs|]; [|discriminate].
      destruct (dhead d).
      * destruct (run_block F truthy false n body s (dtail d)) as [[[[tr0 o0] s0] d0]|] eqn:E; [|discriminate].
        destruct (IHb body li X s (enter true L s') (dtail d) tr0 o0 s0 d0 Cb) as [s0' [R P0]]; [|exact E|].
        { apply enter_agree; [eapply agree_mono; eassumption | eapply disjoint_mono; eassumption]. }
        rewrite R. destruct o0.
        -- change (leave false L s s0) with s0 in H.
           destruct (run_stmt F truthy false n (AWhile l us L body) s0 d0) as [[[[tr2 o2] s2] d2]|] eqn:E2; [|discriminate].
           injection H as <- <- <- <-.
           destruct (IHs (AWhile l us L body) li out X s0 (leave true L s' s0') d0 tr2 o2 s2 d2 C0) as [s2' [R2 P2]]; [|exact E2|].
           { apply leave_agree; assumption. }
           rewrite R2. eexists; split; [reflexivity | exact P2].
        -- injection H as <- <- <- <-. eexists; split; [reflexivity|]. simpl in P0 |- *.
           destruct (raises_block body) eqn:RB.
           ++ simpl in RX. apply leave_agree; assumption.
           ++ pose proof (proj1 (proj2 (no_raise false n)) _ _ _ _ _ _ _ E RB). discriminate.
      * injection H as <- <- <- <-. eexists; split; [reflexivity|]. simpl. eapply agree_mono; eassumption.
    + (* for *)
      repeat (apply andb_true_iff in C; destruct C as [C ?]).
      rename H0 into RX, H1 into Xe, H2 into DL, H3 into Cb, H4 into So, H5 into Sb.
      rewrite <- (reads_agree li s s' us A C). destruct (reads s us) as [vs|]; [|discriminate].
      destruct (run_for F truthy false n l tg ext L body vs 0 s d) as [[[[tr0 o0] s0] d0]|] eqn:E; [|discriminate]. injection H as <- <- <- <-.
      destruct (IHf l tg ext L body vs 0 li out X s s' d tr0 o0 s0 d0 Sb So Cb DL Xe RX A E) as [s0' [R P0]].
      rewrite R. eexists; split; [reflexivity | exact P0].
    + (* raise *)
      apply andb_true_iff in C. destruct C as [Cu Cx].
      rewrite <- (reads_agree li s s' us A Cu). destruct (reads s us) as [vs|]; [|discriminate].
      injection H as <- <- <- <-. eexists; split; [reflexivity|]. simpl. eapply agree_mono; eassumption.
    + (* with *)
      apply andb_true_iff in C. destruct C as [C Cb]. apply andb_true_iff in C. destruct C as [Cu Cl].
      rewrite <- (reads_agree li s s' us A Cu). destruct (reads s us) as [vs|]; [|discriminate].
      destruct (run_block F truthy false n body (write F s l vs 0 ds) d) as [[[[tr0 o0] s0] d0]|] eqn:E; [|discriminate]. injection H as <- <- <- <-.
      destruct (IHb body out X (write F s l vs 0 ds) (write F s' l vs 0 ds) d tr0 o0 s0 d0 Cb) as [s0' [R P0]]; [| exact E |].
      { apply write_agree. intros y Hy Hd. apply A. eapply subset_spec; [exact Cl|]. rewrite mem_minus, Hy, Hd. reflexivity. }
      rewrite R. eexists; split; [reflexivity | exact P0].
    + (* try *)
      repeat (apply andb_true_iff in C; destruct C as [C ?]).
      rename H0 into Cbody, H1 into Corelse, H2 into Chs, H3 into Cfinal.
      rename H4 into Cfinal2.
      set (Fn := lin final out) in *. set (Fx := lin final X) in *. set (E0 := lin orelse Fn) in *.
      destruct (run_block F truthy false n body s d) as [[[[tr1 o1] s1'] d1']|] eqn:E1; [|discriminate].
      destruct (IHb body E0 (hins hs Fn ++ Fx) s s' d tr1 o1 s1' d1' Cbody) as [t1 [R1 P1]]; [|exact E1|].
      { eapply agree_mono; eassumption. }
      rewrite R1.
      (* the part between the body and the finally clause, in both modes *)
      assert (MID : forall tr2 o2 s2 d2,
                match o1 with
                | FN => run_block F truthy false n orelse s1' d1'
                | FR => match hnth hs (dnat d1') with
                        | Some h => run_block F truthy false n h s1' (dtail d1')
                        | None => Some ([], FR, s1', dtail d1')
                        end
                end = Some (tr2, o2, s2, d2) ->
                exists t2, match o1 with
                | FN => run_block F truthy true n orelse t1 d1'
                | FR => match hnth hs (dnat d1') with
                        | Some h => run_block F truthy true n h t1 (dtail d1')
                        | None => Some ([], FR, t1, dtail d1')
                        end
                end = Some (tr2, o2, t2, d2) /\ post o2 Fn Fx s2 t2).
      { intros tr2 o2 s2 d2 M. destruct o1; simpl in P1.
        - destruct (IHb orelse Fn Fx s1' t1 d1' tr2 o2 s2 d2 Corelse P1 M) as [t2 [R2 P2]].
          exists t2. split; [exact R2 | exact P2].
        - destruct (hnth hs (dnat d1')) as [h|] eqn:EH.
          + destruct (hnth_chk hs Fn Fx _ _ Chs EH) as [Ch Ah].
            destruct (IHb h Fn Fx s1' t1 (dtail d1') tr2 o2 s2 d2 Ch (Ah _ _ P1) M) as [t2 [R2 P2]].
            exists t2. split; [exact R2 | exact P2].
          + injection M as <- <- <- <-. exists t1. split; [reflexivity|]. simpl. apply agree_app_r in P1. exact P1. }
      destruct (match o1 with
                | FN => run_block F truthy false n orelse s1' d1'
                | FR => match hnth hs (dnat d1') with
                        | Some h => run_block F truthy false n h s1' (dtail d1')
                        | None => Some ([], FR, s1', dtail d1')
                        end
                end) as [[[[tr2 o2] s2] d2]|] eqn:EM; [|discriminate].
      destruct (MID tr2 o2 s2 d2 eq_refl) as [t2 [R2 A2]]. rewrite R2.
      destruct (run_block F truthy false n final s2 d2) as [[[[tr3 o3] s3] d3]|] eqn:E3; [|discriminate].
      destruct o3; [|discriminate]. injection H as <- <- <- <-.
      destruct o2; simpl in A2.
      * destruct (IHb final out X s2 t2 d2 tr3 FN s3 d3 Cfinal2 A2 E3) as [t3 [R3 P3]]. rewrite R3.
        eexists; split; [reflexivity | exact P3].
      * destruct (IHb final X X s2 t2 d2 tr3 FN s3 d3 Cfinal A2 E3) as [t3 [R3 P3]]. rewrite R3.
        eexists; split; [reflexivity | exact P3].
  - intros b O X s s' d tr o s1 d1 C A H. destruct b as [|li st r]; simpl in C, H |- *.
    + injection H as <- <- <- <-. eexists; split; [reflexivity | exact A].
    + apply andb_true_iff in C. destruct C as [Cs Cr]. simpl in A.
      destruct (run_stmt F truthy false n st s d) as [[[[tr0 o0] s0] d0]|] eqn:E; [|discriminate].
      destruct (IHs st li (lin r O) X s s' d tr0 o0 s0 d0 Cs A E) as [s0' [R P0]]. rewrite R.
      destruct o0.
      * destruct (run_block F truthy false n r s0 d0) as [[[[tr2 o2] s2] d2]|] eqn:E2; [|discriminate].
        injection H as <- <- <- <-.
        destruct (IHb r O X s0 s0' d0 tr2 o2 s2 d2 Cr P0 E2) as [s2' [R2 P2]]. rewrite R2.
        eexists; split; [reflexivity | exact P2].
      * injection H as <- <- <- <-. eexists; split; [reflexivity | exact P0].
  - (* the iterations of a for loop *)
    intros l tg ext L body vs k li out X s s' d tr o s1 d1 Sb So Cb DL Xe RX A H. simpl in H |- *.
    assert (EX : ext_stop truthy ext s' = ext_stop truthy ext s).
    { clear -A Xe. induction ext as [|x r IH]; simpl; [reflexivity|]. simpl in Xe. apply andb_true_iff in Xe. destruct Xe as [Xx Xr].
      rewrite (A x Xx), (IH Xr). reflexivity. }
    rewrite EX. destruct (ext_stop truthy ext s) as [[|]|]; [| |discriminate].
    { injection H as <- <- <- <-. eexists; split; [reflexivity|]. simpl. eapply agree_mono; eassumption. }
    destruct (dhead d).
    + rewrite enter_false in H.
      destruct (run_block F truthy false n body (write F s l (vs ++ [k]) 0 tg) (dtail d)) as [[[[tr0 o0] s0] d0]|] eqn:E; [|discriminate].
      destruct (IHb body li X (write F s l (vs ++ [k]) 0 tg) (write F (enter true L s') l (vs ++ [k]) 0 tg) (dtail d) tr0 o0 s0 d0 Cb)
        as [s0' [R P0]]; [|exact E|].
      { apply write_agree. intros y Hy Hd. unfold enter.
        assert (M : mem y li = true) by (eapply subset_spec; [exact Sb|]; rewrite mem_minus, Hy, Hd; reflexivity).
        rewrite (disjoint_spec _ _ DL y M). apply A, M. }
      rewrite R. destruct o0.
      * change (leave false L s s0) with s0 in H.
        destruct (run_for F truthy false n l tg ext L body vs (S k) s0 d0) as [[[[tr2 o2] s2] d2]|] eqn:E2; [|discriminate].
        injection H as <- <- <- <-.
        destruct (IHf l tg ext L body vs (S k) li out X s0 (leave true L s' s0') d0 tr2 o2 s2 d2 Sb So Cb DL Xe RX) as [s2' [R2 P2]]; [|exact E2|].
        { apply leave_agree; assumption. }
        rewrite R2. eexists; split; [reflexivity | exact P2].
      * injection H as <- <- <- <-. eexists; split; [reflexivity|]. simpl in P0 |- *.
        destruct (raises_block body) eqn:RB.
        -- simpl in RX. apply leave_agree; assumption.
        -- pose proof (proj1 (proj2 (no_raise false n)) _ _ _ _ _ _ _ E RB). discriminate.
    + injection H as <- <- <- <-. eexists; split; [reflexivity|]. simpl. eapply agree_mono; eassumption.
Qed.
End Proofs.

(* The locality conditions follow from how control_flow.py selects the state variables (property C02, theorem
   state_complete): if every assigned name that is live into or out of the statement is a state variable
   (declared nonlocal), then no local of the generated body function -- an assigned name that is not a state
   variable -- is live there. *)
Lemma locals_not_live (L M S li out : list var) :
  subset L (minus M S) = true ->
  (forall x, mem x M = true -> mem x li = true \/ mem x out = true -> mem x S = true) ->
  disjoint L li = true /\ disjoint L out = true.
Proof.
  intros HL HS. assert (K : forall x, mem x L = true -> mem x M = true /\ mem x S = false).
  { intros x Hx. pose proof (subset_spec _ _ HL x Hx) as Hm. rewrite mem_minus in Hm.
    apply andb_true_iff in Hm. destruct Hm as [A B]. apply negb_true_iff in B. auto. }
  assert (D : forall X, (forall x, mem x X = true -> mem x li = true \/ mem x out = true) -> disjoint L X = true).
  { intros X HX. unfold disjoint. apply forallb_forall. intros x Hx.
    assert (Hm : mem x L = true) by (unfold mem; apply existsb_exists; exists x; split; [exact Hx | apply Nat.eqb_refl]).
    destruct (K x Hm) as [A B]. destruct (mem x X) eqn:E; [|reflexivity].
    rewrite (HS x A (HX x E)) in B. discriminate. }
  split; apply D; auto.
Qed.

(* every terminating, non-stuck run of the original from a store is matched by the functional form started in
   any store that agrees on what is live at entry: same events with the same values read, same decisions
   consumed, and the final stores agree on the variables in O (what is live at the exit) *)
Theorem functionalise_correct_lemma : forall F truthy n b O X s s' d tr o s1 d1,
  chk_block b O X = true -> agree (lin b O) s s' ->
  run_block F truthy false n b s d = Some (tr, o, s1, d1) ->
  exists s1', run_block F truthy true n b s' d = Some (tr, o, s1', d1) /\
              match o with FN => agree O s1 s1' | FR => agree X s1 s1' end.
Proof. intros F truthy n. exact (proj1 (proj2 (fn_correct_all F truthy n))). Qed.
