(* C01 / call_trees pass: the rewritten call evaluates the callee expression, the arguments, the unpackings and the
   keywords in the order of the native call, makes the same call with the same flattened arguments (or raises the same
   TypeError at the same point), for every expression, every behaviour of the opaque operations, of iteration, of
   mappings and of callees, and any fuel -- assuming ag__.converted_call(f, args, kwargs) calls f with those positional and keyword arguments
   (that is property C13). *)
From Coq Require Import List Arith Bool.
Import ListNotations.
Require Import MV.Calls.CallLang.

Section P.
  Variable opres : label -> list val -> option val.
  Variable items : val -> option (list val).
  Variable pairs : val -> option (list (nat * val)).
  Variable callres : val -> list val -> list (nat * val) -> option val.

  Notation ev := (ev opres items pairs callres).
  Notation evs := (evs opres items pairs callres).
  Notation eva := (eva opres items pairs callres).
  Notation evk := (evk opres items pairs callres).
  Notation evd := (evd opres items pairs callres).

  Lemma bind_ext {A B} (r : res A) (f g : A -> list event -> res B) :
    (forall a t, f a t = g a t) -> bind r f = bind r g.
  Proof. intros H. destruct r; simpl; auto. Qed.

  Lemma ev_op n l es t : ev (S n) (EOp l es) t =
    bind (evs n es t) (fun vs t1 => let t2 := t1 ++ [EvOp l vs] in
                                    match opres l vs with Some r => Ok r t2 | None => Raise 2 t2 end).
  Proof. reflexivity. Qed.
  Lemma ev_call n k f ps ks t : deferred ps ks = false -> ev (S n) (ECall k f ps ks) t =
    bind (ev n f t) (fun fv t1 => bind (eva n ps t1) (fun pv t2 =>
    bind (evd n (KDict ks) t2) (fun kv t3 => do_call callres fv pv kv t3))).
  Proof. intros H. cbn [CallLang.ev]. rewrite H. reflexivity. Qed.
  Lemma ev_call_deferred n k f pe ks t : deferred (AStar pe ANil) ks = true ->
    ev (S n) (ECall k f (AStar pe ANil) ks) t =
    bind (ev n f t) (fun fv t1 =>
    bind (eva n (APos pe ANil) t1) (fun vs t2 =>
    bind (evd n (KDict ks) t2) (fun kv t3 =>
      match vs with
      | [v] => let t4 := t3 ++ [EvIter v] in
               match items v with None => Raise TYPE_ERROR t4 | Some xs => do_call callres fv xs kv t4 end
      | _ => Fuel
      end))).
  Proof. intros H. cbn [CallLang.ev]. rewrite H. reflexivity. Qed.
  Lemma ev_conv n f ps d t : ev (S n) (EConv f ps d) t =
    bind (ev n f t) (fun fv t1 => bind (eva n ps t1) (fun pv t2 =>
    bind (evd n d t2) (fun kv t3 => do_call callres fv pv kv t3))).
  Proof. reflexivity. Qed.
  Lemma evs_cons n e r t : evs (S n) (ECons e r) t =
    bind (ev n e t) (fun v t1 => bind (evs n r t1) (fun vs t2 => Ok (v :: vs) t2)).
  Proof. reflexivity. Qed.
  Lemma eva_pos n e r t : eva (S n) (APos e r) t =
    bind (ev n e t) (fun v t1 => bind (eva n r t1) (fun vs t2 => Ok (v :: vs) t2)).
  Proof. reflexivity. Qed.
  Lemma eva_star n e r t : eva (S n) (AStar e r) t =
    bind (ev n e t) (fun v t1 => let t2 := t1 ++ [EvIter v] in
      match items v with None => Raise TYPE_ERROR t2
      | Some xs => bind (eva n r t2) (fun vs t3 => Ok (xs ++ vs) t3) end).
  Proof. reflexivity. Qed.
  Lemma evk_named n k e r t : evk (S n) (KNamed k e r) t =
    bind (ev n e t) (fun v t1 => bind (evk n r t1) (fun kv t2 => Ok ((k, v) :: kv) t2)).
  Proof. reflexivity. Qed.
  Lemma evk_star n e r t : evk (S n) (KStar e r) t =
    bind (ev n e t) (fun v t1 => let t2 := t1 ++ [EvKeys v] in
      match pairs v with None => Raise TYPE_ERROR t2
      | Some xs => bind (evk n r t2) (fun kv t3 => Ok (xs ++ kv) t3) end).
  Proof. reflexivity. Qed.
  Lemma evd_none n t : evd (S n) KNone t = evk n KNil t.  Proof. reflexivity. Qed.
  Lemma evd_display n ks t : evd (S n) (KDisplay ks) t = evk n ks t.  Proof. reflexivity. Qed.
  Lemma evd_dict n ks t : evd (S n) (KDict ks) t = evk n ks t.  Proof. reflexivity. Qed.

  Lemma evd_forms n ks t :
    evd n (if kws_empty ks then KNone else if all_named ks then KDisplay (ctk ks) else KDict (ctk ks)) t
    = evd n (KDict (ctk ks)) t.
  Proof.
    destruct n as [|n]; [reflexivity|].
    destruct ks as [|k e r|e r]; cbn [kws_empty all_named ctk]; [rewrite evd_none, evd_dict; reflexivity| |reflexivity].
    destruct (all_named r); [rewrite evd_display, evd_dict|]; reflexivity.
  Qed.

  Lemma deferred_cta ps ks : deferred (cta ps) (ctk ks) = deferred ps ks.
  Proof.
    unfold deferred. f_equal.
    - destruct ps as [|e r|e r]; try reflexivity. destruct r; reflexivity.
    - destruct ks; reflexivity.
  Qed.

  Theorem ct_correct_all : forall n,
    (forall e t, ok e = true -> ev n (ct e) t = ev n e t) /\
    (forall es t, oks es = true -> evs n (cts es) t = evs n es t) /\
    (forall ps t, oka ps = true -> eva n (cta ps) t = eva n ps t) /\
    (forall ks t, okk ks = true -> evk n (ctk ks) t = evk n ks t) /\
    (forall d t, okd d = true -> evd n (ctd d) t = evd n d t).
  Proof.
    induction n as [|n [IHe [IHs [IHa [IHk IHd]]]]]; [repeat split; reflexivity|].
    assert (Hd : forall ks t, okk ks = true -> evd n (KDict (ctk ks)) t = evd n (KDict ks) t) by (intros; apply (IHd (KDict ks)); assumption).
    repeat split.
    - intros e t H. destruct e as [l es|k f ps ks|f ps d]; cbn [ok] in H.
      + cbn [ct]. rewrite !ev_op, IHs by exact H. reflexivity.
      + apply andb_true_iff in H. destruct H as [H H4]. apply andb_true_iff in H. destruct H as [H H3].
        apply andb_true_iff in H. destruct H as [H1 H2].
        destruct k; cbn [ct].
        * apply negb_true_iff in H4.
          rewrite ev_conv, ev_call, IHe by assumption. apply bind_ext. intros fv t1. rewrite IHa by assumption. apply bind_ext. intros pv t2.
          rewrite evd_forms, Hd by assumption. reflexivity.
        * destruct (deferred ps ks) eqn:D.
          -- (* a call that is left alone keeps whatever order it has *)
             pose proof D as D0. unfold deferred in D0. apply andb_true_iff in D0. destruct D0 as [D0 _].
             destruct ps as [|e r|e r]; try discriminate. destruct r; try discriminate. cbn [cta].
             assert (D' : deferred (AStar (ct e) ANil) (ctk ks) = true) by (rewrite <- D; apply (deferred_cta (AStar e ANil) ks)).
             rewrite !ev_call_deferred by assumption. rewrite IHe by assumption. apply bind_ext. intros fv t1.
             cbn [oka] in H2. apply andb_true_iff in H2. destruct H2 as [H2 _].
             assert (E : eva n (APos (ct e) ANil) t1 = eva n (APos e ANil) t1).
             { apply (IHa (APos e ANil)). cbn [oka]. rewrite H2. reflexivity. }
             rewrite E. apply bind_ext. intros vs t2. rewrite Hd by assumption. reflexivity.
          -- rewrite !ev_call by (rewrite ?deferred_cta; assumption). rewrite IHe by assumption.
             apply bind_ext. intros fv t1. rewrite IHa by assumption. apply bind_ext. intros pv t2.
             rewrite Hd by assumption. reflexivity.
      + apply andb_true_iff in H. destruct H as [H H3]. apply andb_true_iff in H. destruct H as [H1 H2].
        cbn [ct]. rewrite !ev_conv, IHe by assumption. apply bind_ext. intros fv t1. rewrite IHa by assumption. apply bind_ext. intros pv t2.
        rewrite IHd by assumption. reflexivity.
    - intros es t H. destruct es as [|e r]; cbn [cts]; [reflexivity|]. cbn [oks] in H. apply andb_true_iff in H. destruct H as [H1 H2].
      rewrite !evs_cons, IHe by assumption. apply bind_ext. intros v t1. rewrite IHs by assumption. reflexivity.
    - intros ps t H. destruct ps as [|e r|e r]; cbn [cta]; [reflexivity| |]; cbn [oka] in H; apply andb_true_iff in H; destruct H as [H1 H2].
      + rewrite !eva_pos, IHe by assumption. apply bind_ext. intros v t1. rewrite IHa by assumption. reflexivity.
      + rewrite !eva_star, IHe by assumption. apply bind_ext. intros v t1. cbv zeta. destruct (items v); [|reflexivity]. rewrite IHa by assumption. reflexivity.
    - intros ks t H. destruct ks as [|k e r|e r]; cbn [ctk]; [reflexivity| |]; cbn [okk] in H; apply andb_true_iff in H; destruct H as [H1 H2].
      + rewrite !evk_named, IHe by assumption. apply bind_ext. intros v t1. rewrite IHk by assumption. reflexivity.
      + rewrite !evk_star, IHe by assumption. apply bind_ext. intros v t1. cbv zeta. destruct (pairs v); [|reflexivity]. rewrite IHk by assumption. reflexivity.
    - intros d t H. destruct d as [|ks|ks]; cbn [ctd]; cbn [okd] in H.
      + reflexivity.
      + rewrite !evd_display. apply IHk. exact H.
      + rewrite !evd_dict. apply IHk. exact H.
  Qed.

  Theorem call_trees_correct_lemma : forall n e t, ok e = true -> ev n (ct e) t = ev n e t.
  Proof. intros n. exact (proj1 (ct_correct_all n)). Qed.
End P.
