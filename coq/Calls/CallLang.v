(* C01 / call_trees pass (malt/converters/call_trees.py): every call of user code f(a, *b, k=v, **m) becomes
   ag__.converted_call(f, (a, *b), {'k': v} | dict(k=v, **m) | None, fscope).  Expressions are opaque operations over
   sub-expressions in evaluation order, plus calls in native and rewritten form.  Events: every opaque operation, every
   unpacking of a starred argument (iteration) or of a ** argument (keys), every call with its flattened arguments. *)
From Coq Require Import List Arith Bool.
Import ListNotations.

Definition label := nat.

Inductive ckind := CUser | CSkip.      (* CSkip: ag__.*, the function-scope object, pdb.set_trace / breakpoint, print without
                                          BUILTIN_FUNCTIONS -- left as a native call, arguments still visited *)

Inductive expr :=
  | EOp (l : label) (es : exprs)                       (* any other expression node *)
  | ECall (k : ckind) (f : expr) (ps : args) (ks : kws)  (* f(ps, ks) *)
  | EConv (f : expr) (ps : args) (d : kwform)           (* ag__.converted_call(f, (ps), d, fscope) *)
with exprs := ENil | ECons (e : expr) (r : exprs)
with args := ANil | APos (e : expr) (r : args) | AStar (e : expr) (r : args)
with kws := KNil | KNamed (k : nat) (e : expr) (r : kws) | KStar (e : expr) (r : kws)
with kwform := KNone | KDisplay (ks : kws) | KDict (ks : kws).   (* None | {'k': v, ...} (named only) | dict(k=v, **m) *)

Scheme expr_i := Induction for expr Sort Prop
  with exprs_i := Induction for exprs Sort Prop
  with args_i := Induction for args Sort Prop
  with kws_i := Induction for kws Sort Prop
  with kwform_i := Induction for kwform Sort Prop.
Combined Scheme expr_all_ind from expr_i, exprs_i, args_i, kws_i, kwform_i.

Fixpoint all_named (ks : kws) : bool :=
  match ks with KNil => true | KNamed _ _ r => all_named r | KStar _ _ => false end.
Definition kws_empty (ks : kws) : bool := match ks with KNil => true | _ => false end.
(* f( *x, k=v): CPython hands a single starred argument to the call as it is and unpacks it when the call is made, AFTER
   the keyword arguments have been evaluated; with any other positional argument the unpacking happens where the
   starred argument stands (as in a tuple display) *)
Definition sole_star (ps : args) : bool := match ps with AStar _ ANil => true | _ => false end.
Definition deferred (ps : args) (ks : kws) : bool := sole_star ps && negb (kws_empty ks).
Definition star_expr (ps : args) : option expr := match ps with AStar e ANil => Some e | _ => None end.

(* the calls for which the rewritten form keeps the order of evaluation *)
Fixpoint ok (e : expr) : bool :=
  match e with
  | EOp _ es => oks es
  | ECall k f ps ks => ok f && oka ps && okk ks && match k with CUser => negb (deferred ps ks) | CSkip => true end
  | EConv f ps d => ok f && oka ps && okd d
  end
with oks (es : exprs) : bool := match es with ENil => true | ECons e r => ok e && oks r end
with oka (ps : args) : bool := match ps with ANil => true | APos e r => ok e && oka r | AStar e r => ok e && oka r end
with okk (ks : kws) : bool := match ks with KNil => true | KNamed _ e r => ok e && okk r | KStar e r => ok e && okk r end
with okd (d : kwform) : bool := match d with KNone => true | KDisplay ks => okk ks | KDict ks => okk ks end.

(* the pass *)
Fixpoint ct (e : expr) : expr :=
  match e with
  | EOp l es => EOp l (cts es)
  | ECall CUser f ps ks =>
      EConv (ct f) (cta ps) (if kws_empty ks then KNone else if all_named ks then KDisplay (ctk ks) else KDict (ctk ks))
  | ECall CSkip f ps ks => ECall CSkip (ct f) (cta ps) (ctk ks)
  | EConv f ps d => EConv (ct f) (cta ps) (ctd d)
  end
with cts (es : exprs) : exprs := match es with ENil => ENil | ECons e r => ECons (ct e) (cts r) end
with cta (ps : args) : args :=
  match ps with ANil => ANil | APos e r => APos (ct e) (cta r) | AStar e r => AStar (ct e) (cta r) end
with ctk (ks : kws) : kws :=
  match ks with KNil => KNil | KNamed k e r => KNamed k (ct e) (ctk r) | KStar e r => KStar (ct e) (ctk r) end
with ctd (d : kwform) : kwform :=
  match d with KNone => KNone | KDisplay ks => KDisplay (ctk ks) | KDict ks => KDict (ctk ks) end.

(* ------------------------------------------------------------------ semantics *)
Definition val := nat.
Inductive event :=
  | EvOp (l : label) (vs : list val)
  | EvIter (v : val)                    (* a starred argument is unpacked *)
  | EvKeys (v : val)                    (* a ** argument is unpacked *)
  | EvCall (f : val) (ps : list val) (ks : list (nat * val)).
Inductive res (A : Type) := Ok (a : A) (t : list event) | Raise (c : nat) (t : list event) | Fuel.
Arguments Ok {A} a t. Arguments Raise {A} c t. Arguments Fuel {A}.

Definition TYPE_ERROR : nat := 1.

Section Sem.
  Variable opres : label -> list val -> option val.        (* None: the operation raises (code 2) *)
  Variable items : val -> option (list val).               (* iteration of a value; None: not iterable (TypeError) *)
  Variable pairs : val -> option (list (nat * val)).       (* the items of a mapping; None: not a mapping (TypeError) *)
  Variable callres : val -> list val -> list (nat * val) -> option val.   (* None: the callee raises (code 3) *)

  Fixpoint has_key (k : nat) (l : list (nat * val)) : bool :=
    match l with [] => false | (k', _) :: r => Nat.eqb k k' || has_key k r end.
  (* a key given twice: the call (and dict()) raise TypeError *)
  Fixpoint dup (l : list (nat * val)) : bool :=
    match l with [] => false | (k, _) :: r => has_key k r || dup r end.

  Definition bind {A B} (r : res A) (f : A -> list event -> res B) : res B :=
    match r with Ok a t => f a t | Raise c t => Raise c t | Fuel => Fuel end.

  Definition do_call (fv : val) (ps : list val) (ks : list (nat * val)) (t : list event) : res val :=
    if dup ks then Raise TYPE_ERROR t
    else let t1 := t ++ [EvCall fv ps ks] in
         match callres fv ps ks with Some r => Ok r t1 | None => Raise 3 t1 end.

  Fixpoint ev (n : nat) (e : expr) (t : list event) : res val :=
    match n with
    | 0 => Fuel
    | S n' =>
      match e with
      | EOp l es =>
          bind (evs n' es t) (fun vs t1 =>
            let t2 := t1 ++ [EvOp l vs] in
            match opres l vs with Some r => Ok r t2 | None => Raise 2 t2 end)
      | ECall _ f ps ks =>
          if deferred ps ks then
            bind (ev n' f t) (fun fv t1 =>
            match star_expr ps with
            | None => Fuel
            | Some pe =>
              bind (eva n' (APos pe ANil) t1) (fun vs t2 =>
              bind (evd n' (KDict ks) t2) (fun kv t3 =>
                match vs with
                | [v] => let t4 := t3 ++ [EvIter v] in
                         match items v with None => Raise TYPE_ERROR t4 | Some xs => do_call fv xs kv t4 end
                | _ => Fuel
                end))
            end)
          else
          bind (ev n' f t) (fun fv t1 =>
          bind (eva n' ps t1) (fun pv t2 =>
          bind (evd n' (KDict ks) t2) (fun kv t3 => do_call fv pv kv t3)))     (* the keywords of a call *)
      | EConv f ps d =>
          bind (ev n' f t) (fun fv t1 =>
          bind (eva n' ps t1) (fun pv t2 =>          (* the tuple display *)
          bind (evd n' d t2) (fun kv t3 => do_call fv pv kv t3)))
      end
    end
  with evs (n : nat) (es : exprs) (t : list event) : res (list val) :=
    match n with
    | 0 => Fuel
    | S n' =>
      match es with
      | ENil => Ok [] t
      | ECons e r => bind (ev n' e t) (fun v t1 => bind (evs n' r t1) (fun vs t2 => Ok (v :: vs) t2))
      end
    end
  with eva (n : nat) (ps : args) (t : list event) : res (list val) :=
    match n with
    | 0 => Fuel
    | S n' =>
      match ps with
      | ANil => Ok [] t
      | APos e r => bind (ev n' e t) (fun v t1 => bind (eva n' r t1) (fun vs t2 => Ok (v :: vs) t2))
      | AStar e r =>
          bind (ev n' e t) (fun v t1 =>
            let t2 := t1 ++ [EvIter v] in
            match items v with
            | None => Raise TYPE_ERROR t2
            | Some xs => bind (eva n' r t2) (fun vs t3 => Ok (xs ++ vs) t3)
            end)
      end
    end
  with evk (n : nat) (ks : kws) (t : list event) : res (list (nat * val)) :=
    match n with
    | 0 => Fuel
    | S n' =>
      match ks with
      | KNil => Ok [] t
      | KNamed k e r => bind (ev n' e t) (fun v t1 => bind (evk n' r t1) (fun kv t2 => Ok ((k, v) :: kv) t2))
      | KStar e r =>
          bind (ev n' e t) (fun v t1 =>
            let t2 := t1 ++ [EvKeys v] in
            match pairs v with
            | None => Raise TYPE_ERROR t2
            | Some xs => bind (evk n' r t2) (fun kv t3 => Ok (xs ++ kv) t3)
            end)
      end
    end
  with evd (n : nat) (d : kwform) (t : list event) : res (list (nat * val)) :=
    match n with
    | 0 => Fuel
    | S n' =>
      match d with
      | KNone => evk n' KNil t
      | KDisplay ks => evk n' ks t       (* named entries only: evaluated in order, no unpacking *)
      | KDict ks => evk n' ks t          (* dict(k=v, **m): the evaluation of a call's keywords; a key given twice raises
                                            TypeError -- do_call reports it at the same point of the trace *)
      end
    end.
End Sem.
