(* C01 / call_trees pass: executable checks evaluated on every run: (a) the model ct against the real pass on every
   maximal expression of generated programs (expressions the pass must leave alone -- with-items -- are compared for
   identity); (b) the semantics of native and rewritten calls against CPython. *)
From Coq Require Import List Arith Bool.
Import ListNotations.
Require Import MV.Calls.CallLang.

Definition ckind_beq (a b : ckind) := match a, b with CUser, CUser | CSkip, CSkip => true | _, _ => false end.

Fixpoint expr_beq (a b : expr) : bool :=
  match a, b with
  | EOp l es, EOp m fs => Nat.eqb l m && exprs_beq es fs
  | ECall k f ps ks, ECall j g qs js => ckind_beq k j && expr_beq f g && args_beq ps qs && kws_beq ks js
  | EConv f ps d, EConv g qs c => expr_beq f g && args_beq ps qs && kwform_beq d c
  | _, _ => false
  end
with exprs_beq (a b : exprs) : bool :=
  match a, b with
  | ENil, ENil => true
  | ECons e r, ECons f q => expr_beq e f && exprs_beq r q
  | _, _ => false
  end
with args_beq (a b : args) : bool :=
  match a, b with
  | ANil, ANil => true
  | APos e r, APos f q => expr_beq e f && args_beq r q
  | AStar e r, AStar f q => expr_beq e f && args_beq r q
  | _, _ => false
  end
with kws_beq (a b : kws) : bool :=
  match a, b with
  | KNil, KNil => true
  | KNamed k e r, KNamed j f q => Nat.eqb k j && expr_beq e f && kws_beq r q
  | KStar e r, KStar f q => expr_beq e f && kws_beq r q
  | _, _ => false
  end
with kwform_beq (a b : kwform) : bool :=
  match a, b with
  | KNone, KNone => true
  | KDisplay x, KDisplay y => kws_beq x y
  | KDict x, KDict y => kws_beq x y
  | _, _ => false
  end.

Definition gcase := (nat * bool * expr * expr)%type.     (* id, visited by the pass?, before, after *)
Definition check_gcase (c : gcase) : bool :=
  let '(_, touched, a, b) := c in if touched then expr_beq (ct a) b else expr_beq a b.
Definition failing_gcases (cs : list gcase) : list nat :=
  map (fun c => let '(n, _, _, _) := c in n) (filter (fun c => negb (check_gcase c)) cs).

(* ---- semantics against CPython: values are small numbers; value v iterates to [v+1; v+2] (odd v) / is not iterable
   (v = 0 mod 4) / [] otherwise; as a mapping it has the items [(v mod 3, v+5)] (v odd) / is not a mapping (v = 2 mod 4)
   / is empty otherwise *)
Definition opres_std (l : label) (vs : list val) : option val :=
  let r := (l * 5 + 3 * fold_right Nat.add 0 vs + 1) mod 13 in if Nat.eqb r 12 then None else Some r.
Definition items_std (v : val) : option (list val) :=
  if Nat.eqb (v mod 4) 0 then None else if Nat.odd v then Some [v + 1; v + 2] else Some [].
Definition pairs_std (v : val) : option (list (nat * val)) :=
  if Nat.eqb (v mod 4) 2 then None else if Nat.odd v then Some [(v mod 3 + 3, v + 5)] else Some [].
Definition callres_std (f : val) (ps : list val) (ks : list (nat * val)) : option val :=
  let r := (f + 2 * fold_right Nat.add 0 ps + 7 * fold_right (fun p a => fst p + snd p + a) 0 ks) mod 13 in
  if Nat.eqb r 11 then None else Some r.

Fixpoint nats_beq (a b : list nat) : bool :=
  match a, b with [] , [] => true | x :: r, y :: q => Nat.eqb x y && nats_beq r q | _, _ => false end.
Fixpoint pairs_beq (a b : list (nat * nat)) : bool :=
  match a, b with [], [] => true | (x, y) :: r, (u, v) :: q => Nat.eqb x u && Nat.eqb y v && pairs_beq r q | _, _ => false end.
Definition event_beq (a b : event) : bool :=
  match a, b with
  | EvOp l x, EvOp m y => Nat.eqb l m && nats_beq x y
  | EvIter x, EvIter y | EvKeys x, EvKeys y => Nat.eqb x y
  | EvCall f p k, EvCall g q j => Nat.eqb f g && nats_beq p q && pairs_beq k j
  | _, _ => false
  end.
Fixpoint events_beq (a b : list event) : bool :=
  match a, b with [], [] => true | x :: r, y :: q => event_beq x y && events_beq r q | _, _ => false end.

(* id, expression, CPython's result for the native form and for the rewritten form: value / exception code, trace *)
Definition expect := (bool * nat * list event)%type.
Definition vcase := (nat * expr * expect * expect)%type.
Definition meets (r : res val) (x : expect) : bool :=
  let '(isval, c, tr) := x in
  match r with
  | Ok v t => isval && Nat.eqb v c && events_beq t tr
  | Raise k t => negb isval && Nat.eqb k c && events_beq t tr
  | Fuel => false
  end.
Definition check_vcase (c : vcase) : bool :=
  let '(_, e, xn, xr) := c in
  meets (ev opres_std items_std pairs_std callres_std 60 e []) xn &&
  meets (ev opres_std items_std pairs_std callres_std 60 (ct e) []) xr.
Definition failing_vcases (cs : list vcase) : list nat :=
  map (fun c => let '(n, _, _, _) := c in n) (filter (fun c => negb (check_vcase c)) cs).
