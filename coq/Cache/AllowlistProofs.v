(* C10 -- the allowlist cache never makes an enabled request run unconverted
   code, provided no context-dependent exit writes it. *)
From Coq Require Import List Arith Bool Lia.
Import ListNotations.
Require Import MV.Cache.Allowlist.

Section A.
Variable static : akey -> bool.
Variable x : exits.
Hypothesis Hx : exits_ok x = true.

Definition AInv (s : astate) : Prop :=
  (forall k, al s k = true -> static k = true) /\
  (forall tid k, pending s tid = Some k -> static k = true) /\
  (forall r c, In (r, c) (alog s) -> a_disabled r = false -> static (a_key r) = false -> c = true).

Lemma ainv_init : AInv ainit.
Proof. repeat split; simpl; intros; try discriminate; contradiction. Qed.

Lemma ainv_step : forall s l s', AInv s -> astep static x s l = Some s' -> AInv s'.
Proof.
  intros s l s' (I1 & I2 & I3) Hs.
  assert (Hc : ctx_exit_writes x = false).
  { unfold exits_ok in Hx. destruct (ctx_exit_writes x); simpl in Hx; auto; discriminate. }
  destruct l as [tid r|tid]; simpl in Hs.
  - destruct (pending s tid) eqn:Hp; [discriminate|].
    destruct (al s (a_key r)) eqn:Ha.
    + inversion Hs; subst s'; simpl. repeat split; auto; simpl.
      intros r0 c [H|H] Hd Hst; [inversion H; subst; pose proof (I1 _ Ha); congruence|eauto].
    + destruct (a_disabled r) eqn:Hd.
      * inversion Hs; subst s'; simpl. rewrite Hc; simpl. repeat split; auto; simpl.
        -- intros j k. destruct (Nat.eqb j tid); [intros Hq; discriminate Hq|apply I2].
        -- intros r0 c [H|H] Hd0 Hst; [inversion H; subst; congruence|eauto].
      * destruct (static (a_key r)) eqn:Hst.
        -- inversion Hs; subst s'; simpl. repeat split; auto; simpl.
           ++ intros j k. destruct (Nat.eqb j tid); [|apply I2].
              destruct (static_exit_writes x); [|intros Hq; discriminate Hq]. intros H; inversion H; subst; auto.
           ++ intros r0 c [H|H] Hd0 Hst0; [inversion H; subst; congruence|eauto].
        -- inversion Hs; subst s'; simpl. repeat split; auto; simpl.
           intros r0 c [H|H] Hd0 Hst0; [inversion H; subst; auto|eauto].
  - destruct (pending s tid) as [k|] eqn:Hp; [|discriminate].
    inversion Hs; subst s'; simpl. repeat split; auto; simpl.
    + intros j. destruct (akey_eqb j k) eqn:E; auto. intros _.
      unfold akey_eqb in E. apply andb_true_iff in E as [E1 E2]. apply Nat.eqb_eq in E1, E2.
      destruct j, k; simpl in *; subst. eapply I2; eauto.
    + intros j k0. destruct (Nat.eqb j tid); [intros Hq; discriminate Hq|apply I2].
Qed.

Theorem enabled_requests_converted : forall ls s,
  arun static x ainit ls = Some s ->
  forall r c, In (r, c) (alog s) -> a_disabled r = false -> static (a_key r) = false -> c = true.
Proof.
  intros ls s Hr.
  assert (H : forall s0, AInv s0 -> arun static x s0 ls = Some s -> AInv s).
  { clear Hr. induction ls as [|l t IH]; intros s0 HI Hrun; simpl in Hrun.
    - inversion Hrun; subst; auto.
    - destruct (astep static x s0 l) as [s1|] eqn:E; [|discriminate]. apply (IH s1); auto. eapply ainv_step; eauto. }
  destruct (H ainit ainv_init Hr) as (_ & _ & I3). exact I3.
Qed.
End A.
