(* C10 -- the allowlist cache never makes an enabled request run unconverted
   code, provided no context-dependent exit writes it. *)
From Coq Require Import List Arith Bool Lia.
Import ListNotations.
Require Import MV.Cache.Allowlist.

Section A.
Variable static : akey -> bool.
Variable x : exits.
Hypothesis Hx : exits_ok x = true.

Definition AInv (s : astate) : Prop :=
  (forall k, al s k = true -> static k = true) /\
  (forall tid k, pending s tid = Some k -> static k = true) /\
  (forall r c, In (r, c) (alog s) -> a_disabled r = false -> static (a_key r) = false -> c = true).

Lemma ainv_init : AInv ainit.
Proof. repeat split; simpl; intros; try discriminate; contradiction. Qed.

Lemma ainv_step : forall s l s', AInv s -> astep static x s l = Some s' -> AInv s'.
Proof.
  intros s l s' (I1 & I2 & I3) Hs.
  assert (Hc : ctx_exit_writes x = false).
  { unfold exits_ok in Hx. destruct (ctx_exit_writes x); simpl in Hx; auto; discriminate. }
  destruct l as [tid r|tid]; simpl in Hs.
  - destruct (pending s tid) eqn:Hp; [discriminate|].
    destruct (al s (a_key r)) eqn:Ha.
    + inversion Hs; subst s'; simpl. repeat split; auto; simpl.
      intros r0 c [H|H] Hd Hst; [inversion H; subst; pose proof (I1 _ Ha); congruence|eauto].
    + destruct (a_disabled r) eqn:Hd.
      * inversion Hs; subst s'; simpl. rewrite Hc; simpl. repeat split; auto; simpl.
        -- intros j k. destruct (Nat.eqb j tid); [intros Hq; discriminate Hq|apply I2].
        -- intros r0 c [H|H] Hd0 Hst; [inversion H; subst; congruence|eauto].
      * destruct (static (a_key r)) eqn:Hst.
        -- inversion Hs; subst s'; simpl. repeat split; auto; simpl.
           ++ intros j k. destruct (Nat.eqb j tid); [|apply I2].
              destruct (static_exit_writes x); [|intros Hq; discriminate Hq]. intros H; inversion H; subst; auto.
           ++ intros r0 c [H|H] Hd0 Hst0; [inversion H; subst; congruence|eauto].
        -- inversion Hs; subst s'; simpl. repeat split; auto; simpl.
           intros r0 c [H|H] Hd0 Hst0; [inversion H; subst; auto|eauto].
  - destruct (pending s tid) as [k|] eqn:Hp; [|discriminate].
    inversion Hs; subst s'; simpl. repeat split; auto; simpl.
    + intros j. destruct (akey_eqb j k) eqn:E; auto. intros _.
      unfold akey_eqb in E. apply andb_true_iff in E as [E1 E2]. apply Nat.eqb_eq in E1, E2.
      destruct j, k; simpl in *; subst. eapply I2; eauto.
    + intros j k0. destruct (Nat.eqb j tid); [intros Hq; discriminate Hq|apply I2].
Qed.

Theorem enabled_requests_converted : forall ls s,
  arun static x ainit ls = Some s ->
  forall r c, In (r, c) (alog s) -> a_disabled r = false -> static (a_key r) = false -> c = true.
Proof.
  intros ls s Hr.
  assert (H : forall s0, AInv s0 -> arun static x s0 ls = Some s -> AInv s).
  { clear Hr. induction ls as [|l t IH]; intros s0 HI Hrun; simpl in Hrun.
    - inversion Hrun; subst; auto.
    - destruct (astep static x s0 l) as [s1|] eqn:E; [|discriminate]. apply (IH s1); auto. eapply ainv_step; eauto. }
  destruct (H ainit ainv_init Hr) as (_ & _ & I3). exact I3.
Qed.
End A.

(* ---- the cache key: function objects are never confused -------------------- *)
Lemma fold_pfunc_fn : forall h c f,
  forallb (fun p => match p with PFunc => true | _ => false end) c = true ->
  fold_left (kstep h) c (KFn f) = KFn f.
Proof.
  intros h c f. induction c as [|p t IH]; simpl; intros H; auto.
  apply andb_true_iff in H as [Hp Ht]. destruct p; try discriminate. simpl. auto.
Qed.

Lemma chain_ok_key : forall c, chain_ok c = true -> forall h f b, entity_key c h f b = KFn f.
Proof.
  intros c Hc h f b. unfold chain_ok in Hc. destruct c as [|p t]; [discriminate|].
  pose proof Hc as Hc'. simpl in Hc'. apply andb_true_iff in Hc' as [Hp Ht]. destruct p; try discriminate.
  unfold entity_key. destruct b; simpl; apply fold_pfunc_fn; auto.
Qed.

Theorem chain_ok_injective : forall c, chain_ok c = true ->
  forall h f1 b1 f2 b2, entity_key c h f1 b1 = entity_key c h f2 b2 <-> f1 = f2.
Proof.
  intros c Hc h f1 b1 f2 b2. rewrite !(chain_ok_key c Hc). split; [intros H; inversion H; auto|intros; subst; auto].
Qed.

Section E.
Variable chain : akey_chain.
Variable h : fheap.
Variable static : akey -> bool.
Variable x : exits.
Hypothesis Hx : exits_ok x = true.
Hypothesis Hc : chain_ok chain = true.

Definition kstatic (k : ekey) : Prop := exists f, fst k = KFn f /\ static (f, snd k) = true.

Definition EInv (s : estate) : Prop :=
  (forall k, eal s k = true -> kstatic k) /\
  (forall tid k, epending s tid = Some k -> kstatic k) /\
  (forall r c, In (r, c) (elog s) -> e_disabled r = false -> static (e_fn r, e_opt r) = false -> c = true).

Lemma einv_init : EInv einit.
Proof. repeat split; simpl; intros; try discriminate; contradiction. Qed.

Lemma kobj_eqb_eq : forall a b, kobj_eqb a b = true -> a = b.
Proof. intros [a|a|a] [b|b|b] H; simpl in H; try discriminate; apply Nat.eqb_eq in H; subst; auto. Qed.

Lemma einv_step : forall s l s', EInv s -> estep chain h static x s l = Some s' -> EInv s'.
Proof.
  intros s l s' (I1 & I2 & I3) Hs.
  assert (Hw : ctx_exit_writes x = false).
  { unfold exits_ok in Hx. destruct (ctx_exit_writes x); simpl in Hx; auto; discriminate. }
  destruct l as [tid r|tid]; simpl in Hs.
  - destruct (epending s tid) eqn:Hp; [discriminate|].
    rewrite (chain_ok_key chain Hc) in Hs.
    destruct (eal s (KFn (e_fn r), e_opt r)) eqn:Ha.
    + inversion Hs; subst s'; simpl. repeat split; auto; simpl.
      intros r0 c [H|H] Hd Hst; [|eauto]. inversion H; subst.
      destruct (I1 _ Ha) as (f & Hf & Hs0). simpl in Hf, Hs0. inversion Hf; subst. congruence.
    + destruct (e_disabled r) eqn:Hd.
      * inversion Hs; subst s'; simpl. rewrite Hw; simpl. repeat split; auto; simpl.
        -- intros j k. destruct (Nat.eqb j tid); [intros Hq; discriminate Hq|apply I2].
        -- intros r0 c [H|H] Hd0 Hst; [inversion H; subst; congruence|eauto].
      * destruct (static (e_fn r, e_opt r)) eqn:Hst.
        -- inversion Hs; subst s'; simpl. repeat split; auto; simpl.
           ++ intros j k. destruct (Nat.eqb j tid); [|apply I2].
              destruct (static_exit_writes x); [|intros Hq; discriminate Hq]. intros H; inversion H; subst.
              exists (e_fn r). simpl. auto.
           ++ intros r0 c [H|H] Hd0 Hst0; [inversion H; subst; congruence|eauto].
        -- inversion Hs; subst s'; simpl. repeat split; auto; simpl.
           intros r0 c [H|H] Hd0 Hst0; [inversion H; subst; auto|eauto].
  - destruct (epending s tid) as [k|] eqn:Hp; [|discriminate].
    inversion Hs; subst s'; simpl. repeat split; auto; simpl.
    + intros j. destruct (ekey_eqb j k) eqn:E; auto. intros _.
      unfold ekey_eqb in E. apply andb_true_iff in E as [E1 E2]. apply kobj_eqb_eq in E1. apply Nat.eqb_eq in E2.
      destruct j, k; simpl in *; subst. eapply I2; eauto.
    + intros j k0. destruct (Nat.eqb j tid); [intros Hq; discriminate Hq|apply I2].
Qed.

Theorem enabled_entity_requests_converted : forall ls s,
  erun chain h static x einit ls = Some s ->
  forall r c, In (r, c) (elog s) -> e_disabled r = false -> static (e_fn r, e_opt r) = false -> c = true.
Proof.
  intros ls s Hr.
  assert (H : forall s0, EInv s0 -> erun chain h static x s0 ls = Some s -> EInv s).
  { clear Hr. induction ls as [|l t IH]; intros s0 HI Hrun; simpl in Hrun.
    - inversion Hrun; subst; auto.
    - destruct (estep chain h static x s0 l) as [s1|] eqn:E; [|discriminate]. apply (IH s1); auto. eapply einv_step; eauto. }
  destruct (H einit einv_init Hr) as (_ & _ & I3). exact I3.
Qed.
End E.
