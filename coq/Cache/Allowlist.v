(* C10 -- the second cache on the request path: conversion._ALLOWLIST_CACHE
   ((function object, options) -> "run as-is"), read at the top of
   api.converted_call and written by _call_unconverted(update_cache=True).

   The exits of converted_call that call _call_unconverted are GENERATED
   (coq/Generated/C10_gen.v, allowlist_exits): for each, whether its guard
   depends on the calling context (the thread-local ControlStatusCtx) and
   whether it writes the cache.  Machine: any number of threads; a request
   first decides (reads the cache), later commits its write -- two steps, so
   every interleaving of reads and writes is covered.  `static f o` stands for
   the context-independent reasons to run (f, o) as-is (artifact, unsupported,
   allowlisted module, internal_convert_user_code off, no source, conversion
   error); it is a parameter of the theorems. *)
From Coq Require Import List Arith Bool.
Import ListNotations.

Definition akey := (nat * nat)%type.            (* function object id, options id *)
Definition akey_eqb (a b : akey) : bool := Nat.eqb (fst a) (fst b) && Nat.eqb (snd a) (snd b).

Record areq := mkAReq { a_key : akey; a_disabled : bool }.   (* disabled: status DISABLED in the caller's context *)

(* (guard depends on the calling context, writes the allowlist cache) *)
Definition exits := list (bool * bool).
Definition ctx_exit_writes (x : exits) : bool := existsb (fun p => fst p && snd p) x.
Definition static_exit_writes (x : exits) : bool := existsb (fun p => negb (fst p) && snd p) x.
Definition exits_ok (x : exits) : bool := negb (ctx_exit_writes x).

Record astate := mkA {
  al : akey -> bool;                         (* the allowlist cache *)
  pending : nat -> option akey;              (* per thread: write not yet committed *)
  alog : list (areq * bool)                  (* ghost: request, ran converted code *)
}.
Definition ainit : astate := mkA (fun _ => false) (fun _ => None) [].

Inductive alabel : Set :=
| ADecide (tid : nat) (r : areq)    (* the chain of checks of converted_call up to the decision *)
| ACommit (tid : nat).              (* conversion.cache_allowlisted(f, options) *)

Definition astep (static : akey -> bool) (x : exits) (s : astate) (l : alabel) : option astate :=
  match l with
  | ADecide tid r =>
      match pending s tid with
      | Some _ => None
      | None =>
        let k := a_key r in
        let setp (w : bool) := fun j => if Nat.eqb j tid then (if w then Some k else None) else pending s j in
        if al s k then Some (mkA (al s) (pending s) ((r, false) :: alog s))
        else if a_disabled r then Some (mkA (al s) (setp (ctx_exit_writes x)) ((r, false) :: alog s))
        else if static k then Some (mkA (al s) (setp (static_exit_writes x)) ((r, false) :: alog s))
        else Some (mkA (al s) (pending s) ((r, true) :: alog s))
      end
  | ACommit tid =>
      match pending s tid with
      | Some k => Some (mkA (fun j => if akey_eqb j k then true else al s j)
                            (fun j => if Nat.eqb j tid then None else pending s j) (alog s))
      | None => None
      end
  end.

Fixpoint arun (static : akey -> bool) (x : exits) (s : astate) (ls : list alabel) : option astate :=
  match ls with
  | [] => Some s
  | l :: r => match astep static x s l with Some s' => arun static x s' r | None => None end
  end.
