(* C10 -- the second cache on the request path: conversion._ALLOWLIST_CACHE
   ((function object, options) -> "run as-is"), read at the top of
   api.converted_call and written by _call_unconverted(update_cache=True).

   The exits of converted_call that call _call_unconverted are GENERATED
   (coq/Generated/C10_gen.v, allowlist_exits): for each, whether its guard
   depends on the calling context (the thread-local ControlStatusCtx) and
   whether it writes the cache.  Machine: any number of threads; a request
   first decides (reads the cache), later commits its write -- two steps, so
   every interleaving of reads and writes is covered.  `static f o` stands for
   the context-independent reasons to run (f, o) as-is (artifact, unsupported,
   allowlisted module, internal_convert_user_code off, no source, conversion
   error); it is a parameter of the theorems. *)
From Coq Require Import List Arith Bool.
Import ListNotations.

Definition akey := (nat * nat)%type.            (* function object id, options id *)
Definition akey_eqb (a b : akey) : bool := Nat.eqb (fst a) (fst b) && Nat.eqb (snd a) (snd b).

Record areq := mkAReq { a_key : akey; a_disabled : bool }.   (* disabled: status DISABLED in the caller's context *)

(* (guard depends on the calling context, writes the allowlist cache) *)
Definition exits := list (bool * bool).
Definition ctx_exit_writes (x : exits) : bool := existsb (fun p => fst p && snd p) x.
Definition static_exit_writes (x : exits) : bool := existsb (fun p => negb (fst p) && snd p) x.
Definition exits_ok (x : exits) : bool := negb (ctx_exit_writes x).

Record astate := mkA {
  al : akey -> bool;                         (* the allowlist cache *)
  pending : nat -> option akey;              (* per thread: write not yet committed *)
  alog : list (areq * bool)                  (* ghost: request, ran converted code *)
}.
Definition ainit : astate := mkA (fun _ => false) (fun _ => None) [].

Inductive alabel : Set :=
| ADecide (tid : nat) (r : areq)    (* the chain of checks of converted_call up to the decision *)
| ACommit (tid : nat).              (* conversion.cache_allowlisted(f, options) *)

Definition astep (static : akey -> bool) (x : exits) (s : astate) (l : alabel) : option astate :=
  match l with
  | ADecide tid r =>
      match pending s tid with
      | Some _ => None
      | None =>
        let k := a_key r in
        let setp (w : bool) := fun j => if Nat.eqb j tid then (if w then Some k else None) else pending s j in
        if al s k then Some (mkA (al s) (pending s) ((r, false) :: alog s))
        else if a_disabled r then Some (mkA (al s) (setp (ctx_exit_writes x)) ((r, false) :: alog s))
        else if static k then Some (mkA (al s) (setp (static_exit_writes x)) ((r, false) :: alog s))
        else Some (mkA (al s) (pending s) ((r, true) :: alog s))
      end
  | ACommit tid =>
      match pending s tid with
      | Some k => Some (mkA (fun j => if akey_eqb j k then true else al s j)
                            (fun j => if Nat.eqb j tid then None else pending s j) (alog s))
      | None => None
      end
  end.

Fixpoint arun (static : akey -> bool) (x : exits) (s : astate) (ls : list alabel) : option astate :=
  match ls with
  | [] => Some s
  | l :: r => match astep static x s l with Some s' => arun static x s' r | None => None end
  end.

(* ------------------------------------------------------------------------
   What the allowlist cache is KEYED by.  conversion._ALLOWLIST_CACHE is a
   cache.UnboundInstanceCache; its _get_key is GENERATED (C10_gen.v,
   allowlist_key_chain) as the chain of projections it applies to the callable
   handed to converted_call.  The callables are function objects, possibly
   handed over as bound methods; a function object may carry __wrapped__
   (functools.wraps / update_wrapper: malt's own convert / do_not_convert
   wrappers, user decorators) and has a code object that other function
   objects may share.  Requests are ABOUT function objects (the reasons to run
   one as-is -- `static` -- belong to the function object: a do_not_convert
   wrapper is an artifact, the function it wraps is not); the cache is read and
   written at the KEY.  The machine below is the one above with that
   distinction made. *)
Inductive kproj : Set :=
| PFunc        (* entity.__func__ when entity is a bound method *)
| PWrapped     (* getattr(entity, '__wrapped__', entity) *)
| PCode.       (* getattr(entity, '__code__', entity) *)
Definition akey_chain := list kproj.

Record fobj := mkF { f_wrapped : option nat; f_code : nat }.
Definition fheap := nat -> fobj.                 (* function object id -> its attributes *)

Inductive kobj : Set :=
| KFn (f : nat)        (* the function object f *)
| KMeth (f : nat)      (* a bound-method object around f *)
| KCode (c : nat).     (* a code object *)
Definition kobj_eqb (a b : kobj) : bool :=
  match a, b with
  | KFn x, KFn y | KMeth x, KMeth y | KCode x, KCode y => Nat.eqb x y
  | _, _ => false
  end.

Definition kstep (h : fheap) (o : kobj) (p : kproj) : kobj :=
  match p, o with
  | PFunc, KMeth f => KFn f
  | PWrapped, KFn f | PWrapped, KMeth f =>          (* a bound method forwards attribute reads to __func__ *)
      match f_wrapped (h f) with Some g => KFn g | None => o end
  | PCode, KFn f | PCode, KMeth f => KCode (f_code (h f))
  | _, _ => o
  end.
Definition entity_key (chain : akey_chain) (h : fheap) (f : nat) (bound : bool) : kobj :=
  fold_left (kstep h) chain (if bound then KMeth f else KFn f).

(* the key is the function object itself (bound methods: their __func__) *)
Definition chain_ok (chain : akey_chain) : bool :=
  match chain with
  | [] => false
  | _ => forallb (fun p => match p with PFunc => true | _ => false end) chain
  end.

Definition ekey := (kobj * nat)%type.
Definition ekey_eqb (a b : ekey) : bool := kobj_eqb (fst a) (fst b) && Nat.eqb (snd a) (snd b).

Record ereq := mkEReq { e_fn : nat; e_bound : bool; e_opt : nat; e_disabled : bool }.

Record estate := mkE {
  eal : ekey -> bool;
  epending : nat -> option ekey;
  elog : list (ereq * bool)
}.
Definition einit : estate := mkE (fun _ => false) (fun _ => None) [].

Inductive elabel : Set :=
| EDecide (tid : nat) (r : ereq)
| ECommit (tid : nat).

Definition estep (chain : akey_chain) (h : fheap) (static : akey -> bool) (x : exits) (s : estate) (l : elabel)
  : option estate :=
  match l with
  | EDecide tid r =>
      match epending s tid with
      | Some _ => None
      | None =>
        let k := (entity_key chain h (e_fn r) (e_bound r), e_opt r) in
        let setp (w : bool) := fun j => if Nat.eqb j tid then (if w then Some k else None) else epending s j in
        if eal s k then Some (mkE (eal s) (epending s) ((r, false) :: elog s))
        else if e_disabled r then Some (mkE (eal s) (setp (ctx_exit_writes x)) ((r, false) :: elog s))
        else if static (e_fn r, e_opt r) then Some (mkE (eal s) (setp (static_exit_writes x)) ((r, false) :: elog s))
        else Some (mkE (eal s) (epending s) ((r, true) :: elog s))
      end
  | ECommit tid =>
      match epending s tid with
      | Some k => Some (mkE (fun j => if ekey_eqb j k then true else eal s j)
                            (fun j => if Nat.eqb j tid then None else epending s j) (elog s))
      | None => None
      end
  end.

Fixpoint erun (chain : akey_chain) (h : fheap) (static : akey -> bool) (x : exits) (s : estate) (ls : list elabel)
  : option estate :=
  match ls with
  | [] => Some s
  | l :: r => match estep chain h static x s l with Some s' => erun chain h static x s' r | None => None end
  end.
