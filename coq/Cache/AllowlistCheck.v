(* C10 -- the allowlist machine evaluated on the request histories the harness
   ran on the real api.converted_call (request granularity: decide, then the
   write, if any). *)
From Coq Require Import List Arith Bool.
Import ListNotations.
Require Import MV.Cache.Allowlist.

Fixpoint arequests (static : akey -> bool) (x : exits) (s : astate) (reqs : list (nat * areq)) : option astate :=
  match reqs with
  | [] => Some s
  | (tid, r) :: t =>
      match astep static x s (ADecide tid r) with
      | None => None
      | Some s1 =>
          match pending s1 tid with
          | None => arequests static x s1 t
          | Some _ => match astep static x s1 (ACommit tid) with
                      | Some s2 => arequests static x s2 t
                      | None => None
                      end
          end
      end
  end.

Fixpoint bools_beq (a b : list bool) : bool :=
  match a, b with
  | [], [] => true
  | x :: a', y :: b' => Bool.eqb x y && bools_beq a' b'
  | _, _ => false
  end.

(* index, keys with a context-independent reason to run as-is, requests
   (thread, function, options, disabled), observed "ran converted code" *)
Definition acase : Set := (nat * list akey * list (nat * nat * nat * bool) * list bool)%type.

Definition acheck (x : exits) (c : acase) : bool :=
  match c with
  | (_, st, reqs, obs) =>
    let static := fun k => existsb (akey_eqb k) st in
    match arequests static x ainit (map (fun q => match q with (tid, f, o, d) => (tid, mkAReq (f, o) d) end) reqs) with
    | Some s => bools_beq (rev (map snd (alog s))) obs
    | None => false
    end
  end.
Definition afailing (x : exits) (cs : list acase) : list nat :=
  map (fun c => match c with (n, _, _, _) => n end) (filter (fun c => negb (acheck x c)) cs).

(* ---- the machine with the generated KEY function, on request logs over a
   pool of related function objects (wrappers carrying __wrapped__, bound
   methods, functions sharing code) ------------------------------------------- *)
Fixpoint erequests (chain : akey_chain) (h : fheap) (static : akey -> bool) (x : exits) (s : estate)
  (reqs : list (nat * ereq)) : option estate :=
  match reqs with
  | [] => Some s
  | (tid, r) :: t =>
      match estep chain h static x s (EDecide tid r) with
      | None => None
      | Some s1 =>
          match epending s1 tid with
          | None => erequests chain h static x s1 t
          | Some _ => match estep chain h static x s1 (ECommit tid) with
                      | Some s2 => erequests chain h static x s2 t
                      | None => None
                      end
          end
      end
  end.

Definition heap_of (tbl : list (nat * option nat * nat)) : fheap :=
  fun f => match find (fun e => match e with (g, _, _) => Nat.eqb g f end) tbl with
           | Some (_, w, c) => mkF w c
           | None => mkF None 0
           end.

(* index, function objects (id, __wrapped__, code class), (function, options)
   pairs with a context-independent reason to run as-is, the logged requests
   (thread, function, handed over as bound method, options, disabled), the
   logged decisions "converted" *)
Definition ecase : Set :=
  (nat * list (nat * option nat * nat) * list akey * list (nat * nat * bool * nat * bool) * list bool)%type.

Definition echeck (chain : akey_chain) (x : exits) (c : ecase) : bool :=
  match c with
  | (_, tbl, st, reqs, obs) =>
    let static := fun k => existsb (akey_eqb k) st in
    match erequests chain (heap_of tbl) static x einit
            (map (fun q => match q with (tid, f, b, o, d) => (tid, mkEReq f b o d) end) reqs) with
    | Some s => bools_beq (rev (map snd (elog s))) obs
    | None => false
    end
  end.
Definition efailing (chain : akey_chain) (x : exits) (cs : list ecase) : list nat :=
  map (fun c => match c with (n, _, _, _, _) => n end) (filter (fun c => negb (echeck chain x c)) cs).
