(* C10 -- the ENTRY LAYER above the transpiler cache (model, no proofs).

   malt/impl/api.py: to_graph, the `convert` wrappers and (recursive)
   converted_call all obtain a converted function through one funnel,
   _convert_actual(entity, program_ctx) -> _TRANSPILER.transform(entity, ...)
   -> PyToPy.transform_function (the machine of MV.Cache.Machine).

   What this layer adds to the machine:

   * requests are about FUNCTION OBJECTS, and a function object is mutable: its
     __code__ (hot reloaders replace it in place), __defaults__ /
     __kwdefaults__, the contents of its closure cells and of its globals may
     all be rebound between two requests.  The heap maps a function object id
     to its CURRENT attributes: code class + env (env = everything instantiate
     binds per request, as in the machine);
   * AMut fid a   rebinds attributes of fid (between requests on fid, like a
                  collection only happens when no request on the class is in
                  flight);
     AReq tid fid o  an API request: the attributes are read NOW and the
                  machine thread tid is started on (code now, o) / env now;
     AM l         a step / failure / collection of the machine;
   * the funnel itself is GENERATED (coq/Generated/C10_gen.v, entry_funnel,
     translated from _convert_actual by tools/translate/c10_cache.py):
       FDirect       hands the request to the transpiler and returns its answer;
       FMemo ks ss   keeps a memo of the INSTANTIATED converted function, keyed
                     by ks (the function object / its code object) and ss (the
                     options / a field / nothing): a hit returns the remembered
                     instance without asking the transpiler.
   * ghost a_out: what each API request was served -- the request (function
     object, options, attributes AT REQUEST TIME) with the factory the served
     instance was made from and the env it is bound to. *)
From Coq Require Import List Arith Bool.
Import ListNotations.
Require Import MV.Cache.Machine MV.Cache.KeySrc.

Record fattrs := mkFA { fa_code : code; fa_env : env }.
Definition heap := nat -> fattrs.

Inductive funnel : Set :=
| FDirect
| FMemo (ks : key_src) (ss : subkey_src).

(* the decidable discipline of the entry layer: no state of its own *)
Definition funnel_ok (f : funnel) : bool := match f with FDirect => true | FMemo _ _ => false end.

Definition inst := (factory * env)%type.      (* an instantiated converted function *)
Definition areq := (nat * opt * fattrs)%type. (* function object, options, attributes when requested *)

(* the API requests in flight, by thread (an association list, so that "no
   request on this object is in flight" is decidable) *)
Definition curmap := list (nat * areq).
Fixpoint cur_get (c : curmap) (tid : nat) : option areq :=
  match c with
  | [] => None
  | (t, r) :: c' => if Nat.eqb t tid then Some r else cur_get c' tid
  end.
Definition cur_del (c : curmap) (tid : nat) : curmap :=
  filter (fun x => negb (Nat.eqb (fst x) tid)) c.
Definition mut_ok (c : curmap) (fid : nat) : bool :=
  forallb (fun x => match x with (_, (g, _, _)) => negb (Nat.eqb g fid) end) c.

Record astate := mkA {
  a_m : state;                          (* the transpiler machine *)
  a_heap : heap;
  a_memo : key -> option inst;          (* FMemo only *)
  a_cur : curmap;                       (* per thread: the API request in flight *)
  a_out : list (areq * inst)            (* ghost, newest first *)
}.

Definition ainit (h : heap) : astate := mkA init h (fun _ => None) [] [].

Inductive alabel : Set :=
| AMut (fid : nat) (a : fattrs)
| AReq (tid fid : nat) (o : opt)
| AM (l : label).

(* the instance a thread is about to hand out (its next step is IInstantiate) *)
Definition served_now (s : state) (tid : nat) : option inst :=
  match t_req (s_thr s tid), t_k (s_thr s tid), t_fac (s_thr s tid) with
  | Some (_, e), IInstantiate :: _, Some f => Some (f, e)
  | _, _, _ => None
  end.

(* the instance a thread returns to the funnel (its next step is the return) *)
Definition returned_now (s : state) (tid : nat) : option inst :=
  match t_req (s_thr s tid), t_k (s_thr s tid), t_fac (s_thr s tid) with
  | Some (_, e), [], Some f => Some (f, e)
  | _, _, _ => None
  end.

Definition memo_key (ks : key_src) (ss : subkey_src) (proj : nat -> nat) (r : areq) : key :=
  match r with (fid, o, a) => req_key ks ss proj fid (fa_code a) o end.

Definition clear_if_idle (s' : state) (tid : nat) (cur : curmap) : curmap :=
  match t_req (s_thr s' tid) with
  | None => cur_del cur tid
  | Some _ => cur
  end.

Definition astep (fu : funnel) (proj : nat -> nat) (p : prog) (s : astate) (l : alabel) : option astate :=
  match l with
  | AMut fid a =>
      Some (mkA (a_m s) (upd (a_heap s) fid a) (a_memo s) (a_cur s) (a_out s))
  | AReq tid fid o =>
      match cur_get (a_cur s) tid with
      | Some _ => None
      | None =>
        let a := a_heap s fid in
        let r : areq := (fid, o, a) in
        let start :=
          match step p (a_m s) (LStart tid (fa_code a, o) (fa_env a)) with
          | Some m' => Some (mkA m' (a_heap s) (a_memo s) ((tid, r) :: a_cur s) (a_out s))
          | None => None
          end in
        match fu with
        | FDirect => start
        | FMemo ks ss =>
            match a_memo s (memo_key ks ss proj r) with
            | Some i => Some (mkA (a_m s) (a_heap s) (a_memo s) (a_cur s) ((r, i) :: a_out s))
            | None => start
            end
        end
      end
  | AM (LStart _ _ _) => None
  | AM (LStep tid) =>
      match step p (a_m s) (LStep tid) with
      | None => None
      | Some m' =>
        let out' := match served_now (a_m s) tid, cur_get (a_cur s) tid with
                    | Some i, Some r => (r, i) :: a_out s
                    | _, _ => a_out s
                    end in
        let memo' := match fu, returned_now (a_m s) tid, cur_get (a_cur s) tid with
                     | FMemo ks ss, Some i, Some r => kupd (a_memo s) (memo_key ks ss proj r) (Some i)
                     | _, _, _ => a_memo s
                     end in
        Some (mkA m' (a_heap s) memo' (clear_if_idle m' tid (a_cur s)) out')
      end
  | AM (LFail tid) =>
      match step p (a_m s) (LFail tid) with
      | None => None
      | Some m' => Some (mkA m' (a_heap s) (a_memo s) (clear_if_idle m' tid (a_cur s)) (a_out s))
      end
  | AM (LGc c) =>
      match step p (a_m s) (LGc c) with
      | None => None
      | Some m' => Some (mkA m' (a_heap s) (a_memo s) (a_cur s) (a_out s))
      end
  end.

(* attributes are rebound between the requests on that object; collections as
   in the strict machine *)
Definition avalid (s : astate) (l : alabel) : Prop :=
  match l with
  | AMut fid _ => mut_ok (a_cur s) fid = true
  | AReq _ _ _ => True
  | AM l => valid (a_m s) l
  end.

Inductive areach (fu : funnel) (proj : nat -> nat) (p : prog) (h : heap) : astate -> Prop :=
| areach_init : areach fu proj p h (ainit h)
| areach_step : forall s l s', areach fu proj p h s -> avalid s l -> astep fu proj p s l = Some s' ->
    areach fu proj p h s'.

Fixpoint arun (fu : funnel) (proj : nat -> nat) (p : prog) (s : astate) (ls : list alabel) : option astate :=
  match ls with
  | [] => Some s
  | l :: r => match astep fu proj p s l with Some s' => arun fu proj p s' r | None => None end
  end.

(* decidable validity (no collections) and runs that check it *)
Definition avalidb (s : astate) (l : alabel) : bool :=
  match l with
  | AMut fid _ => mut_ok (a_cur s) fid
  | AReq _ _ _ => true
  | AM (LGc _) => false
  | AM _ => true
  end.
Fixpoint arunv (fu : funnel) (proj : nat -> nat) (p : prog) (s : astate) (ls : list alabel) : option astate :=
  match ls with
  | [] => Some s
  | l :: r =>
      if avalidb s l
      then match astep fu proj p s l with Some s' => arunv fu proj p s' r | None => None end
      else None
  end.

(* what the property asks of one served request: the instance was made from
   the transformation of the object's code AT REQUEST TIME under the requested
   options, and is bound to the object's env AT REQUEST TIME *)
Definition served_ok (x : areq * inst) : Prop :=
  match x with ((_, o, a), (f, e)) => f_key f = (fa_code a, o) /\ e = fa_env a end.
Definition served_okb (x : areq * inst) : bool :=
  match x with ((_, o, a), (f, e)) => key_eqb (f_key f) (fa_code a, o) && Nat.eqb e (fa_env a) end.
