(* C10 -- checkers evaluated by vm_compute on the cases the harness writes
   (tools/props/c10.py): (1) the container abstraction key -> option value
   against the real CodeObjectCache, (2) runs of the machine on the generated
   program against sequential histories and forced schedules of the real
   PyToPy. *)
From Coq Require Import List Arith Bool.
Import ListNotations.
Require Import MV.Cache.Machine.

(* ---- (1) container ------------------------------------------------ *)
Inductive cop : Set :=
| CHas (c o : nat) (expect : bool)
| CSet (c o v : nat)
| CGet (c o : nat) (expect : option nat)     (* None = KeyError *)
| CGc (c : nat).

Definition onat_beq (a b : option nat) : bool :=
  match a, b with
  | Some x, Some y => Nat.eqb x y
  | None, None => true
  | _, _ => false
  end.

Fixpoint run_cops (m : key -> option nat) (l : list cop) : bool :=
  match l with
  | [] => true
  | CHas c o b :: r => Bool.eqb (match m (c, o) with Some _ => true | None => false end) b && run_cops m r
  | CSet c o v :: r => run_cops (kupd m (c, o) (Some v)) r
  | CGet c o e :: r => onat_beq (m (c, o)) e && run_cops m r
  | CGc c :: r => run_cops (fun k => if Nat.eqb (fst k) c then None else m k) r
  end.

Definition ccase : Set := (nat * list cop)%type.
Definition cfailing (cs : list ccase) : list nat :=
  map fst (filter (fun c => negb (run_cops (fun _ => None) (snd c))) cs).

(* ---- (2) machine runs --------------------------------------------- *)
(* event kinds: 0 return, 1 has-hit, 2 has-miss, 3 get, 4 lock, 5 unlock,
   6 transform, 7 create, 8 put, 9 instantiate, 10 transform/create raised,
   11 request started, 12 collection *)
Definition event_of (s : state) (l : label) : nat * nat :=
  match l with
  | LStart tid _ _ => (tid, 11)
  | LFail tid => (tid, 10)
  | LGc c => (c, 12)
  | LStep tid =>
      let t := s_thr s tid in
      (tid,
       match t_req t, t_k t with
       | Some (k, _), IIfHas _ _ :: _ => match s_cache s k with Some _ => 1 | None => 2 end
       | _, IGet :: _ => 3
       | _, ILock _ :: _ => 4
       | _, IUnlock :: _ => 5
       | _, ITransform :: _ => 6
       | _, ICreate :: _ => 7
       | _, IPut :: _ => 8
       | _, IInstantiate :: _ => 9
       | _, _ => 0
       end)
  end.

Fixpoint run_trace (p : prog) (s : state) (ls : list label) (acc : list (nat * nat)) : option (state * list (nat * nat)) :=
  match ls with
  | [] => Some (s, rev acc)
  | l :: r =>
      match step p s l with
      | Some s' => run_trace p s' r (event_of s l :: acc)
      | None => None
      end
  end.

Definition pair_beq (a b : nat * nat) : bool := Nat.eqb (fst a) (fst b) && Nat.eqb (snd a) (snd b).
Fixpoint list_beq {A} (eq : A -> A -> bool) (a b : list A) : bool :=
  match a, b with
  | [], [] => true
  | x :: a', y :: b' => eq x y && list_beq eq a' b'
  | _, _ => false
  end.

(* a completed request as the harness sees it:
   (code, options, env, factory's code, factory's options, factory serial, env bound) *)
Definition outrow : Set := (nat * nat * nat * nat * nat * nat * nat)%type.
Definition out_of (x : key * env * factory * env) : outrow :=
  match x with
  | (k, e, f, e') => (fst k, snd k, e, fst (f_key f), snd (f_key f), f_serial f, e')
  end.
Definition outrow_beq (a b : outrow) : bool :=
  match a, b with
  | (a1, a2, a3, a4, a5, a6, a7), (b1, b2, b3, b4, b5, b6, b7) =>
    Nat.eqb a1 b1 && Nat.eqb a2 b2 && Nat.eqb a3 b3 && Nat.eqb a4 b4 && Nat.eqb a5 b5
    && Nat.eqb a6 b6 && Nat.eqb a7 b7
  end.

(* index, schedule, expected events, expected completed requests (oldest
   first), expected transform log (oldest first), expected number of errors *)
Definition case : Set :=
  (nat * list label * list (nat * nat) * list outrow * list (nat * nat) * nat)%type.

Definition check_case (p : prog) (c : case) : bool :=
  match c with
  | (_, ls, evs, outs, tlog, nerr) =>
    match run_trace p init ls [] with
    | None => false
    | Some (s, tr) =>
        list_beq pair_beq tr evs
        && list_beq outrow_beq (rev (map out_of (s_out s))) outs
        && list_beq pair_beq (rev (s_tlog s)) tlog
        && Nat.eqb (length (s_err s)) nerr
    end
  end.

Definition case_index (c : case) : nat := match c with (n, _, _, _, _, _) => n end.
Definition failing (p : prog) (cs : list case) : list nat :=
  map case_index (filter (fun c => negb (check_case p c)) cs).

(* what a schedule does on the machine (used to validate the schedules the
   search proposes): number of errors, maximal transform count of a listed key,
   and whether every completed request got a factory of its own key *)
Definition verdict (p : prog) (ls : list label) (keys : list key) : option (nat * nat * bool) :=
  match run p init ls with
  | None => None
  | Some s =>
      Some (length (s_err s),
            fold_right Nat.max 0 (map (fun k => length (filter (key_eqb k) (s_tlog s))) keys),
            forallb (fun x => match x with (k, e, f, e') => key_eqb (f_key f) k && Nat.eqb e e' end) (s_out s))
  end.

(* ---- schedule builders (so that examples and witnesses do not depend on
   the exact shape of the generated program) ---------------------------- *)
(* LStep tid until the thread is idle again / until its next instruction is
   a read of the cache *)
Fixpoint drive (p : prog) (s : state) (tid : nat) (stop_at_get : bool) (fuel : nat) : list label * state :=
  match fuel with
  | 0 => ([], s)
  | S n =>
    match t_req (s_thr s tid), t_k (s_thr s tid), stop_at_get with
    | None, _, _ => ([], s)
    | Some _, IGet :: _, true => ([], s)
    | Some _, _, _ =>
        match step p s (LStep tid) with
        | Some s' => let (ls, s'') := drive p s' tid stop_at_get n in (LStep tid :: ls, s'')
        | None => ([], s)
        end
    end
  end.

(* requests served one after the other, each by its own thread id *)
Fixpoint seq_schedule (p : prog) (s : state) (reqs : list (nat * key * env)) : list label :=
  match reqs with
  | [] => []
  | (tid, k, e) :: r =>
      match step p s (LStart tid k e) with
      | Some s1 => let (ls, s2) := drive p s1 tid false 200 in LStart tid k e :: ls ++ seq_schedule p s2 r
      | None => []
      end
  end.

(* thread 0 completes a request on key (0,0); thread 1 asks for the same key and
   is stopped right before it reads the cache; the bucket dies; thread 1 reads *)
Definition alias_witness (p : prog) : list label :=
  let l0 := seq_schedule p init [(0, (0, 0), 0)] in
  match run p init l0 with
  | Some s0 =>
      match step p s0 (LStart 1 (0, 0) 1) with
      | Some s1 => let (ls, _) := drive p s1 1 true 200 in l0 ++ LStart 1 (0, 0) 1 :: ls ++ [LGc 0; LStep 1]
      | None => []
      end
  | None => []
  end.
