(* C10 -- what the two key functions may be (the actual values are generated
   from cache.py / api.py) and what a request's cache key then is. *)
From Coq Require Import List Arith Bool.
Import ListNotations.
Require Import MV.Cache.Machine.

Inductive key_src : Set :=
| KeyCodeObject      (* entity.__code__ when it has one *)
| KeyEntity.         (* the function object itself *)

Inductive subkey_src : Set :=
| SubOptions         (* the whole ConversionOptions value (eq/hash over all fields: C20) *)
| SubOptionsField    (* one attribute of it *)
| SubConstant.       (* a constant *)

(* a request as the API sees it: function object fid whose code object is in
   class c, converted under options value o; proj = some attribute of o *)
Definition req_key (ks : key_src) (ss : subkey_src) (proj : nat -> nat) (fid c o : nat) : key :=
  (match ks with KeyCodeObject => c | KeyEntity => fid end,
   match ss with SubOptions => o | SubOptionsField => proj o | SubConstant => 0 end).
