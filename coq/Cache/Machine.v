(* C10 -- the conversion cache as an interleaving machine (model, no proofs).

   What is modelled (malt/pyct/transpiler.py PyToPy.transform_function,
   malt/pyct/cache.py CodeObjectCache, malt/impl/api.py PyToPy.get_caching_key):

   * the cache-access code of transform_function is a *program* over the
     instructions below; the program itself is GENERATED from the source on
     every run (coq/Generated/C10_gen.v, tools/translate/c10_cache.py);
   * any number of threads (thread ids are all of nat) run that program, each
     on its own request, against one shared map  (code id, options id) -> factory
     and one re-entrant mutex (threading.RLock: owner + depth);
   * a request is (key, env): key = (code id, options id) -- what
     CodeObjectCache._get_key / get_caching_key produce -- and env stands for
     everything `instantiate` binds per request (globals, closure, defaults,
     kwdefaults of the *requesting* function object);
   * code id = equivalence class of code objects under `==`
     (WeakKeyDictionary compares live keys by value, and CPython compares code
     objects structurally: two `exec`s of one source alias);
   * the transformation or the loading of its result may raise (LFail): the
     `with` statement releases the lock, nothing is cached, the request fails;
   * LGc c: every code object of class c died: the WeakKeyDictionary drops the
     bucket.  In the strict machine (reach) this only happens when no request
     on c is in flight (a request keeps its function, hence its code object,
     alive).  The weak machine (reach_weak) also lets the bucket disappear
     while a request of the same class is in flight -- possible in CPython
     when the bucket is keyed by a *different but equal* code object.

   Atomic steps = one instruction.  `has`, `cache[fn][k]`, `cache[fn][k] = v`
   are single dict operations under the GIL (runtime assumption, named in the
   evidence).  Quirks kept: the lock is re-entrant; `cache[fn][k]` on a
   missing key is a KeyError (the request fails, recorded in s_err); locals
   `nodes` / `factory` may be unbound (NameError, recorded in s_err).

   Ghost state (never read by the machine): s_tcount (successful transforms of
   a key since the last collection of its code class, not counting those whose
   request failed), s_tlog (all transform steps, in order), s_out (completed
   requests), s_err, t_pend. *)
From Coq Require Import List Arith Bool.
Import ListNotations.

Definition code := nat.
Definition opt := nat.
Definition env := nat.
Definition key := (code * opt)%type.

Definition key_eqb (a b : key) : bool :=
  Nat.eqb (fst a) (fst b) && Nat.eqb (snd a) (snd b).

(* a factory remembers which transformation produced it and has an identity *)
Record factory := mkF { f_key : key; f_serial : nat }.

Inductive instr : Set :=
| IIfHas (hit miss : list instr)   (* if self._cache.has(fn, key): ... else: ... *)
| IGet                             (* factory = self._cache[fn][key]            *)
| ILock (body : list instr)        (* with self._cache_lock: ...                *)
| IUnlock                          (* end of a with block (internal)            *)
| ITransform                       (* nodes, ctx = super().transform_function(fn, user_context) *)
| ICreate                          (* factory = _PythonFnFactory(...); factory.create(nodes, ...) *)
| IPut                             (* self._cache[fn][key] = factory            *)
| IInstantiate.                    (* factory.instantiate(globals, closure, defaults, kwdefaults) *)

Definition prog := list instr.

Record thread := mkT {
  t_req : option (key * env);
  t_k : list instr;              (* continuation *)
  t_nodes : option key;          (* local `nodes`: result of transforming that key *)
  t_fac : option factory;        (* local `factory` *)
  t_pend : bool                  (* ghost: transformed, not yet stored *)
}.
Definition idle : thread := mkT None [] None None false.

Record state := mkS {
  s_cache : key -> option factory;
  s_lock : option (nat * nat);             (* owner, depth *)
  s_thr : nat -> thread;
  s_serial : nat;
  s_tcount : key -> nat;                   (* ghost *)
  s_tlog : list key;                       (* ghost, newest first *)
  s_out : list (key * env * factory * env);(* ghost: request, factory used, env bound; newest first *)
  s_err : list nat                         (* ghost: tids whose request died of KeyError/NameError/lock misuse *)
}.

Definition init : state :=
  mkS (fun _ => None) None (fun _ => idle) 0 (fun _ => 0) [] [] [].

Definition upd {A} (f : nat -> A) (i : nat) (v : A) : nat -> A :=
  fun j => if Nat.eqb j i then v else f j.
Definition kupd {A} (f : key -> A) (k : key) (v : A) : key -> A :=
  fun j => if key_eqb j k then v else f j.

Definition release_all (l : option (nat * nat)) (tid : nat) : option (nat * nat) :=
  match l with
  | Some (o, d) => if Nat.eqb o tid then None else Some (o, d)
  | None => None
  end.

(* the request of thread tid dies with an exception: every `with` unwinds *)
Definition abort (s : state) (tid : nat) (err : bool) : state :=
  let t := s_thr s tid in
  mkS (s_cache s) (release_all (s_lock s) tid) (upd (s_thr s) tid idle) (s_serial s)
      (match t_req t with
       | Some (k, _) => if t_pend t then kupd (s_tcount s) k 0 else s_tcount s
       | None => s_tcount s
       end)
      (s_tlog s) (s_out s) (if err then tid :: s_err s else s_err s).

Definition set_thr (s : state) (tid : nat) (t : thread) : state :=
  mkS (s_cache s) (s_lock s) (upd (s_thr s) tid t) (s_serial s) (s_tcount s) (s_tlog s) (s_out s) (s_err s).

Definition step_thread (s : state) (tid : nat) : option state :=
  let t := s_thr s tid in
  match t_req t with
  | None => None
  | Some (k, e) =>
    match t_k t with
    | [] => Some (set_thr s tid idle)
    | IIfHas h m :: r =>
        Some (set_thr s tid (mkT (t_req t)
                                 (match s_cache s k with Some _ => h ++ r | None => m ++ r end)
                                 (t_nodes t) (t_fac t) (t_pend t)))
    | IGet :: r =>
        match s_cache s k with
        | Some f => Some (set_thr s tid (mkT (t_req t) r (t_nodes t) (Some f) (t_pend t)))
        | None => Some (abort s tid true)
        end
    | ILock b :: r =>
        let t' := mkT (t_req t) (b ++ IUnlock :: r) (t_nodes t) (t_fac t) (t_pend t) in
        match s_lock s with
        | None =>
            Some (mkS (s_cache s) (Some (tid, 1)) (upd (s_thr s) tid t') (s_serial s)
                      (s_tcount s) (s_tlog s) (s_out s) (s_err s))
        | Some (o, d) =>
            if Nat.eqb o tid
            then Some (mkS (s_cache s) (Some (tid, S d)) (upd (s_thr s) tid t') (s_serial s)
                           (s_tcount s) (s_tlog s) (s_out s) (s_err s))
            else None                                  (* blocked *)
        end
    | IUnlock :: r =>
        let t' := mkT (t_req t) r (t_nodes t) (t_fac t) (t_pend t) in
        match s_lock s with
        | Some (o, S d) =>
            if Nat.eqb o tid
            then Some (mkS (s_cache s) (match d with 0 => None | S _ => Some (tid, d) end)
                           (upd (s_thr s) tid t') (s_serial s)
                           (s_tcount s) (s_tlog s) (s_out s) (s_err s))
            else Some (abort s tid true)
        | _ => Some (abort s tid true)
        end
    | ITransform :: r =>
        Some (mkS (s_cache s) (s_lock s)
                  (upd (s_thr s) tid (mkT (t_req t) r (Some k) (t_fac t) true))
                  (s_serial s) (kupd (s_tcount s) k (S (s_tcount s k))) (k :: s_tlog s)
                  (s_out s) (s_err s))
    | ICreate :: r =>
        match t_nodes t with
        | Some nk =>
            Some (mkS (s_cache s) (s_lock s)
                      (upd (s_thr s) tid (mkT (t_req t) r (t_nodes t) (Some (mkF nk (s_serial s))) (t_pend t)))
                      (S (s_serial s)) (s_tcount s) (s_tlog s) (s_out s) (s_err s))
        | None => Some (abort s tid true)
        end
    | IPut :: r =>
        match t_fac t with
        | Some f =>
            Some (mkS (kupd (s_cache s) k (Some f)) (s_lock s)
                      (upd (s_thr s) tid (mkT (t_req t) r (t_nodes t) (t_fac t) false))
                      (s_serial s) (s_tcount s) (s_tlog s) (s_out s) (s_err s))
        | None => Some (abort s tid true)
        end
    | IInstantiate :: r =>
        match t_fac t with
        | Some f =>
            Some (mkS (s_cache s) (s_lock s)
                      (upd (s_thr s) tid (mkT (t_req t) r (t_nodes t) (t_fac t) (t_pend t)))
                      (s_serial s) (s_tcount s) (s_tlog s) ((k, e, f, e) :: s_out s) (s_err s))
        | None => Some (abort s tid true)
        end
    end
  end.

Inductive label : Set :=
| LStart (tid : nat) (k : key) (e : env)   (* an idle thread receives a request *)
| LStep (tid : nat)                        (* a thread executes its next instruction *)
| LFail (tid : nat)                        (* transform_ast / load raises in that thread *)
| LGc (c : code).                          (* the code objects of class c died *)

Definition step (p : prog) (s : state) (l : label) : option state :=
  match l with
  | LStart tid k e =>
      match t_req (s_thr s tid) with
      | None => Some (set_thr s tid (mkT (Some (k, e)) p None None false))
      | Some _ => None
      end
  | LStep tid => step_thread s tid
  | LFail tid =>
      match t_req (s_thr s tid), t_k (s_thr s tid) with
      | Some _, ITransform :: _ => Some (abort s tid false)
      | Some _, ICreate :: _ => Some (abort s tid false)
      | _, _ => None
      end
  | LGc c =>
      Some (mkS (fun k => if Nat.eqb (fst k) c then None else s_cache s k) (s_lock s) (s_thr s)
                (s_serial s) (fun k => if Nat.eqb (fst k) c then 0 else s_tcount s k)
                (s_tlog s) (s_out s) (s_err s))
  end.

(* a collection of class c is possible only if no request on c is in flight *)
Definition valid (s : state) (l : label) : Prop :=
  match l with
  | LGc c => forall tid k e, t_req (s_thr s tid) = Some (k, e) -> fst k <> c
  | _ => True
  end.

Inductive reach (p : prog) : state -> Prop :=
| reach_init : reach p init
| reach_step : forall s l s', reach p s -> valid s l -> step p s l = Some s' -> reach p s'.

(* the weak machine: buckets may vanish under a request in flight *)
Fixpoint run (p : prog) (s : state) (ls : list label) : option state :=
  match ls with
  | [] => Some s
  | l :: r => match step p s l with Some s' => run p s' r | None => None end
  end.
Definition reach_weak (p : prog) (s : state) : Prop := exists ls, run p init ls = Some s.

(* ------------------------------------------------------------------ *)
(* the discipline: a path-sensitive abstract execution of one thread   *)

Record flags := mkFl {
  fl_depth : nat;     (* how many times this thread holds the lock *)
  fl_miss : bool;     (* a `has` missed while holding the lock, still held since *)
  fl_hit : bool;      (* a `has` hit, or this thread stored the key *)
  fl_nodes : bool;    (* `nodes` bound (to this request's transformation) *)
  fl_fac : bool;      (* `factory` bound (to a factory of this request's key) *)
  fl_owes : bool;     (* transformed, not yet stored *)
  fl_inst : bool      (* instantiated *)
}.
Definition fl0 : flags := mkFl 0 false false false false false false.

Fixpoint check (n : nat) (fl : flags) (k : list instr) : bool :=
  match n with
  | 0 => false
  | S n =>
    match k with
    | [] => Nat.eqb (fl_depth fl) 0 && negb (fl_owes fl) && fl_inst fl
    | IIfHas h m :: r =>
        check n (mkFl (fl_depth fl) false true (fl_nodes fl) (fl_fac fl) (fl_owes fl) (fl_inst fl)) (h ++ r)
        && check n (mkFl (fl_depth fl) (negb (Nat.eqb (fl_depth fl) 0)) false (fl_nodes fl) (fl_fac fl) (fl_owes fl) (fl_inst fl)) (m ++ r)
    | IGet :: r =>
        fl_hit fl && check n (mkFl (fl_depth fl) (fl_miss fl) (fl_hit fl) (fl_nodes fl) true (fl_owes fl) (fl_inst fl)) r
    | ILock b :: r =>
        check n (mkFl (S (fl_depth fl)) (fl_miss fl) (fl_hit fl) (fl_nodes fl) (fl_fac fl) (fl_owes fl) (fl_inst fl))
              (b ++ IUnlock :: r)
    | IUnlock :: r =>
        match fl_depth fl with
        | 0 => false
        | S 0 => negb (fl_owes fl)
                 && check n (mkFl 0 false (fl_hit fl) (fl_nodes fl) (fl_fac fl) (fl_owes fl) (fl_inst fl)) r
        | S d => check n (mkFl d (fl_miss fl) (fl_hit fl) (fl_nodes fl) (fl_fac fl) (fl_owes fl) (fl_inst fl)) r
        end
    | ITransform :: r =>
        fl_miss fl && negb (fl_owes fl)
        && check n (mkFl (fl_depth fl) (fl_miss fl) (fl_hit fl) true (fl_fac fl) true (fl_inst fl)) r
    | ICreate :: r =>
        fl_nodes fl && check n (mkFl (fl_depth fl) (fl_miss fl) (fl_hit fl) (fl_nodes fl) true (fl_owes fl) (fl_inst fl)) r
    | IPut :: r =>
        fl_fac fl && negb (Nat.eqb (fl_depth fl) 0)
        && check n (mkFl (fl_depth fl) false true (fl_nodes fl) (fl_fac fl) false (fl_inst fl)) r
    | IInstantiate :: r =>
        fl_fac fl && negb (fl_inst fl)
        && check n (mkFl (fl_depth fl) (fl_miss fl) (fl_hit fl) (fl_nodes fl) (fl_fac fl) (fl_owes fl) true) r
    end
  end.

Fixpoint isize (i : instr) : nat :=
  match i with
  | IIfHas h m => S ((fix go (l : list instr) := match l with [] => 0 | x :: r => isize x + go r end) h
                     + (fix go (l : list instr) := match l with [] => 0 | x :: r => isize x + go r end) m)
  | ILock b => S (S ((fix go (l : list instr) := match l with [] => 0 | x :: r => isize x + go r end) b))
  | _ => 1
  end.
Definition psize (p : prog) : nat := fold_right (fun i n => isize i + n) 0 p.

(* the decidable discipline: every transform / store happens while holding the
   lock after a `has` that missed under that same lock, the store follows the
   transform before the lock is released, every read of the cache follows a
   hit, locals are bound before use, the lock is released at the end *)
Definition double_checked (p : prog) : bool := check (S (psize p)) fl0 p.
