(* C10 -- proofs about the cache machine: an inductive invariant of every
   reachable state of every program that satisfies the discipline. *)
From Coq Require Import List Arith Bool Lia.
Import ListNotations.
Require Import MV.Cache.Machine.

Lemma key_eqb_eq : forall a b, key_eqb a b = true <-> a = b.
Proof.
  intros [a1 a2] [b1 b2]; unfold key_eqb; simpl.
  rewrite andb_true_iff, !Nat.eqb_eq. split.
  - intros [-> ->]; reflexivity.
  - intros H; inversion H; auto.
Qed.
Lemma key_eqb_refl : forall k, key_eqb k k = true.
Proof. intros; apply key_eqb_eq; reflexivity. Qed.
Lemma key_eqb_neq : forall a b, a <> b -> key_eqb a b = false.
Proof. intros a b H; destruct (key_eqb a b) eqn:E; auto. apply key_eqb_eq in E; contradiction. Qed.

Lemma upd_same : forall A (f : nat -> A) i v, upd f i v i = v.
Proof. intros; unfold upd; rewrite Nat.eqb_refl; reflexivity. Qed.
Lemma upd_other : forall A (f : nat -> A) i v j, j <> i -> upd f i v j = f j.
Proof. intros; unfold upd. destruct (Nat.eqb j i) eqn:E; auto. apply Nat.eqb_eq in E; contradiction. Qed.
Lemma kupd_same : forall A (f : key -> A) k v, kupd f k v k = v.
Proof. intros; unfold kupd; rewrite key_eqb_refl; reflexivity. Qed.
Lemma kupd_other : forall A (f : key -> A) k v j, j <> k -> kupd f k v j = f j.
Proof. intros; unfold kupd; rewrite key_eqb_neq; auto. Qed.

Definition lock_depth_of (l : option (nat * nat)) (tid : nat) : nat :=
  match l with
  | Some (o, d) => if Nat.eqb o tid then d else 0
  | None => 0
  end.
Definition lock_depth (s : state) (tid : nat) : nat := lock_depth_of (s_lock s) tid.

Ltac bools := repeat match goal with
  | H : _ && _ = true |- _ => apply andb_true_iff in H; destruct H
  | H : negb _ = true |- _ => apply negb_true_iff in H
  | H : Nat.eqb _ _ = true |- _ => apply Nat.eqb_eq in H
  | H : Nat.eqb _ _ = false |- _ => apply Nat.eqb_neq in H
  end.

Ltac split7 := split; [|split; [|split; [|split; [|split; [|split]]]]].

Ltac thr_upd :=
  repeat match goal with
  | |- context [upd _ ?i _ ?i] => rewrite upd_same
  | H : ?j <> ?i |- context [upd _ ?i _ ?j] => rewrite (upd_other _ _ i _ j H)
  | H : context [upd _ ?i _ ?i] |- _ => rewrite upd_same in H
  | H : ?j <> ?i, H' : context [upd _ ?i _ ?j] |- _ => rewrite (upd_other _ _ i _ j H) in H'
  end.

(* w = true: the weak machine (buckets may vanish under a request in flight) *)
Section W.
Variable w : bool.

(* what the abstract flags of a thread mean in a concrete state *)
Definition sound (d : nat) (c : option factory) (tc : nat) (k : key) (t : thread) (fl : flags) : Prop :=
  d = fl_depth fl /\
  (fl_miss fl = true -> d <> 0 /\ c = None) /\
  (w = false -> fl_hit fl = true -> c <> None) /\
  (fl_nodes fl = true -> t_nodes t = Some k) /\
  (fl_fac fl = true -> exists f, t_fac t = Some f /\ f_key f = k) /\
  fl_owes fl = t_pend t /\
  (t_pend t = true -> d <> 0 /\ c = None).

Definition tsound (s : state) (tid : nat) (k : key) (t : thread) (fl : flags) : Prop :=
  sound (lock_depth s tid) (s_cache s k) (s_tcount s k) k t fl.

Definition count_ok (s : state) : Prop :=
  forall k, s_tcount s k <= 1 /\
    (s_tcount s k = 1 -> s_cache s k <> None \/
       exists j e, t_req (s_thr s j) = Some (k, e) /\ t_pend (s_thr s j) = true).

Record Inv (s : state) : Prop := mkInv {
  inv_cache : forall k f, s_cache s k = Some f -> f_key f = k;
  inv_lock : forall o d, s_lock s = Some (o, d) -> d <> 0;
  inv_idle : forall tid, t_req (s_thr s tid) = None -> s_thr s tid = idle /\ lock_depth s tid = 0;
  inv_thr : forall tid k e, t_req (s_thr s tid) = Some (k, e) ->
      exists n fl, check n fl (t_k (s_thr s tid)) = true /\ tsound s tid k (s_thr s tid) fl;
  inv_count : count_ok s;
  inv_out : forall k e f e', In (k, e, f, e') (s_out s) -> f_key f = k /\ e' = e;
  inv_err : w = false -> s_err s = []
}.

Lemma inv_init : Inv init.
Proof.
  constructor; simpl; try discriminate; try contradiction; auto.
  intros k; simpl; split; [lia | discriminate].
Qed.

Lemma lock_excl : forall l i j, lock_depth_of l i <> 0 -> j <> i -> lock_depth_of l j = 0.
Proof.
  intros [[o d]|] i j; simpl; auto.
  destruct (Nat.eqb o i) eqn:E1; [|intros H; contradiction].
  apply Nat.eqb_eq in E1; subst. intros _ Hne.
  destruct (Nat.eqb i j) eqn:E2; auto. apply Nat.eqb_eq in E2; subst; contradiction.
Qed.

(* Everything about the threads other than the one that moved. *)
Lemma inv_build : forall s s' tid,
  Inv s ->
  (forall j, j <> tid -> s_thr s' j = s_thr s j) ->
  (forall o d, s_lock s' = Some (o, d) -> d <> 0) ->
  (forall j, j <> tid -> lock_depth s' j = lock_depth s j) ->
  (lock_depth s tid = 0 -> forall k, s_cache s' k = s_cache s k /\ s_tcount s' k = s_tcount s k) ->
  (w = false -> forall k, s_cache s k <> None -> s_cache s' k <> None) ->
  (forall k f, s_cache s' k = Some f -> f_key f = k) ->
  (t_req (s_thr s' tid) = None -> s_thr s' tid = idle /\ lock_depth s' tid = 0) ->
  (forall k e, t_req (s_thr s' tid) = Some (k, e) ->
      exists n fl, check n fl (t_k (s_thr s' tid)) = true /\ tsound s' tid k (s_thr s' tid) fl) ->
  count_ok s' ->
  (forall k e f e', In (k, e, f, e') (s_out s') -> f_key f = k /\ e' = e) ->
  (w = false -> s_err s' = []) ->
  Inv s'.
Proof.
  intros s s' tid HI Hthr Hlock Hld Hown Hgrow Hcache Hidle Hself Hcount Hout Herr.
  constructor; auto.
  - intros j Hr. destruct (Nat.eq_dec j tid) as [E|Hne]; [subst j; auto|].
    rewrite (Hthr j Hne) in Hr |- *. rewrite Hld by auto. apply (inv_idle _ HI); auto.
  - intros j k e Hr. destruct (Nat.eq_dec j tid) as [E|Hne]; [subst j; eauto|].
    rewrite (Hthr j Hne) in Hr |- *.
    destruct (inv_thr _ HI j k e Hr) as (n & fl & Hck & Hsd).
    exists n, fl; split; auto.
    unfold tsound in *. rewrite Hld by auto.
    destruct (Nat.eq_dec (lock_depth s j) 0) as [Hz|Hnz].
    + destruct Hsd as (H1 & H2 & H3 & H4 & H5 & H6 & H7).
      rewrite Hz in *.
      refine (conj H1 (conj _ (conj _ (conj H4 (conj H5 (conj H6 _)))))).
      * intros Hm; destruct (H2 Hm) as [? _]; contradiction.
      * intros Hw Hh; apply Hgrow; auto.
      * intros Hp; destruct (H7 Hp) as [? _]; contradiction.
    + assert (Hz : lock_depth s tid = 0) by (apply lock_excl with (i := j); auto).
      destruct (Hown Hz k) as [-> ->]. exact Hsd.
Qed.

Lemma count_keep : forall s s',
  count_ok s ->
  (forall k, s_tcount s' k = s_tcount s k) ->
  (forall k, s_cache s k <> None -> s_cache s' k <> None) ->
  (forall j k e, t_req (s_thr s j) = Some (k, e) -> t_pend (s_thr s j) = true ->
                 t_req (s_thr s' j) = Some (k, e) /\ t_pend (s_thr s' j) = true) ->
  count_ok s'.
Proof.
  intros s s' HC Ht Hc Hp k. rewrite Ht. destruct (HC k) as [H1 H2]. split; auto.
  intros H; destruct (H2 H) as [Hx|(j & e & Hr & Hpd)]; [left; auto|right].
  exists j, e. apply Hp; auto.
Qed.

Lemma lock_depth_self_none : forall tid, lock_depth_of None tid = 0.
Proof. reflexivity. Qed.

(* a pending witness other than tid survives a change of tid's record *)
Lemma pend_other : forall (thr : nat -> thread) tid t' j k e,
  t_req (thr j) = Some (k, e) -> t_pend (thr j) = true ->
  (j = tid -> t_req t' = Some (k, e) /\ t_pend t' = true) ->
  t_req (upd thr tid t' j) = Some (k, e) /\ t_pend (upd thr tid t' j) = true.
Proof.
  intros thr tid t' j k e Hr Hp Hs. destruct (Nat.eq_dec j tid) as [->|Hne].
  - rewrite upd_same; auto.
  - rewrite upd_other by auto; auto.
Qed.

(* a step that only changes the moving thread's record (and ghost logs) *)
Lemma inv_local : forall s tid t' sr tl out k e,
  Inv s -> t_req (s_thr s tid) = Some (k, e) ->
  t_req t' = Some (k, e) -> t_pend t' = t_pend (s_thr s tid) ->
  (exists n fl, check n fl (t_k t') = true /\
                sound (lock_depth s tid) (s_cache s k) (s_tcount s k) k t' fl) ->
  (forall k e f e', In (k, e, f, e') out -> f_key f = k /\ e' = e) ->
  Inv (mkS (s_cache s) (s_lock s) (upd (s_thr s) tid t') sr (s_tcount s) tl out (s_err s)).
Proof.
  intros s tid t' sr tl out k e HI Hreq Hr' Hp' Hself Hout.
  apply inv_build with (s := s) (tid := tid); simpl; auto.
  - intros j Hj; rewrite upd_other; auto.
  - apply (inv_lock _ HI).
  - apply (inv_cache _ HI).
  - rewrite upd_same, Hr'; discriminate.
  - rewrite upd_same. intros k0 e0 Hr0. rewrite Hr' in Hr0; inversion Hr0; subst k0 e0. exact Hself.
  - apply count_keep with (s := s); simpl; auto.
    + apply (inv_count _ HI).
    + intros j k0 e0 Hr0 Hp0. apply pend_other; auto.
      intros ->. rewrite Hreq in Hr0. inversion Hr0; subst. rewrite Hp'; auto.
  - apply (inv_err _ HI).
Qed.

(* the request of tid dies *)
Lemma inv_abort : forall s tid k e err,
  Inv s -> t_req (s_thr s tid) = Some (k, e) -> (w = false -> err = false) -> Inv (abort s tid err).
Proof.
  intros s tid k e err HI Hreq Herr.
  destruct (inv_thr _ HI tid k e Hreq) as (n & fl & _ & Hsd).
  destruct Hsd as (S1 & S2 & S3 & S4 & S5 & S6 & S7).
  unfold abort. rewrite Hreq.
  assert (Hrel : forall j, j <> tid -> lock_depth_of (release_all (s_lock s) tid) j = lock_depth s j).
  { intros j Hj. unfold lock_depth, release_all. destruct (s_lock s) as [[o d]|]; simpl; auto.
    destruct (Nat.eqb o tid) eqn:E; simpl; auto. apply Nat.eqb_eq in E; subst o.
    destruct (Nat.eqb tid j) eqn:E2; auto. apply Nat.eqb_eq in E2; subst; contradiction. }
  apply inv_build with (s := s) (tid := tid); simpl; auto.
  - intros j Hj; rewrite upd_other; auto.
  - intros o d. unfold release_all. destruct (s_lock s) as [[o' d']|] eqn:El; [|discriminate].
    destruct (Nat.eqb o' tid); [discriminate|]. intros H; inversion H; subst. apply (inv_lock _ HI _ _ El).
  - intros Hz k0. split; auto. destruct (t_pend (s_thr s tid)) eqn:Hp; auto.
    destruct (S7 eq_refl) as [Hd _]. contradiction.
  - apply (inv_cache _ HI).
  - intros _. rewrite upd_same. split; auto.
    unfold lock_depth; simpl. unfold release_all. destruct (s_lock s) as [[o d]|]; simpl; auto.
    destruct (Nat.eqb o tid) eqn:E; simpl; auto. rewrite E; auto.
  - rewrite upd_same; simpl; discriminate.
  - intros k0. destruct (inv_count _ HI k0) as [C1 C2].
    assert (Hoth : s_tcount s k0 = 1 -> s_cache s k0 <> None \/
              exists j e0, t_req (upd (s_thr s) tid idle j) = Some (k0, e0) /\ t_pend (upd (s_thr s) tid idle j) = true
              \/ (k0 = k /\ t_pend (s_thr s tid) = true)).
    { intros H1. destruct (C2 H1) as [Hc|(j & e0 & Hr0 & Hp0)]; auto. right.
      exists j, e0. destruct (Nat.eq_dec j tid) as [->|Hj].
      - right. rewrite Hreq in Hr0; inversion Hr0; auto.
      - left. rewrite upd_other; auto. }
    simpl. destruct (t_pend (s_thr s tid)) eqn:Hp.
    + destruct (S7 eq_refl) as (_ & Hcn).
      destruct (key_eqb k0 k) eqn:Ek.
      * apply key_eqb_eq in Ek; subst k0. rewrite kupd_same. split; [lia|discriminate].
      * assert (k0 <> k) by (intros ->; rewrite key_eqb_refl in Ek; discriminate).
        rewrite kupd_other by auto. split; auto. intros H1.
        destruct (Hoth H1) as [Hc|(j & e0 & [[Hr0 Hp0]|[Hk _]])]; [left; auto|right; eauto|contradiction].
    + split; auto. intros H1.
      destruct (Hoth H1) as [Hc|(j & e0 & [[Hr0 Hp0]|[_ Hx]])]; [left; auto|right; eauto|discriminate].
  - apply (inv_out _ HI).
  - intros Hw. rewrite (Herr Hw). apply (inv_err _ HI Hw).
Qed.

Lemma lock_owner_depth : forall s tid, lock_depth s tid <> 0 ->
  exists d, s_lock s = Some (tid, d) /\ lock_depth s tid = d.
Proof.
  intros s tid. unfold lock_depth, lock_depth_of. destruct (s_lock s) as [[o d]|]; [|intros H; contradiction].
  destruct (Nat.eqb o tid) eqn:E; [|intros H; contradiction].
  apply Nat.eqb_eq in E; subst. intros _. exists d; auto.
Qed.

Lemma step_thread_inv : forall s tid s', Inv s -> step_thread s tid = Some s' -> Inv s'.
Proof.
  intros s tid s' HI Hs. unfold step_thread in Hs.
  destruct (t_req (s_thr s tid)) as [[k e]|] eqn:Hreq; [|discriminate].
  destruct (inv_thr _ HI tid k e Hreq) as (n & fl & Hck & Hsd).
  pose proof Hsd as Hsd0.
  destruct Hsd as (S1 & S2 & S3 & S4 & S5 & S6 & S7).
  destruct n as [|n]; [discriminate|].
  destruct (t_k (s_thr s tid)) as [|i r] eqn:Hk.
  - (* return *)
    inversion Hs; subst s'; clear Hs. simpl in Hck. bools.
    unfold set_thr.
    apply inv_build with (s := s) (tid := tid); simpl; auto.
    + intros j Hj; rewrite upd_other; auto.
    + apply (inv_lock _ HI).
    + apply (inv_cache _ HI).
    + intros _. rewrite upd_same. split; auto. unfold lock_depth in *; simpl. congruence.
    + rewrite upd_same; simpl; discriminate.
    + apply count_keep with (s := s); simpl; auto.
      * apply (inv_count _ HI).
      * intros j k0 e0 Hr0 Hp0. apply pend_other; auto.
        intros ->. congruence.
    + apply (inv_out _ HI).
    + apply (inv_err _ HI).
  - destruct i; simpl in Hck; bools.
    + (* IIfHas *)
      inversion Hs; subst s'; clear Hs. unfold set_thr.
      apply inv_local with (k := k) (e := e); auto.
      * simpl. destruct (s_cache s k) eqn:Hc.
        -- eexists n, _; split; [eassumption|]. unfold sound; simpl. split7; auto; try discriminate; try (intros; discriminate).
        -- eexists n, _; split; [eassumption|]. unfold sound; simpl. split7; auto; try discriminate; try (intros; discriminate).
           intros Hd; bools. split; auto. congruence.
      * apply (inv_out _ HI).
    + (* IGet *)
      destruct (s_cache s k) as [f|] eqn:Hc.
      * inversion Hs; subst s'; clear Hs. unfold set_thr.
        apply inv_local with (k := k) (e := e); auto.
        -- simpl. eexists n, _; split; [eassumption|]. unfold sound; simpl. rewrite Hc in *. split7; auto.
           intros _. exists f; split; auto. apply (inv_cache _ HI); auto.
        -- apply (inv_out _ HI).
      * destruct (Bool.bool_dec w false) as [Hw|Hw].
        -- exfalso. apply (S3 Hw); auto.
        -- inversion Hs; subst s'. apply inv_abort with (k := k) (e := e); auto.
           intros Hw'; contradiction.
    + (* ILock *)
      assert (Hnew : forall d', (s_lock s = None /\ d' = 1 \/ exists d, s_lock s = Some (tid, d) /\ d' = S d) ->
                Inv (mkS (s_cache s) (Some (tid, d')) (upd (s_thr s) tid
                       (mkT (Some (k, e)) (body ++ IUnlock :: r) (t_nodes (s_thr s tid)) (t_fac (s_thr s tid)) (t_pend (s_thr s tid))))
                       (s_serial s) (s_tcount s) (s_tlog s) (s_out s) (s_err s))).
      { intros d' Hd'.
        assert (Hdep : d' = S (lock_depth s tid)).
        { unfold lock_depth. destruct Hd' as [[-> ->]|(d & -> & ->)]; simpl; auto. rewrite Nat.eqb_refl; auto. }
        apply inv_build with (s := s) (tid := tid); simpl; auto.
        - intros j Hj; rewrite upd_other; auto.
        - intros o d0 H0; inversion H0; subst. lia.
        - intros j Hj. unfold lock_depth; simpl.
          destruct (Nat.eqb tid j) eqn:E; [apply Nat.eqb_eq in E; subst; contradiction|].
          destruct Hd' as [[-> _]|(d & -> & _)]; simpl; auto. rewrite E; auto.
        - apply (inv_cache _ HI).
        - rewrite upd_same; simpl. try rewrite Hreq; discriminate.
        - rewrite upd_same; simpl. intros k0 e0 Hr0. try rewrite Hreq in Hr0; inversion Hr0; subst k0 e0.
          eexists n, _; split; [eassumption|]. unfold tsound, lock_depth; simpl. rewrite Nat.eqb_refl.
          fold (lock_depth s tid) in *. unfold sound; simpl. split7; auto.
          + lia.
          + intros Hm. destruct (S2 Hm). split; auto; lia.
          + intros Hp. destruct (S7 Hp) as (? & ?). split; auto; lia.
        - apply count_keep with (s := s); simpl; auto.
          + apply (inv_count _ HI).
          + intros j k0 e0 Hr0 Hp0. apply pend_other; auto.
            intros ->; simpl; split; congruence.
        - apply (inv_out _ HI).
        - apply (inv_err _ HI). }
      destruct (s_lock s) as [[o d]|] eqn:El.
      * destruct (Nat.eqb o tid) eqn:E; [|discriminate]. apply Nat.eqb_eq in E; subst o.
        inversion Hs; subst s'. apply Hnew. right; eauto.
      * inversion Hs; subst s'. apply Hnew. left; auto.
    + (* IUnlock *)
      destruct (fl_depth fl) as [|d0] eqn:Hfd; [discriminate|].
      assert (Hnz : lock_depth s tid <> 0) by lia.
      destruct (lock_owner_depth _ _ Hnz) as (dd & El & Hdd).
      rewrite El in Hs. rewrite S1 in Hdd. subst dd. rewrite Nat.eqb_refl in Hs.
      inversion Hs; subst s'; clear Hs.
      assert (Hoth : forall l', (forall j, j <> tid -> lock_depth_of l' j = 0) ->
                 forall j, j <> tid -> lock_depth_of l' j = lock_depth s j).
      { intros l' Hl' j Hj. rewrite Hl' by auto. symmetry. apply lock_excl with (i := tid); auto. }
      destruct d0 as [|d0].
      * (* outermost release *)
        bools.
        apply inv_build with (s := s) (tid := tid); simpl; auto.
        -- intros j Hj; rewrite upd_other; auto.
        -- discriminate.
        -- intros j Hj. unfold lock_depth at 1; simpl. symmetry; apply lock_excl with (i := tid); auto.
        -- apply (inv_cache _ HI).
        -- rewrite upd_same; simpl. try rewrite Hreq; discriminate.
        -- rewrite upd_same; simpl. intros k0 e0 Hr0. try rewrite Hreq in Hr0; inversion Hr0; subst k0 e0.
           eexists n, _; split; [eassumption|]. unfold tsound, lock_depth; simpl.
           unfold sound; simpl. split7; auto; try discriminate; try (intros; discriminate).
           intros Hp. congruence.
        -- apply count_keep with (s := s); simpl; auto.
           ++ apply (inv_count _ HI).
           ++ intros j k0 e0 Hr0 Hp0. apply pend_other; auto.
              intros ->; simpl; split; congruence.
        -- apply (inv_out _ HI).
        -- apply (inv_err _ HI).
      * apply inv_build with (s := s) (tid := tid); simpl; auto.
        -- intros j Hj; rewrite upd_other; auto.
        -- intros o d1 H1; inversion H1; subst; lia.
        -- intros j Hj. apply Hoth; auto. intros j' Hj'. simpl.
           destruct (Nat.eqb tid j') eqn:E; auto. apply Nat.eqb_eq in E; subst; contradiction.
        -- apply (inv_cache _ HI).
        -- rewrite upd_same; simpl. try rewrite Hreq; discriminate.
        -- rewrite upd_same; simpl. intros k0 e0 Hr0. try rewrite Hreq in Hr0; inversion Hr0; subst k0 e0.
           eexists n, _; split; [eassumption|]. unfold tsound, lock_depth; simpl. rewrite Nat.eqb_refl.
           unfold sound; simpl. split7; auto.
           ++ intros Hm. destruct (S2 Hm). split; auto.
           ++ intros Hp. destruct (S7 Hp) as (? & ?). split; auto.
        -- apply count_keep with (s := s); simpl; auto.
           ++ apply (inv_count _ HI).
           ++ intros j k0 e0 Hr0 Hp0. apply pend_other; auto.
              intros ->; simpl; split; congruence.
        -- apply (inv_out _ HI).
        -- apply (inv_err _ HI).
    + (* ITransform *)
      inversion Hs; subst s'; clear Hs.
      match goal with H : fl_miss fl = true |- _ => destruct (S2 H) as [Hnz Hcn] end.
      assert (Hnp : t_pend (s_thr s tid) = false) by congruence.
      assert (Htc0 : s_tcount s k = 0).
      { destruct (inv_count _ HI k) as [C1 C2].
        destruct (Nat.eq_dec (s_tcount s k) 1) as [Hone|]; [|lia].
        destruct (C2 Hone) as [Hc|(j & e0 & Hr0 & Hp0)]; [contradiction|].
        destruct (inv_thr _ HI j k e0 Hr0) as (n0 & fl0' & _ & Hsj).
        destruct Hsj as (_ & _ & _ & _ & _ & _ & T7). destruct (T7 Hp0) as [Hdj _].
        destruct (Nat.eq_dec j tid) as [->|Hj]; [congruence|].
        exfalso. apply Hdj. apply lock_excl with (i := tid); auto. }
      apply inv_build with (s := s) (tid := tid); simpl; auto.
      * intros j Hj; rewrite upd_other; auto.
      * apply (inv_lock _ HI).
      * intros; contradiction.
      * apply (inv_cache _ HI).
      * rewrite upd_same; simpl. try rewrite Hreq; discriminate.
      * rewrite upd_same; simpl. intros k0 e0 Hr0. try rewrite Hreq in Hr0; inversion Hr0; subst k0 e0.
        eexists n, _; split; [eassumption|]. unfold tsound, lock_depth; simpl.
        fold (lock_depth s tid). rewrite kupd_same. unfold sound; simpl. split7; auto;
          try (intros _; split; auto).
      * intros k0; simpl. destruct (key_eqb k0 k) eqn:Ek.
        -- apply key_eqb_eq in Ek; subst k0. rewrite kupd_same. split; [lia|].
           intros _. right. exists tid, e. rewrite upd_same; simpl. auto.
        -- assert (k0 <> k) by (intros ->; rewrite key_eqb_refl in Ek; discriminate).
           rewrite kupd_other by auto. destruct (inv_count _ HI k0) as [C1 C2]. split; auto.
           intros Hone. destruct (C2 Hone) as [Hc|(j & e0 & Hr0 & Hp0)]; [left; auto|right].
           exists j, e0. apply pend_other; auto. intros ->. try rewrite Hreq in Hr0; inversion Hr0; congruence.
      * apply (inv_out _ HI).
      * apply (inv_err _ HI).
    + (* ICreate *)
      match goal with H : fl_nodes fl = true |- _ => rewrite (S4 H) in Hs end.
      inversion Hs; subst s'; clear Hs.
      apply inv_local with (k := k) (e := e); auto.
      * simpl. eexists n, _; split; [eassumption|]. unfold sound; simpl. split7; auto.
        intros _. eexists; split; eauto.
      * apply (inv_out _ HI).
    + (* IPut *)
      match goal with H : fl_fac fl = true |- _ => destruct (S5 H) as (f & Hf & Hfk) end.
      rewrite Hf in Hs. inversion Hs; subst s'; clear Hs.
      assert (Hnz : lock_depth s tid <> 0) by congruence.
      apply inv_build with (s := s) (tid := tid); simpl; auto.
      * intros j Hj; rewrite upd_other; auto.
      * apply (inv_lock _ HI).
      * intros; contradiction.
      * intros _ k0 Hk0. unfold kupd. destruct (key_eqb k0 k); auto; discriminate.
      * intros k0 f0. unfold kupd. destruct (key_eqb k0 k) eqn:Ek.
        -- apply key_eqb_eq in Ek; subst k0. intros Hin; inversion Hin; subst; auto.
        -- apply (inv_cache _ HI).
      * rewrite upd_same; simpl. try rewrite Hreq; discriminate.
      * rewrite upd_same; simpl. intros k0 e0 Hr0. try rewrite Hreq in Hr0; inversion Hr0; subst k0 e0.
        eexists n, _; split; [eassumption|]. unfold tsound, lock_depth; simpl.
        fold (lock_depth s tid). rewrite kupd_same. unfold sound; simpl. split7; auto; try discriminate; try (intros; discriminate).
        intros _. exists f; auto.
      * intros k0; simpl. destruct (inv_count _ HI k0) as [C1 C2]. split; auto.
        intros Hone. destruct (key_eqb k0 k) eqn:Ek.
        -- apply key_eqb_eq in Ek; subst k0. left. rewrite kupd_same; discriminate.
        -- assert (k0 <> k) by (intros ->; rewrite key_eqb_refl in Ek; discriminate).
           rewrite kupd_other by auto.
           destruct (C2 Hone) as [Hc|(j & e0 & Hr0 & Hp0)]; [left; auto|right].
           exists j, e0. apply pend_other; auto. intros ->. try rewrite Hreq in Hr0; inversion Hr0; congruence.
      * apply (inv_out _ HI).
      * apply (inv_err _ HI).
    + (* IInstantiate *)
      match goal with H : fl_fac fl = true |- _ => destruct (S5 H) as (f & Hf & Hfk) end.
      rewrite Hf in Hs. inversion Hs; subst s'; clear Hs.
      apply inv_local with (k := k) (e := e); auto.
      * simpl. eexists n, _; split; [eassumption|]. unfold sound; simpl. split7; auto.
        intros _; exists f; auto.
      * intros k0 e0 f0 e0' [Hin|Hin]; [inversion Hin; subst; auto|apply (inv_out _ HI _ _ _ _ Hin)].
Qed.

Lemma step_inv : forall p s l s',
  double_checked p = true -> Inv s -> (w = false -> valid s l) -> step p s l = Some s' -> Inv s'.
Proof.
  intros p s l s' Hp HI Hv Hs. destruct l as [tid k e|tid|tid|c]; simpl in Hs.
  - (* LStart *)
    destruct (t_req (s_thr s tid)) eqn:Hreq; [discriminate|].
    inversion Hs; subst s'; clear Hs. unfold set_thr.
    destruct (inv_idle _ HI tid Hreq) as [Hid Hld0].
    apply inv_build with (s := s) (tid := tid); simpl; auto.
    + intros j Hj; rewrite upd_other; auto.
    + apply (inv_lock _ HI).
    + apply (inv_cache _ HI).
    + rewrite upd_same; simpl; discriminate.
    + rewrite upd_same; simpl. intros k0 e0 Hr0; inversion Hr0; subst k0 e0.
      exists (S (psize p)), fl0. split; [exact Hp|].
      unfold tsound, lock_depth in *; simpl. rewrite Hld0. unfold sound; simpl.
      split7; auto; try discriminate; try (intros; discriminate).
    + apply count_keep with (s := s); simpl; auto.
      * apply (inv_count _ HI).
      * intros j k0 e0 Hr0 Hp0. apply pend_other; auto. intros ->. congruence.
    + apply (inv_out _ HI).
    + apply (inv_err _ HI).
  - eapply step_thread_inv; eauto.
  - (* LFail *)
    destruct (t_req (s_thr s tid)) as [[k e]|] eqn:Hreq; [|discriminate].
    destruct (t_k (s_thr s tid)) as [|[] r]; try discriminate;
      inversion Hs; subst s'; eapply inv_abort; eauto.
  - (* LGc *)
    inversion Hs; subst s'; clear Hs. simpl in Hv.
    constructor; simpl.
    + intros k f. destruct (Nat.eqb (fst k) c); [discriminate|apply (inv_cache _ HI)].
    + apply (inv_lock _ HI).
    + apply (inv_idle _ HI).
    + intros tid k e Hr. destruct (inv_thr _ HI tid k e Hr) as (n & fl & Hck & Hsd).
      exists n, fl; split; auto. unfold tsound, lock_depth in *; simpl.
      destruct (Nat.eqb (fst k) c) eqn:Hne; [|exact Hsd].
      destruct Hsd as (S1 & S2 & S3 & S4 & S5 & S6 & S7).
      refine (conj S1 (conj _ (conj _ (conj S4 (conj S5 (conj S6 _)))))).
      * intros Hm. destruct (S2 Hm). split; auto.
      * intros Hw. exfalso. apply Nat.eqb_eq in Hne. exact (Hv Hw tid k e Hr Hne).
      * intros Hpd. destruct (S7 Hpd). split; auto.
    + intros k; simpl. destruct (Nat.eqb (fst k) c) eqn:E.
      * split; [lia|discriminate].
      * apply (inv_count _ HI).
    + apply (inv_out _ HI).
    + apply (inv_err _ HI).
Qed.

(* reachability in the machine selected by w *)
Inductive reachw (p : prog) : state -> Prop :=
| reachw_init : reachw p init
| reachw_step : forall s l s', reachw p s -> (w = false -> valid s l) -> step p s l = Some s' -> reachw p s'.

Theorem reachw_inv : forall p, double_checked p = true -> forall s, reachw p s -> Inv s.
Proof.
  intros p Hp s HR. induction HR.
  - exact inv_init.
  - eapply step_inv; eauto.
Qed.
End W.

Lemma reach_reachw : forall p s, reach p s -> reachw false p s.
Proof. intros p s HR; induction HR; [constructor|econstructor; eauto]. Qed.

Lemma run_reachw : forall p ls s0 s, reachw true p s0 -> run p s0 ls = Some s -> reachw true p s.
Proof.
  intros p ls; induction ls as [|l r IH]; intros s0 s HR Hrun; simpl in *.
  - inversion Hrun; subst; auto.
  - destruct (step p s0 l) as [s1|] eqn:Hs; [|discriminate].
    apply IH with (s0 := s1); auto. eapply reachw_step; eauto. discriminate.
Qed.
Lemma reach_weak_reachw : forall p s, reach_weak p s -> reachw true p s.
Proof. intros p s [ls Hr]. eapply run_reachw; eauto. constructor. Qed.

Theorem reach_inv : forall p, double_checked p = true -> forall s, reach p s -> Inv false s.
Proof. intros p Hp s HR. apply reachw_inv with (p := p); auto. apply reach_reachw; auto. Qed.

(* ---------------------------------------------------------------- *)
(* the statements of coq/Properties/C10                              *)

Section Main.
Variable p : prog.
Hypothesis Hp : double_checked p = true.

(* successful transformations of a key since the last collection of its code
   class (those of failed requests not counted): never more than one *)
Theorem transform_at_most_once : forall s, reach p s -> forall k, s_tcount s k <= 1.
Proof. intros s HR k. apply (inv_count _ _ (reach_inv p Hp s HR) k). Qed.

(* a second transformation can only start when the first one's result is
   neither cached nor about to be: stated on transitions *)
Theorem transform_only_when_absent_w : forall w s tid k e r,
  reachw w p s -> t_req (s_thr s tid) = Some (k, e) -> t_k (s_thr s tid) = ITransform :: r ->
  s_cache s k = None /\ s_tcount s k = 0 /\ lock_depth s tid <> 0.
Proof.
  intros w s tid k e r HR Hreq Hk.
  pose proof (reachw_inv w p Hp s HR) as HI.
  destruct (inv_thr _ _ HI tid k e Hreq) as (n & fl & Hck & Hsd).
  rewrite Hk in Hck. destruct n; [discriminate|]. simpl in Hck. bools.
  destruct Hsd as (S1 & S2 & S3 & S4 & S5 & S6 & S7).
  match goal with H : fl_miss fl = true |- _ => destruct (S2 H) as [Hnz Hcn] end.
  split; auto. split; auto.
  destruct (inv_count _ _ HI k) as [C1 C2].
  destruct (Nat.eq_dec (s_tcount s k) 1) as [Hone|]; [|lia].
  destruct (C2 Hone) as [Hc|(j & e0 & Hr0 & Hp0)]; [contradiction|].
  destruct (inv_thr _ _ HI j k e0 Hr0) as (n0 & fl0' & _ & Hsj).
  destruct Hsj as (_ & _ & _ & _ & _ & _ & T7). destruct (T7 Hp0) as [Hdj _].
  destruct (Nat.eq_dec j tid) as [->|Hj]; [congruence|].
  exfalso. apply Hdj. apply lock_excl with (i := tid); auto.
Qed.
Theorem transform_only_when_absent : forall s tid k e r,
  reach p s -> t_req (s_thr s tid) = Some (k, e) -> t_k (s_thr s tid) = ITransform :: r ->
  s_cache s k = None /\ s_tcount s k = 0 /\ lock_depth s tid <> 0.
Proof. intros s tid k e r HR. apply transform_only_when_absent_w with (w := false). apply reach_reachw; auto. Qed.

Theorem cache_coherent : forall s, reach p s ->
  (forall k f, s_cache s k = Some f -> f_key f = k) /\
  (forall k e f e', In (k, e, f, e') (s_out s) -> f_key f = k).
Proof.
  intros s HR. pose proof (reach_inv p Hp s HR) as HI. split.
  - apply (inv_cache _ _ HI).
  - intros k e f e' Hin. apply (inv_out _ _ HI _ _ _ _ Hin).
Qed.

Theorem no_alias : forall s, reach p s ->
  forall k1 e1 f1 b1 k2 e2 f2 b2,
    In (k1, e1, f1, b1) (s_out s) -> In (k2, e2, f2, b2) (s_out s) ->
    b1 = e1 /\ b2 = e2 /\ (k1 <> k2 -> f1 <> f2).
Proof.
  intros s HR k1 e1 f1 b1 k2 e2 f2 b2 H1 H2.
  pose proof (reach_inv p Hp s HR) as HI.
  destruct (inv_out _ _ HI _ _ _ _ H1) as [A1 B1].
  destruct (inv_out _ _ HI _ _ _ _ H2) as [A2 B2].
  split; auto. split; auto. intros Hne Heq. subst f2. congruence.
Qed.

Theorem no_stale : forall s, reach p s ->
  forall c o e f e', In ((c, o), e, f, e') (s_out s) -> fst (f_key f) = c /\ snd (f_key f) = o.
Proof.
  intros s HR c o e f e' Hin.
  destruct (inv_out _ _ (reach_inv p Hp s HR) _ _ _ _ Hin) as [A _]. rewrite A; auto.
Qed.

Theorem no_error : forall s, reach p s -> s_err s = [].
Proof. intros s HR. apply (inv_err _ _ (reach_inv p Hp s HR)). reflexivity. Qed.

Theorem lock_released : forall s, reach p s ->
  forall o d, s_lock s = Some (o, d) -> t_req (s_thr s o) <> None.
Proof.
  intros s HR o d Hl Hn. pose proof (reach_inv p Hp s HR) as HI.
  destruct (inv_idle _ _ HI o Hn) as [_ Hz]. unfold lock_depth, lock_depth_of in Hz.
  rewrite Hl, Nat.eqb_refl in Hz. apply (inv_lock _ _ HI _ _ Hl). exact Hz.
Qed.

(* the weak machine: buckets may be collected under a request in flight.  A
   request may then die of KeyError (see keyerror_under_alias_gc_refuted), but
   everything else survives: at most one transformation per key and epoch, and
   whatever is cached or handed out belongs to the asking request *)
Theorem weak_machine_safe : forall s, reach_weak p s ->
  (forall k, s_tcount s k <= 1) /\
  (forall k f, s_cache s k = Some f -> f_key f = k) /\
  (forall k e f e', In (k, e, f, e') (s_out s) -> f_key f = k /\ e' = e) /\
  (forall o d, s_lock s = Some (o, d) -> t_req (s_thr s o) <> None).
Proof.
  intros s HR. pose proof (reachw_inv true p Hp s (reach_weak_reachw p s HR)) as HI.
  split; [intros k; apply (inv_count _ _ HI k)|].
  split; [apply (inv_cache _ _ HI)|].
  split; [apply (inv_out _ _ HI)|].
  intros o d Hl Hn. destruct (inv_idle _ _ HI o Hn) as [_ Hz]. unfold lock_depth, lock_depth_of in Hz.
  rewrite Hl, Nat.eqb_refl in Hz. apply (inv_lock _ _ HI _ _ Hl). exact Hz.
Qed.
End Main.

(* schedules without collections are schedules of the strict machine *)
Definition no_gc (l : label) : bool := match l with LGc _ => false | _ => true end.
Lemma run_reach : forall p ls s0 s,
  reach p s0 -> forallb no_gc ls = true -> run p s0 ls = Some s -> reach p s.
Proof.
  intros p ls; induction ls as [|l r IH]; intros s0 s HR Hn Hrun; simpl in *.
  - inversion Hrun; subst; auto.
  - apply andb_true_iff in Hn as [Hl Hr]. destruct (step p s0 l) as [s1|] eqn:Hs; [|discriminate].
    apply IH with (s0 := s1); auto. eapply reach_step; eauto.
    destruct l; simpl in *; auto; discriminate.
Qed.

(* keys of requests: functions sharing code share the entry, different option
   values never do -- exactly when the key functions are the expected ones *)
Require Import MV.Cache.KeySrc.
Lemma req_key_spec : forall proj f1 c1 o1 f2 c2 o2,
  req_key KeyCodeObject SubOptions proj f1 c1 o1 = req_key KeyCodeObject SubOptions proj f2 c2 o2
  <-> c1 = c2 /\ o1 = o2.
Proof. intros; unfold req_key; split; [intros H; inversion H; auto | intros [-> ->]; auto]. Qed.

(* the probe `has` (IIfHas) only reads the shared state *)
Lemma probe_read_only : forall s tid k e h m r s',
  t_req (s_thr s tid) = Some (k, e) -> t_k (s_thr s tid) = IIfHas h m :: r ->
  step_thread s tid = Some s' ->
  s_cache s' = s_cache s /\ s_lock s' = s_lock s /\ s_tcount s' = s_tcount s /\ s_serial s' = s_serial s
  /\ forall j, j <> tid -> s_thr s' j = s_thr s j.
Proof.
  intros s tid k e h m r s' Hr Hk Hs. unfold step_thread in Hs. rewrite Hr, Hk in Hs.
  inversion Hs; subst s'; simpl. repeat split; auto. intros j Hj. apply upd_other; auto.
Qed.
