(* C10 -- the entry layer: a funnel without state of its own serves every
   request from the object's CURRENT attributes, whatever was requested and
   rebound before (all histories, all interleavings of the machine). *)
From Coq Require Import List Arith Bool Lia.
Import ListNotations.
Require Import MV.Cache.Machine MV.Cache.KeySrc MV.Cache.MachineProofs MV.Cache.Entry.

(* ---- what one machine step does to the threads and to s_out ---- *)
Lemma abort_thr : forall s tid err j,
  s_thr (abort s tid err) j = if Nat.eqb j tid then idle else s_thr s j.
Proof. intros; unfold abort, upd; simpl. reflexivity. Qed.

Lemma step_thread_frame : forall s tid s', step_thread s tid = Some s' ->
  (forall j, j <> tid -> s_thr s' j = s_thr s j) /\
  (t_req (s_thr s' tid) = t_req (s_thr s tid) \/ t_req (s_thr s' tid) = None).
Proof.
  intros s tid s' H. unfold step_thread in H.
  destruct (t_req (s_thr s tid)) as [[k e]|] eqn:Hr; [|discriminate].
  assert (Hab : forall err, (forall j, j <> tid -> s_thr (abort s tid err) j = s_thr s j) /\
            (t_req (s_thr (abort s tid err) tid) = Some (k, e) \/ t_req (s_thr (abort s tid err) tid) = None)).
  { intros err; split.
    - intros j Hj. rewrite abort_thr. apply Nat.eqb_neq in Hj. rewrite Hj. reflexivity.
    - right. rewrite abort_thr, Nat.eqb_refl. reflexivity. }
  destruct (t_k (s_thr s tid)) as [|i r] eqn:Hk.
  - inversion H; subst; simpl. split.
    + intros j Hj. apply upd_other; auto.
    + right. rewrite upd_same. reflexivity.
  - destruct i;
      repeat match type of H with
      | match ?x with _ => _ end = Some _ => destruct x eqn:?
      | (if ?x then _ else _) = Some _ => destruct x eqn:?
      end;
      try discriminate;
      try (inversion H; subst s'; first [apply Hab | simpl; split;
           [intros j Hj; apply upd_other; auto | left; rewrite upd_same; simpl; reflexivity]]).
Qed.

Lemma step_thread_out : forall s tid s' f e, step_thread s tid = Some s' ->
  served_now s tid = Some (f, e) ->
  exists k, t_req (s_thr s tid) = Some (k, e) /\ s_out s' = (k, e, f, e) :: s_out s.
Proof.
  intros s tid s' f e H Hs. unfold served_now in Hs. unfold step_thread in H.
  destruct (t_req (s_thr s tid)) as [[k e0]|] eqn:Hr; [|discriminate].
  destruct (t_k (s_thr s tid)) as [|i r] eqn:Hk; [discriminate|].
  destruct i; try discriminate.
  destruct (t_fac (s_thr s tid)) as [f0|] eqn:Hf; [|discriminate].
  inversion Hs; subst. inversion H; subst; simpl. exists k. split; reflexivity.
Qed.

Lemma step_frame : forall p s l s' tid, step p s l = Some s' ->
  match l with LStart t _ _ => t | LStep t => t | LFail t => t | LGc _ => tid end = tid ->
  (forall j, j <> tid -> s_thr s' j = s_thr s j).
Proof.
  intros p s l s' tid H Ht. destruct l; simpl in *; subst.
  - destruct (t_req (s_thr s tid)); [discriminate|]. inversion H; subst; simpl.
    intros j Hj. apply upd_other; auto.
  - apply (step_thread_frame _ _ _ H).
  - destruct (t_req (s_thr s tid)); [|discriminate].
    destruct (t_k (s_thr s tid)) as [|[] ?]; try discriminate;
      inversion H; subst; intros j Hj; rewrite abort_thr; apply Nat.eqb_neq in Hj; rewrite Hj; reflexivity.
  - inversion H; subst; simpl. auto.
Qed.

Lemma fail_req : forall p s tid s', step p s (LFail tid) = Some s' -> t_req (s_thr s' tid) = None.
Proof.
  intros p s tid s' H. simpl in H. destruct (t_req (s_thr s tid)); [|discriminate].
  destruct (t_k (s_thr s tid)) as [|[] ?]; try discriminate;
    inversion H; subst; rewrite abort_thr, Nat.eqb_refl; reflexivity.
Qed.

(* ---- the invariant of the entry layer over a stateless funnel ---- *)
Section Entry.
Variable p : prog.
Hypothesis Hp : double_checked p = true.
Variable proj : nat -> nat.
Variable h : heap.

Record AInv (s : astate) : Prop := mkAInv {
  ai_reach : reach p (a_m s);
  ai_cur : forall tid fid o a, cur_get (a_cur s) tid = Some (fid, o, a) ->
      t_req (s_thr (a_m s) tid) = Some ((fa_code a, o), fa_env a);
  ai_out : forall x, In x (a_out s) -> served_ok x
}.

Lemma cur_get_del : forall c tid j,
  cur_get (cur_del c tid) j = if Nat.eqb j tid then None else cur_get c j.
Proof.
  induction c as [|[t r] c IH]; intros tid j; simpl.
  - destruct (Nat.eqb j tid); reflexivity.
  - destruct (Nat.eqb t tid) eqn:Et; simpl.
    + rewrite IH. destruct (Nat.eqb j tid) eqn:Ej; auto.
      apply Nat.eqb_eq in Et; subst t. rewrite Nat.eqb_sym, Ej. reflexivity.
    + rewrite IH. destruct (Nat.eqb t j) eqn:Etj; auto.
      apply Nat.eqb_eq in Etj; subst t. rewrite Et. reflexivity.
Qed.

Lemma clear_if_idle_spec : forall m' tid cur j r,
  cur_get (clear_if_idle m' tid cur) j = Some r ->
  cur_get cur j = Some r /\ (j = tid -> t_req (s_thr m' tid) <> None).
Proof.
  intros m' tid cur j r H. unfold clear_if_idle in H.
  destruct (t_req (s_thr m' tid)) eqn:E.
  - split; auto. intros _; discriminate.
  - rewrite cur_get_del in H. destruct (Nat.eqb j tid) eqn:Ej; [discriminate|].
    split; auto. intros ->. rewrite Nat.eqb_refl in Ej. discriminate.
Qed.

Lemma astep_inv : forall s l s', AInv s -> avalid s l -> astep FDirect proj p s l = Some s' -> AInv s'.
Proof.
  intros s l s' HI Hv H. destruct HI as [HR HC HO]. destruct l as [fid a|tid fid o|l]; unfold astep in H.
  - inversion H; subst; simpl. constructor; auto.
  - destruct (cur_get (a_cur s) tid) eqn:Hcur; [discriminate|].
    destruct (step p (a_m s) (LStart tid (fa_code (a_heap s fid), o) (fa_env (a_heap s fid)))) as [m'|] eqn:Hs;
      [|discriminate].
    inversion H; subst; simpl. constructor; simpl; auto.
    + eapply reach_step; eauto. exact I.
    + intros j g o' a Hj. simpl in Hj. rewrite Nat.eqb_sym in Hj. destruct (Nat.eqb j tid) eqn:Ej.
      * apply Nat.eqb_eq in Ej; subst j. inversion Hj; subst.
        simpl in Hs. destruct (t_req (s_thr (a_m s) tid)); [discriminate|].
        inversion Hs; subst; simpl. rewrite upd_same. reflexivity.
      * apply Nat.eqb_neq in Ej. rewrite (step_frame _ _ _ _ tid Hs eq_refl j Ej). apply (HC _ _ _ _ Hj).
  - destruct l as [t k e|tid|tid|c]; [discriminate| | |].
    + destruct (step p (a_m s) (LStep tid)) as [m'|] eqn:Hs; [|discriminate].
      inversion H; subst; simpl.
      assert (HR' : reach p m') by (eapply reach_step; eauto; exact I).
      simpl in Hs. destruct (step_thread_frame _ _ _ Hs) as [Hoth Hself].
      constructor; simpl; auto.
      * intros j g o a Hj. apply clear_if_idle_spec in Hj as [Hj Hne].
        destruct (Nat.eq_dec j tid) as [->|Hn].
        -- destruct Hself as [E|E]; [rewrite E; apply (HC _ _ _ _ Hj) | exfalso; apply (Hne eq_refl E)].
        -- rewrite (Hoth j Hn). apply (HC _ _ _ _ Hj).
      * intros x Hin.
        destruct (served_now (a_m s) tid) as [[f e]|] eqn:Hsv; [|auto].
        destruct (cur_get (a_cur s) tid) as [[[g o] a]|] eqn:Hc; [|auto].
        destruct Hin as [<-|Hin]; [|auto].
        destruct (step_thread_out _ _ _ _ _ Hs Hsv) as (k & Hreq & Hout).
        rewrite (HC _ _ _ _ Hc) in Hreq. inversion Hreq; subst.
        pose proof (reach_inv p Hp m' HR') as HI'.
        destruct (inv_out _ _ HI' (fa_code a, o) (fa_env a) f (fa_env a)) as [A _].
        { rewrite Hout. left. reflexivity. }
        simpl. split; auto.
    + destruct (step p (a_m s) (LFail tid)) as [m'|] eqn:Hs; [|discriminate].
      inversion H; subst; simpl. constructor; simpl; auto.
      * eapply reach_step; eauto. exact I.
      * intros j g o a Hj. apply clear_if_idle_spec in Hj as [Hj Hne].
        destruct (Nat.eq_dec j tid) as [->|Hn].
        -- exfalso. apply (Hne eq_refl). eapply fail_req; eauto.
        -- rewrite (step_frame _ _ _ _ tid Hs eq_refl j Hn). apply (HC _ _ _ _ Hj).
    + destruct (step p (a_m s) (LGc c)) as [m'|] eqn:Hs; [|discriminate].
      inversion H; subst; simpl. constructor; simpl; auto.
      * eapply reach_step; eauto. exact Hv.
      * intros j g o a Hj. simpl in Hs. inversion Hs; subst; simpl. apply (HC _ _ _ _ Hj).
Qed.

Theorem areach_inv : forall fu s, funnel_ok fu = true -> areach fu proj p h s -> AInv s.
Proof.
  intros fu s Hf HR. destruct fu; [|discriminate]. induction HR.
  - constructor; simpl; [apply reach_init | discriminate | contradiction].
  - eapply astep_inv; eauto.
Qed.

(* every API request, in every history of rebinding and every interleaving of
   the machine, is served the conversion of the object's code at request time
   under the requested options, bound to the object's env at request time *)
Theorem entry_coherent : forall fu s, funnel_ok fu = true -> areach fu proj p h s ->
  forall fid o a f e, In ((fid, o, a), (f, e)) (a_out s) -> f_key f = (fa_code a, o) /\ e = fa_env a.
Proof. intros fu s Hf HR fid o a f e Hin. apply (ai_out _ (areach_inv fu s Hf HR) _ Hin). Qed.
End Entry.

(* a request reads the attributes the object has NOW *)
Lemma request_reads_current_attributes : forall fu proj p s tid fid o s',
  astep fu proj p s (AReq tid fid o) = Some s' ->
  cur_get (a_cur s') tid = Some (fid, o, a_heap s fid) \/
  exists i, a_out s' = ((fid, o, a_heap s fid), i) :: a_out s.
Proof.
  intros fu proj p s tid fid o s' H. unfold astep in H.
  destruct (cur_get (a_cur s) tid) eqn:Hc; [discriminate|].
  assert (Hstart : forall s1,
    match step p (a_m s) (LStart tid (fa_code (a_heap s fid), o) (fa_env (a_heap s fid))) with
    | Some m' => Some (mkA m' (a_heap s) (a_memo s) ((tid, (fid, o, a_heap s fid)) :: a_cur s) (a_out s))
    | None => None
    end = Some s1 -> cur_get (a_cur s1) tid = Some (fid, o, a_heap s fid)).
  { intros s1 H1. destruct (step p (a_m s) _); [|discriminate]. inversion H1; subst; simpl.
    rewrite Nat.eqb_refl. reflexivity. }
  destruct fu as [|ks ss].
  - left. apply Hstart; auto.
  - destruct (a_memo s (memo_key ks ss proj (fid, o, a_heap s fid))) as [i|].
    + right. exists i. inversion H; subst; reflexivity.
    + left. apply Hstart; auto.
Qed.

(* runs that check the validity of every rebinding and contain no collection
   are histories of areach (used by the examples and the checker) *)
Lemma arunv_areach : forall fu proj p h ls s0 s,
  areach fu proj p h s0 -> arunv fu proj p s0 ls = Some s -> areach fu proj p h s.
Proof.
  intros fu proj p h ls; induction ls as [|l r IH]; intros s0 s HR Hrun; simpl in *.
  - inversion Hrun; subst; auto.
  - destruct (avalidb s0 l) eqn:Hv; [|discriminate].
    destruct (astep fu proj p s0 l) as [s1|] eqn:Hs; [|discriminate].
    apply IH with (s0 := s1); auto. eapply areach_step; eauto.
    destruct l as [| |[]]; simpl in *; auto; discriminate.
Qed.
