(* C10 -- the entry-layer machine evaluated on the request / rebinding
   histories the harness ran on the real entry points (api.to_graph, convert
   wrappers, converted_call), at request granularity: every request is driven
   to completion before the next operation.  The funnel is the GENERATED one,
   so on a tree whose funnel keeps a memo the machine predicts what that memo
   does (and the harness reports the stale answers as violations). *)
From Coq Require Import List Arith Bool.
Import ListNotations.
Require Import MV.Cache.Machine MV.Cache.KeySrc MV.Cache.Entry.

Inductive hop : Set :=
| HMut (fid c e : nat)        (* the attributes of fid become (code class c, env e) *)
| HReq (tid fid o : nat).     (* thread tid asks for fid under options o, and runs to completion *)

Fixpoint adrive (fu : funnel) (proj : nat -> nat) (p : prog) (s : astate) (tid : nat) (fuel : nat)
  : list alabel * astate :=
  match fuel with
  | 0 => ([], s)
  | S n =>
    match t_req (s_thr (a_m s) tid) with
    | None => ([], s)
    | Some _ =>
        match astep fu proj p s (AM (LStep tid)) with
        | Some s' => let (ls, s'') := adrive fu proj p s' tid n in (AM (LStep tid) :: ls, s'')
        | None => ([], s)
        end
    end
  end.

Fixpoint hsched (fu : funnel) (proj : nat -> nat) (p : prog) (s : astate) (ops : list hop) : list alabel :=
  match ops with
  | [] => []
  | HMut fid c e :: r =>
      match astep fu proj p s (AMut fid (mkFA c e)) with
      | Some s1 => AMut fid (mkFA c e) :: hsched fu proj p s1 r
      | None => []
      end
  | HReq tid fid o :: r =>
      match astep fu proj p s (AReq tid fid o) with
      | Some s1 => let (ls, s2) := adrive fu proj p s1 tid 200 in AReq tid fid o :: ls ++ hsched fu proj p s2 r
      | None => []
      end
  end.

Definition heap0 : heap := fun _ => mkFA 0 0.
Definition hrun (fu : funnel) (p : prog) (ops : list hop) : option astate :=
  arunv fu (fun o => o) p (ainit heap0) (hsched fu (fun o => o) p (ainit heap0) ops).

(* a served request as the harness sees it: (function object, options asked,
   code class of the served conversion, options of the served conversion, env
   the served function is bound to) *)
Definition hrow : Set := (nat * nat * nat * nat * nat)%type.
Definition hrow_of (x : areq * inst) : hrow :=
  match x with ((fid, o, _), (f, e)) => (fid, o, fst (f_key f), snd (f_key f), e) end.
Definition hrow_beq (a b : hrow) : bool :=
  match a, b with
  | (a1, a2, a3, a4, a5), (b1, b2, b3, b4, b5) =>
    Nat.eqb a1 b1 && Nat.eqb a2 b2 && Nat.eqb a3 b3 && Nat.eqb a4 b4 && Nat.eqb a5 b5
  end.
Fixpoint hrows_beq (a b : list hrow) : bool :=
  match a, b with
  | [], [] => true
  | x :: a', y :: b' => hrow_beq x y && hrows_beq a' b'
  | _, _ => false
  end.

(* index, history, observed served requests (oldest first) *)
Definition hcase : Set := (nat * list hop * list hrow)%type.
Definition hcheck (fu : funnel) (p : prog) (c : hcase) : bool :=
  match c with
  | (_, ops, rows) =>
    match hrun fu p ops with
    | Some s => hrows_beq (rev (map hrow_of (a_out s))) rows
    | None => false
    end
  end.
Definition hfailing (fu : funnel) (p : prog) (cs : list hcase) : list nat :=
  map (fun c => match c with (n, _, _) => n end) (filter (fun c => negb (hcheck fu p c)) cs).

(* does the machine, under this funnel, serve every request of the history
   from the object's attributes at request time?  (None: the history does not run) *)
Definition hverdict (fu : funnel) (p : prog) (ops : list hop) : option bool :=
  match hrun fu p ops with
  | Some s => Some (forallb served_okb (a_out s))
  | None => None
  end.

(* the shortest history that tells a stateless funnel from one that remembers
   instances: ask, rebind the object in place, ask again *)
Definition rebind_witness : list hop := [HMut 0 1 1; HReq 0 0 0; HMut 0 2 2; HReq 1 0 0].
