(* C03 -- lemmas about the emitted artefacts (Emit.v) and the glue for the block-variable model. *)
From Coq Require Import List String Bool Arith Lia Permutation Sorted.
Import ListNotations.
Require Import MV.Contract.ContractSyntax MV.Contract.StateModel MV.Contract.Emit
               MV.Contract.BlockVars MV.Contract.BlockVarsProofs.
Local Open Scope string_scope.

(* what the getter must contain for variable q *)
Definition read_expr (q : qn) : gexpr := if is_simple q then GPlain q else GGuarded "ag__.ldu" q (show q).

Definition canonical (vars : list qn) : emitted :=
  {| e_names := map show vars; e_getter := map read_expr vars; e_targets := map GPlain vars;
     e_getter_arity := 0; e_setter_arity := 1; e_unpacks_param := true; e_wired := true |}.

(* names, getter and setter denote the same variables, position by position *)
Definition aligned (vars : list qn) (E : emitted) : Prop :=
  List.length (e_names E) = List.length vars /\ List.length (e_getter E) = List.length vars /\
  List.length (e_targets E) = List.length vars /\
  forall i q, nth_error vars i = Some q ->
    nth_error (e_names E) i = Some (show q) /\
    nth_error (e_getter E) i = Some (read_expr q) /\
    nth_error (e_targets E) i = Some (GPlain q).

Lemma canonical_aligned vars : aligned vars (canonical vars).
Proof.
  unfold aligned, canonical; simpl. rewrite !map_length. repeat split; auto; apply map_nth_error; auto.
Qed.

(* ---------------------------------------------------------------- block variables *)
Lemma block_vars_spec B r scope io vars nouts :
  interp B r (bv_scope B) = Some scope -> interp B r (bv_input B) = Some io ->
  block_vars B r = Some (vars, nouts) ->
  NoDup scope -> NoDup io -> incl io scope ->
  nouts <= List.length vars /\ Permutation vars scope /\
  forall i q, nth_error vars i = Some q -> (i < nouts <-> ~ In q io).
Proof.
  intros Hs Hi H Ns Ni Inc. unfold block_vars in H.
  destruct (bv_key B) as [ | [ | iv | ] [ | [ | | ] [ | ]]]; try discriminate.
  destruct (_ && _); try discriminate. rewrite Hs, Hi in H. inversion H; subst; clear H.
  pose proof (isort_perm (key_le io) scope) as P.
  destruct (outputs_first io (isort (key_le io) scope)) as [A Bq]; auto.
  - apply isort_sorted.
  - eapply Permutation_NoDup; [apply Permutation_sym; exact P | auto].
  - intros x Hx. eapply Permutation_in; [apply Permutation_sym; exact P | auto].
Qed.
