(* C03 -- types of the tables generated from malt/converters/control_flow.py, the expression
   converters, malt/operators/*.py and g3doc/reference/operators.md
   (tools/translate/c03_contract.py).  Definitions only. *)
From Coq Require Import List String.
Import ListNotations.

(* how a template placeholder is bound in the templates.replace(...) call *)
Inductive src :=
| SVar (v : string)          (* the local variable v of the method *)
| STupleOf (v : string)      (* tuple(v) *)
| SNamesOf (v : string)      (* tuple(ast.Constant(str(s)) for s in v) *)
| SConstOf (v : string)      (* ast.Constant(v) *)
| SNewSym (base : string)    (* self.ctx.namer.new_symbol('base', reserved) *)
| SNodeField (f : string)    (* node.f *)
| SNone                      (* parser.parse_expression('None') *)
| SOther.

(* argument of the operator call in a template: `p`, `(p,)`, `lambda <n params>: p` *)
Inductive targ := APlace (p : string) | ATuple1 (p : string) | ALambda (nparams : nat) (p : string).

Inductive getter_ret := RetEmpty | RetSplice (p : string).              (* return () | return p, *)
Inductive setter_body := SetPass | SetUnpack (targets from : string).   (* pass | targets, = from *)

Record state_tpl := {
  st_getter : string * list string;      (* def <placeholder>(<params>) *)
  st_ret : getter_ret;
  st_setter : string * list string;
  st_pre : list string;                  (* placeholder statements before the assignment *)
  st_body : setter_body;
  st_binds : list (string * src) }.

Inductive guard_arg := GVar | GStrName | GOtherArg.   (* the loop variable | ast.Constant(str(v)) *)
Inductive guard_case :=
| GSelf                                                (* append(v) *)
| GCall (callee : string) (args : list (bool * guard_arg)).   (* append(callee(lambda: a | a, ...)) *)

Record state_fns := {
  sf_params : list string;
  sf_empty_test : string;
  sf_empty : state_tpl;
  sf_full : state_tpl;
  sf_loop_over : string;
  sf_loop_into : string;
  sf_simple : guard_case;
  sf_composite : guard_case }.

Inductive opts_src :=
| OptsNone
| OptsLoop (var : string) (extra_key : option string) (extra_value_is_unparsed_target : bool).

Record extra_test_tpl := {
  et_def : string * list string;
  et_binds : list (string * src);
  et_var : string;          (* the variable passed to the operator call *)
  et_then : src;            (* its value when the loop has an extra test *)
  et_else : src;            (* ... and when it has none *)
  et_fn_var : string }.

Record stmt_tpl := {
  t_op : string;
  t_call : list targ;
  t_items : list string;
  t_defs : list (string * list string);
  t_binds : list (string * src);
  t_blockvars : list string;        (* targets of  ... = self._get_block_vars(...) *)
  t_statefn_args : list string;     (* arguments of self._create_state_functions(...) *)
  t_statefn_into : string;
  t_decls : string * string;        (* (target, argument) of self._create_nonlocal_declarations(...) *)
  t_opts : opts_src;
  t_extra : option extra_test_tpl }.

Inductive sexp := XVar (v : string) | XUnion (a b : sexp) | XInter (a b : sexp) | XDiff (a b : sexp)
| XFn (field : string).   (* fn_scope.globals / fn_scope.nonlocals: names declared global / nonlocal in the function *)
Inductive keypart := KSelf | KIn (s : string) | KNotIn (s : string).

Record blockvars_tpl := {
  bv_basic : string; bv_composite : string; bv_live_in : string; bv_live_out : string;
  bv_scope_var : string; bv_scope : sexp;
  bv_input_var : string; bv_input : sexp;
  bv_key : list keypart;
  bv_nouts_var : string; bv_nouts_len_of : string; bv_nouts_minus_len_of : string;
  bv_returns : list string }.

Record loop_options_tpl := {
  lo_directive : string; lo_keys_are_argument_names : bool; lo_empty_when_absent : bool }.

(* VariableAccessTransformer.visit_Delete (malt/converters/variables.py): the statements a `del` statement is
   replaced by.  The generated state getters read simple names directly, so they are total only as long as
   no statement between two operator calls unbinds a name. *)
Inductive quantifier := QAny | QAll.
Inductive del_action :=
| DARead              (* ag__.ld(var_)                      -- var_ bound to the target *)
| DABindUndefined     (* var_ = ag__.Undefined(var_name)    -- var_name bound to ast.Constant(<target>.id) *)
| DADelete.           (* del <the target alone> *)
Record delete_rule := {
  dr_rewritten_when : quantifier;   (* the statement is rewritten iff any / all of its targets are plain names,
                                       otherwise it is returned unchanged *)
  dr_name : list del_action;        (* emitted, per target and left to right, for a target that is a plain name *)
  dr_other : list del_action }.     (* ... for any other target *)

Record contract := {
  c_state : state_fns;
  c_if : stmt_tpl; c_while : stmt_tpl; c_for : stmt_tpl;
  c_blockvars : blockvars_tpl;
  c_loop_options : loop_options_tpl;
  c_exprs : list (string * list targ);
  c_sigs : list (string * list string);
  c_calls : list (string * string * nat);
  c_doc_params : list (string * list string);
  c_doc_arity : list (string * string * nat) }.
