(* C03 -- hand model (H): what ControlFlowTransformer emits, as an interpreter of the tables
   generated from its source (ContractSyntax / Generated/C03_gen).  The interpreter follows the
   placeholder bindings of the templates; it does not assume that they are wired correctly --
   that is what the theorems establish for the tables of the current source.  No proofs here. *)
From Coq Require Import List String Bool Arith.
Import ListNotations.
Require Import MV.Contract.ContractSyntax MV.Contract.StateModel.
Local Open Scope string_scope.

Fixpoint lookup {A} (k : string) (l : list (string * A)) : option A :=
  match l with
  | [] => None
  | (k', v) :: r => if String.eqb k k' then Some v else lookup k r
  end.

Fixpoint index_of (k : string) (l : list string) : option nat :=
  match l with
  | [] => None
  | x :: r => if String.eqb k x then Some 0 else option_map S (index_of k r)
  end.

Definition mem (k : string) (l : list string) : bool := existsb (String.eqb k) l.

(* an element of the getter's tuple / a target of the setter's assignment *)
Inductive gexpr :=
| GPlain (q : qn)                                        (* v *)
| GGuarded (callee : string) (q : qn) (name : string)    (* callee(lambda: v, 'name') *)
| GUnknown.

Definition guard_expr (g : guard_case) (q : qn) : gexpr :=
  match g with
  | GSelf => GPlain q
  | GCall callee [(true, GVar); (false, GStrName)] => GGuarded callee q (show q)
  | _ => GUnknown
  end.

Definition guarded (S : state_fns) (q : qn) : gexpr :=
  if is_simple q then guard_expr (sf_simple S) q else guard_expr (sf_composite S) q.

Definition param0 (S : state_fns) : string := nth 0 (sf_params S) "".

(* value of a list-valued binding inside _create_state_functions when its first parameter is vars *)
Definition sf_list (S : state_fns) (vars : list qn) (e : src) : option (list gexpr) :=
  match e with
  | SVar v | STupleOf v =>
      if String.eqb v (sf_loop_into S)
      then (if String.eqb (sf_loop_over S) (param0 S) then Some (map (guarded S) vars) else None)
      else if String.eqb v (param0 S) then Some (map GPlain vars) else None
  | _ => None
  end.

Record emitted_state := {
  es_getter_from : string;        (* parameter of _create_state_functions that names the getter *)
  es_getter_arity : nat;
  es_getter : list gexpr;
  es_setter_from : string;
  es_setter_arity : nat;
  es_targets : list gexpr;
  es_unpacks_param : bool;        (* the assignment unpacks the setter's own (only) parameter *)
  es_decls_from : option string   (* parameter spliced in front of the assignment *) }.

Definition bound_var (b : list (string * src)) (p : string) : option string :=
  match lookup p b with Some (SVar v) => Some v | _ => None end.

Definition emit_state (S : state_fns) (vars : list qn) : option emitted_state :=
  if negb (String.eqb (sf_empty_test S) (param0 S)) then None else
  let T := match vars with [] => sf_empty S | _ => sf_full S end in
  match bound_var (st_binds T) (fst (st_getter T)), bound_var (st_binds T) (fst (st_setter T)) with
  | Some g, Some s =>
      let getter := match st_ret T with
                    | RetEmpty => Some []
                    | RetSplice p => match lookup p (st_binds T) with Some e => sf_list S vars e | None => None end
                    end in
      let targets := match st_body T with
                     | SetPass => Some ([], true)
                     | SetUnpack p from =>
                         match lookup p (st_binds T) with
                         | Some e => match sf_list S vars e with
                                     | Some l => Some (l, match snd (st_setter T) with [x] => String.eqb x from | _ => false end)
                                     | None => None
                                     end
                         | None => None
                         end
                     end in
      match getter, targets with
      | Some ge, Some (tg, un) =>
          Some {| es_getter_from := g; es_getter_arity := List.length (snd (st_getter T)); es_getter := ge;
                  es_setter_from := s; es_setter_arity := List.length (snd (st_setter T)); es_targets := tg;
                  es_unpacks_param := un;
                  es_decls_from := match st_pre T with [p] => bound_var (st_binds T) p | _ => None end |}
      | _, _ => None
      end
  | _, _ => None
  end.

Record emitted := {
  e_names : list string;          (* the string constants of the symbol_names tuple *)
  e_getter : list gexpr;
  e_targets : list gexpr;
  e_getter_arity : nat;
  e_setter_arity : nat;
  e_unpacks_param : bool;
  e_wired : bool }.

Definition sig_of (C : contract) (op : string) : list string :=
  match lookup op (c_sigs C) with Some l => l | None => [] end.

(* the template argument at the position of operator parameter `param` *)
Definition arg_at (C : contract) (T : stmt_tpl) (param : string) : option targ :=
  match index_of param (sig_of C (t_op T)) with Some i => nth_error (t_call T) i | None => None end.

(* the visit-method variable passed to _create_state_functions for its parameter `p` *)
Definition statefn_arg (C : contract) (T : stmt_tpl) (p : string) : option string :=
  match index_of p (sf_params (c_state C)) with Some i => nth_error (t_statefn_args T) i | None => None end.

Definition opt_str_eqb (a b : option string) : bool :=
  match a, b with Some x, Some y => String.eqb x y | _, _ => false end.

Definition emit (C : contract) (T : stmt_tpl) (vars : list qn) : option emitted :=
  let vv := nth 0 (t_blockvars T) "" in
  (* the list handed to _create_state_functions must be the block-variable list *)
  if negb (opt_str_eqb (nth_error (t_statefn_args T) 0) (Some vv)) then None else
  match emit_state (c_state C) vars with
  | None => None
  | Some ES =>
      let names := match arg_at C T "symbol_names" with
                   | Some (ATuple1 p) => match lookup p (t_binds T) with
                                         | Some (SNamesOf v) => if String.eqb v vv then Some (map show vars) else None
                                         | _ => None
                                         end
                   | _ => None
                   end in
      let passes (param : string) (from : string) : bool :=
        match arg_at C T param with
        | Some (APlace p) => opt_str_eqb (bound_var (t_binds T) p) (statefn_arg C T from)
        | _ => false
        end in
      let nouts_ok :=
        if mem "nouts" (sig_of C (t_op T))
        then match arg_at C T "nouts" with
             | Some (APlace p) => match lookup p (t_binds T) with
                                  | Some (SConstOf v) => opt_str_eqb (Some v) (nth_error (t_blockvars T) 2)
                                  | _ => false
                                  end
             | _ => false
             end
        else true in
      let defs_emitted :=
        existsb (fun it => opt_str_eqb (bound_var (t_binds T) it) (Some (t_statefn_into T))) (t_items T) in
      let decls_ok :=
        String.eqb (snd (t_decls T)) vv &&
        match vars with
        | [] => true
        | _ => match es_decls_from ES with
               | Some p => opt_str_eqb (statefn_arg C T p) (Some (fst (t_decls T)))
               | None => false
               end
        end in
      match names with
      | None => None
      | Some ns =>
          Some {| e_names := ns; e_getter := es_getter ES; e_targets := es_targets ES;
                  e_getter_arity := es_getter_arity ES; e_setter_arity := es_setter_arity ES;
                  e_unpacks_param := es_unpacks_param ES;
                  e_wired := passes "get_state" (es_getter_from ES) && passes "set_state" (es_setter_from ES)
                             && nouts_ok && defs_emitted && decls_ok
                             && Nat.eqb (List.length (t_call T)) (List.length (sig_of C (t_op T))) |}
      end
  end.

(* ---------------------------------------------------------------- callback arities *)
Definition stmt_tpl_of (C : contract) (op : string) : option stmt_tpl :=
  if String.eqb op (t_op (c_if C)) then Some (c_if C)
  else if String.eqb op (t_op (c_while C)) then Some (c_while C)
  else if String.eqb op (t_op (c_for C)) then Some (c_for C)
  else None.

(* number of parameters of the callable the converter passes for parameter `param` of operator op *)
Definition emitted_arity (C : contract) (op param : string) : option nat :=
  match stmt_tpl_of C op with
  | Some T =>
      if String.eqb param "get_state" then Some (List.length (snd (st_getter (sf_full (c_state C)))))
      else if String.eqb param "set_state" then Some (List.length (snd (st_setter (sf_full (c_state C)))))
      else
      match arg_at C T param with
      | Some (APlace p) =>
          match lookup p (t_defs T) with
          | Some params => Some (List.length params)
          | None =>
              match t_extra T with
              | Some E => if opt_str_eqb (bound_var (t_binds T) p) (Some (et_var E))
                             && opt_str_eqb (bound_var (et_binds E) (fst (et_def E))) (Some (et_var E))
                             && existsb (fun it => opt_str_eqb (bound_var (t_binds T) it) (Some (et_fn_var E))) (t_items T)
                          then Some (List.length (snd (et_def E))) else None
              | None => None
              end
          end
      | _ => None
      end
  | None =>
      match lookup op (c_exprs C) with
      | Some args =>
          match index_of param (sig_of C op) with
          | Some i => match nth_error args i with Some (ALambda n _) => Some n | _ => None end
          | None => None
          end
      | None => None
      end
  end.

Definition opt_nat_eqb (a : option nat) (n : nat) : bool := match a with Some m => Nat.eqb m n | None => false end.

Definition calls_ok (C : contract) : bool :=
  forallb (fun t => match t with (op, param, n) => opt_nat_eqb (emitted_arity C op param) n end) (c_calls C).
Definition doc_arity_ok (C : contract) : bool :=
  forallb (fun t => match t with (op, param, n) => opt_nat_eqb (emitted_arity C op param) n end) (c_doc_arity C).
Fixpoint list_str_eqb (a b : list string) : bool :=
  match a, b with
  | [], [] => true
  | x :: r, y :: s => String.eqb x y && list_str_eqb r s
  | _, _ => false
  end.
Definition doc_params_ok (C : contract) : bool :=
  forallb (fun t => list_str_eqb (snd t) (sig_of C (fst t))) (c_doc_params C).
(* every expression operator is called with as many arguments as it has parameters *)
Definition expr_arity_ok (C : contract) : bool :=
  forallb (fun t => Nat.eqb (List.length (snd t)) (List.length (sig_of C (fst t)))) (c_exprs C).

(* ---------------------------------------------------------------- loop options *)
(* anno: the set_loop_options entry of the loop's DIRECTIVES annotation (argument name, expression);
   target: the unparsed loop target *)
Definition emit_opts {V} (T : stmt_tpl) (L : loop_options_tpl) (anno : option (list (string * V)))
           (str_const : string -> V) (target : string) : option (list (string * V)) :=
  match t_opts T with
  | OptsNone => None
  | OptsLoop _ extra from_target =>
      if lo_keys_are_argument_names L && lo_empty_when_absent L then
        let base := match anno with Some kv => kv | None => [] end in
        match extra with
        | None => Some base
        | Some k => if from_target then Some (List.app base [(k, str_const target)]) else None
        end
      else None
  end.
