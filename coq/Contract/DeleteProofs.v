(* C03 -- lemmas about the model of lowered `del` statements (Delete.v): the statements emitted under a table
   satisfying delete_rule_ok keep every name bound, in the state reached normally or by an exception, and a
   getter that was total before is total afterwards. *)
From Coq Require Import List String Bool ZArith Lia.
Import ListNotations.
Require Import MV.Contract.ContractSyntax MV.Contract.StateModel MV.Contract.StateProofs MV.Contract.Delete.
Local Open Scope string_scope.

Lemma keeps_refl s : keeps s s.
Proof. split; intros; left; reflexivity. Qed.

Lemma keeps_trans s t u : keeps s t -> keeps t u -> keeps s u.
Proof.
  intros [A B] [C D]; split.
  - intro x. destruct (C x) as [E | [Hb [n E]]].
    + rewrite E. apply A.
    + right. split; [ | exists n; exact E].
      destruct (A x) as [F | [Hs _]]; [rewrite <- F; exact Hb | exact Hs].
  - intros l k. destruct (D l k) as [E | E]; [rewrite E; apply B | right; exact E].
Qed.

Lemma keeps_remove_cell s l k : keeps s (remove_cell s l k).
Proof.
  split; intros; simpl; [left; reflexivity | ].
  destruct (Nat.eqb l0 l && key_eqb k0 k); [right | left]; reflexivity.
Qed.

Lemma keeps_bind_undef s x n : env s x <> None -> keeps s (write_cell s (CVar x) (VUndef n)).
Proof.
  intro Hb. split; intros; simpl; [ | left; reflexivity].
  destruct (String.eqb x0 x) eqn:E; [ | left; reflexivity].
  apply String.eqb_eq in E; subst. right. split; [exact Hb | exists n; reflexivity].
Qed.

Lemma del_all_composites_keeps ts : forall s,
  forallb (fun t => negb (is_name t)) ts = true -> keeps s (fst (del_all s ts)).
Proof.
  induction ts as [ | t r IH]; intros s H; simpl; [apply keeps_refl | ].
  simpl in H. apply andb_true_iff in H. destruct H as [Ht Hr].
  destruct t as [x | q]; [discriminate | ]. simpl.
  destruct (cell_of s q) as [[y | l k] | ]; simpl; try apply keeps_refl.
  destruct (heap s l k); simpl; [ | apply keeps_refl].
  eapply keeps_trans; [apply keeps_remove_cell | apply IH; exact Hr].
Qed.

Lemma safe_weaken ds : forall p, safe_from None ds = true -> safe_from p ds = true.
Proof.
  destruct ds as [ | d r]; intros p H; simpl in *; auto.
  destruct d; auto. simpl in H. discriminate.
Qed.

Lemma safe_app l1 : forall p l2, safe_from p l1 = true -> safe_from None l2 = true -> safe_from p (l1 ++ l2) = true.
Proof.
  induction l1 as [ | d r IH]; intros p l2 H1 H2; simpl.
  - apply safe_weaken; exact H2.
  - destruct d; simpl in *.
    + apply IH; auto.
    + apply andb_true_iff in H1. destruct H1 as [A B]. rewrite A. simpl. apply IH; auto.
    + apply andb_true_iff in H1. destruct H1 as [A B]. rewrite A. simpl. apply IH; auto.
Qed.

(* executing a safe list keeps the state, whether or not it ends in an exception *)
Lemma exec_safe_keeps ds : forall p s,
  (forall x, p = Some x -> env s x <> None) -> safe_from p ds = true -> keeps s (fst (exec s ds)).
Proof.
  induction ds as [ | d r IH]; intros p s Hp H; simpl; [apply keeps_refl | ].
  destruct d as [x | y n | ts]; simpl in *.
  - destruct (env s x) as [v | ] eqn:E; simpl; [ | apply keeps_refl].
    destruct (is_undef v); simpl; [apply keeps_refl | ].
    apply (IH (Some x)); auto. intros z Hz. inversion Hz; subst. rewrite E. discriminate.
  - apply andb_true_iff in H. destruct H as [A B].
    destruct p as [x | ]; [ | discriminate]. apply String.eqb_eq in A; subst.
    eapply keeps_trans; [apply keeps_bind_undef; apply Hp; reflexivity | ].
    apply (IH None); auto. intros z Hz; discriminate.
  - apply andb_true_iff in H. destruct H as [A B].
    pose proof (del_all_composites_keeps ts s A) as K.
    destruct (del_all s ts) as [s1 raised] eqn:E. simpl in K.
    destruct raised; simpl; [exact K | ].
    eapply keeps_trans; [exact K | ]. apply (IH None); auto. intros z Hz; discriminate.
Qed.

Lemma actions_eqb_eq a : forall b, actions_eqb a b = true -> a = b.
Proof.
  induction a as [ | x r IH]; intros [ | y s] H; simpl in H; try discriminate; auto.
  apply andb_true_iff in H. destruct H as [A B]. rewrite (IH _ B).
  destruct x, y; simpl in A; try discriminate; reflexivity.
Qed.

Lemma existsb_false_forallb_neg {A} (f : A -> bool) l : existsb f l = false -> forallb (fun t => negb (f t)) l = true.
Proof.
  induction l as [ | a l IH]; simpl; auto. intro H. apply orb_false_iff in H. destruct H as [E F].
  rewrite E. simpl. auto.
Qed.

Lemma lower_delete_safe r ts : delete_rule_ok r = true -> safe_from None (lower_delete r ts) = true.
Proof.
  unfold delete_rule_ok. intro H. apply andb_true_iff in H. destruct H as [H Ho].
  apply andb_true_iff in H. destruct H as [Hq Hn].
  apply actions_eqb_eq in Hn. apply actions_eqb_eq in Ho.
  unfold lower_delete, rewritten. destruct (dr_rewritten_when r); [ | discriminate].
  destruct (existsb is_name ts) eqn:E.
  - rewrite Hn, Ho. clear E. induction ts as [ | t ts IH]; simpl; auto.
    destruct t as [x | q]; simpl.
    + rewrite String.eqb_refl. simpl. exact IH.
    + exact IH.
  - simpl. rewrite (existsb_false_forallb_neg _ _ E). reflexivity.
Qed.

(* the lowered statement never unbinds a name -- in the state reached normally or by an exception *)
Theorem lowered_delete_keeps_names_bound r ts s :
  delete_rule_ok r = true -> keeps s (fst (exec s (lower_delete r ts))).
Proof.
  intro H. apply (exec_safe_keeps _ None); [intros z Hz; discriminate | apply lower_delete_safe; exact H].
Qed.

(* ---------------------------------------------------------------- the getter stays total *)
Lemma read1_keeps s s' q : keeps s s' -> flat q = true -> read1 s q <> None -> read1 s' q <> None.
Proof.
  intros [He Hh] F R. unfold read1 in *.
  destruct q as [x | l | p a | p k]; simpl in F; try discriminate.
  - (* x *)
    simpl in *. destruct (He x) as [E | [_ [n E]]]; rewrite E; [exact R | discriminate].
  - (* x.a : never Fail *)
    destruct p as [x | | | ]; try discriminate. simpl.
    destruct (env s' x) as [[z | z | l | n] | ]; simpl; try discriminate.
    destruct (heap s' l (KAttr a)); discriminate.
  - destruct p as [x | | | ]; try discriminate.
    destruct k as [y | lt | | ]; try discriminate.
    + (* x[y] *)
      simpl in *.
      destruct (He x) as [Ex | [_ [n Ex]]]; destruct (He y) as [Ey | [Hy [m Ey]]]; rewrite Ex, Ey.
      * destruct (env s x) as [[z | z | l | n] | ]; destruct (env s y) as [v | ]; simpl in *; try discriminate; try exact R.
        destruct (heap s' l (KItem v)); discriminate.
      * destruct (env s x) as [[z | z | l | n] | ]; destruct (env s y) as [v | ]; simpl in *; try discriminate;
          try (exfalso; apply R; reflexivity); try (exfalso; apply Hy; reflexivity).
        destruct (heap s' l (KItem (VUndef m))); discriminate.
      * destruct (env s y) as [v | ]; simpl; discriminate.
      * simpl. discriminate.
    + (* x['k'] / x[3] *)
      simpl in *.
      destruct (He x) as [Ex | [_ [n Ex]]]; rewrite Ex.
      * destruct (env s x) as [[z | z | l | n] | ]; simpl in *; try discriminate; try exact R.
        destruct (heap s' l (KItem (lit_value lt))); discriminate.
      * simpl. discriminate.
Qed.

Lemma get_keeps s s' vars : keeps s s' -> forallb flat vars = true -> get s vars <> None -> get s' vars <> None.
Proof.
  intros K. induction vars as [ | q vars IH]; simpl; intros F G; [discriminate | ].
  apply andb_true_iff in F. destruct F as [Fq Fv].
  destruct (read1 s q) eqn:R; [ | exfalso; apply G; reflexivity].
  destruct (get s vars) eqn:Gs; [ | exfalso; apply G; reflexivity].
  assert (R' : read1 s' q <> None) by (apply (read1_keeps s s' q K Fq); rewrite R; discriminate).
  assert (G' : get s' vars <> None) by (apply IH; auto; discriminate).
  destruct (read1 s' q); [ | contradiction]. destruct (get s' vars); [discriminate | contradiction].
Qed.

Theorem getter_total_after_lowered_delete r ts s vars vs :
  delete_rule_ok r = true -> forallb flat vars = true -> get s vars = Some vs ->
  exists vs', get (fst (exec s (lower_delete r ts))) vars = Some vs' /\ List.length vs' = List.length vars.
Proof.
  intros H F G.
  pose proof (get_keeps s _ vars (lowered_delete_keeps_names_bound r ts s H) F) as T.
  destruct (get (fst (exec s (lower_delete r ts))) vars) as [vs' | ] eqn:E.
  - exists vs'. split; auto. apply (get_length _ _ _ E).
  - exfalso. apply T; [rewrite G; discriminate | reflexivity].
Qed.
