(* C03 -- lemmas about the block-variable order and the output count. *)
From Coq Require Import List String Bool Arith Lia Permutation Sorted.
Import ListNotations.
Require Import MV.Contract.ContractSyntax MV.Contract.StateModel MV.Contract.StateProofs MV.Contract.BlockVars.
Local Open Scope string_scope.

Lemma smem_In x l : smem x l = true <-> In x l.
Proof.
  unfold smem. rewrite existsb_exists. split.
  - intros [y [I E]]. apply String.eqb_eq in E; subst; auto.
  - intros I. exists x; split; auto. apply String.eqb_refl.
Qed.
Lemma smem_false x l : smem x l = false <-> ~ In x l.
Proof. rewrite <- smem_In. destruct (smem x l); split; intros; try discriminate; auto. exfalso; auto. Qed.

Lemma In_sunion x a b : In x (sunion a b) <-> In x a \/ In x b.
Proof.
  unfold sunion. rewrite in_app_iff, filter_In. split.
  - intros [H | [H _]]; auto.
  - intros [H | H]; auto. destruct (smem x a) eqn:E; [left; apply smem_In; auto | right; split; auto; rewrite E; auto].
Qed.
Lemma In_sinter x a b : In x (sinter a b) <-> In x a /\ In x b.
Proof. unfold sinter. rewrite filter_In, smem_In. tauto. Qed.
Lemma In_sdiff x a b : In x (sdiff a b) <-> In x a /\ ~ In x b.
Proof. unfold sdiff. rewrite filter_In, negb_true_iff, smem_false. tauto. Qed.

Lemma NoDup_app_disjoint (a c : list string) :
  NoDup a -> NoDup c -> (forall x, In x a -> ~ In x c) -> NoDup (a ++ c).
Proof.
  induction a as [ | x a IH]; simpl; intros Ha Hc D; auto. inversion Ha; subst. constructor.
  - rewrite in_app_iff. intros [H | H]; auto. apply (D x); auto.
  - apply IH; auto.
Qed.
Lemma NoDup_sunion a b : NoDup a -> NoDup b -> NoDup (sunion a b).
Proof.
  intros Ha Hb. unfold sunion. apply NoDup_app_disjoint; auto.
  - apply NoDup_filter; auto.
  - intros x Hx Hf. apply filter_In in Hf. destruct Hf as [_ Hf]. apply negb_true_iff in Hf.
    apply smem_false in Hf. contradiction.
Qed.
Lemma NoDup_sinter a b : NoDup a -> NoDup (sinter a b).
Proof. intros; apply NoDup_filter; auto. Qed.
Lemma NoDup_sdiff a b : NoDup a -> NoDup (sdiff a b).
Proof. intros; apply NoDup_filter; auto. Qed.

(* ---------------------------------------------------------------- sorting *)
Definition io_le (io : list string) (a b : string) : Prop := smem a io = true -> smem b io = true.

Lemma key_le_io io a b : key_le io a b = true -> io_le io a b.
Proof.
  unfold key_le, io_le. destruct (smem a io), (smem b io); simpl; intros; auto; discriminate.
Qed.
Lemma key_le_total_io io a b : key_le io a b = false -> io_le io b a.
Proof.
  unfold key_le, io_le. destruct (smem a io), (smem b io); simpl; intros; auto; discriminate.
Qed.

Lemma insert_perm le x l : Permutation (insert le x l) (x :: l).
Proof.
  induction l as [ | y l IH]; simpl; auto. destruct (le x y); auto.
  eapply perm_trans; [apply perm_skip; apply IH | apply perm_swap].
Qed.
Lemma isort_perm le l : Permutation (isort le l) l.
Proof.
  induction l as [ | x l IH]; simpl; auto. eapply perm_trans; [apply insert_perm | apply perm_skip; auto].
Qed.

Lemma insert_sorted io x l :
  StronglySorted (io_le io) l -> StronglySorted (io_le io) (insert (key_le io) x l).
Proof.
  induction l as [ | y l IH]; simpl; intros S.
  - constructor; constructor.
  - inversion S; subst. destruct (key_le io x y) eqn:E.
    + constructor; auto. constructor.
      * apply key_le_io; auto.
      * rewrite Forall_forall in *. intros z Hz. specialize (H2 z Hz). apply key_le_io in E.
        unfold io_le in *; auto.
    + constructor; auto. rewrite Forall_forall in *. intros z Hz.
      apply (Permutation_in _ (insert_perm (key_le io) x l)) in Hz. destruct Hz as [-> | Hz]; auto.
      apply key_le_total_io; auto.
Qed.
Lemma isort_sorted io l : StronglySorted (io_le io) (isort (key_le io) l).
Proof. induction l; simpl; [constructor | apply insert_sorted; auto]. Qed.

Lemma sorted_split io l :
  StronglySorted (io_le io) l ->
  l = List.app (filter (fun x => negb (smem x io)) l) (filter (fun x => smem x io) l).
Proof.
  induction l as [ | a l IH]; simpl; intros S; auto. inversion S; subst.
  destruct (smem a io) eqn:E; simpl.
  - assert (Hall : forall z, In z l -> smem z io = true).
    { rewrite Forall_forall in H2. intros z Hz. apply (H2 z Hz); auto. }
    assert (filter (fun x => negb (smem x io)) l = []) as ->.
    { clear -Hall. induction l as [ | b l IH]; simpl; auto. rewrite (Hall b) by (left; auto). simpl.
      apply IH. intros; apply Hall; right; auto. }
    assert (filter (fun x => smem x io) l = l) as ->; auto.
    { clear -Hall. induction l as [ | b l IH]; simpl; auto. rewrite (Hall b) by (left; auto).
      f_equal. apply IH. intros; apply Hall; right; auto. }
  - f_equal. apply IH; auto.
Qed.

Lemma filter_io_length io l :
  NoDup l -> NoDup io -> incl io l -> List.length (filter (fun x => smem x io) l) = List.length io.
Proof.
  intros Hl Hio Hinc. apply Permutation_length. apply NoDup_Permutation; auto.
  - apply NoDup_filter; auto.
  - intros x. rewrite filter_In, smem_In. split; [tauto | intros; split; auto].
Qed.

Lemma filter_split_length (f : string -> bool) l :
  List.length (filter (fun x => negb (f x)) l) + List.length (filter f l) = List.length l.
Proof. induction l as [ | a l IH]; simpl; auto. destruct (f a); simpl; lia. Qed.

(* the statement about a sorted list of block variables *)
Lemma outputs_first io l :
  StronglySorted (io_le io) l -> NoDup l -> NoDup io -> incl io l ->
  List.length l - List.length io <= List.length l /\
  forall i q, nth_error l i = Some q -> (i < List.length l - List.length io <-> ~ In q io).
Proof.
  intros S Hl Hio Hinc. split; [lia | ].
  pose proof (sorted_split io l S) as Sp.
  pose proof (filter_io_length io l Hl Hio Hinc) as L2.
  pose proof (filter_split_length (fun x => smem x io) l) as L1.
  set (l1 := filter (fun x => negb (smem x io)) l) in *.
  set (l2 := filter (fun x => smem x io) l) in *.
  assert (Hn : List.length l - List.length io = List.length l1) by lia.
  intros i q Hq. rewrite Hn. rewrite Sp in Hq. split.
  - intros Hi. rewrite nth_error_app1 in Hq by auto. apply nth_error_In in Hq.
    unfold l1 in Hq. apply filter_In in Hq. destruct Hq as [_ Hq]. apply negb_true_iff in Hq.
    apply smem_false; auto.
  - intros Hni. destruct (Nat.lt_ge_cases i (List.length l1)) as [ | Hge]; auto.
    rewrite nth_error_app2 in Hq by auto. apply nth_error_In in Hq. unfold l2 in Hq.
    apply filter_In in Hq. destruct Hq as [_ Hq]. apply smem_In in Hq. contradiction.
Qed.

(* ---------------------------------------------------------------- admission of composite block variables *)
(* s: the variables of the enclosing function when the operator is called (where the generated get_state / set_state
   resolve the symbol name); t: the variables the code of the block sees.  The block shares with the enclosing function
   the names that are live into the statement (names first bound inside the block are its locals).  For an admitted
   composite both resolve the name to the same value and the same storage cell, and the getter element is the same. *)
Lemma admitted_composite_same_cell live_in q s t :
  composite_admitted live_in q = true ->
  (forall x, In x live_in -> env s x = env t x) -> (forall l k, heap s l k = heap t l k) ->
  eval s q = eval t q /\ cell_of s q = cell_of t q /\ read1 s q = read1 t q.
Proof.
  intros A He Hh. unfold composite_admitted in A. rewrite forallb_forall in A.
  assert (S : forall x, In x (support q) -> env s x = env t x).
  { intros x I. apply He. apply smem_In. apply A; exact I. }
  split; [ | split ].
  - apply eval_support; assumption.
  - apply cell_of_support; assumption.
  - unfold read1. rewrite (eval_support s t q S Hh). reflexivity.
Qed.
