(* C03 -- lemmas about the state getter / setter model (StateModel.v). *)
From Coq Require Import List String Bool ZArith Lia.
Import ListNotations.
Require Import MV.Contract.StateModel.
Local Open Scope string_scope.

(* ---------------------------------------------------------------- decidable equalities *)
Lemma value_eqb_eq a b : value_eqb a b = true <-> a = b.
Proof.
  destruct a, b; simpl; split; intro H; try discriminate; try (inversion H; subst).
  - apply Z.eqb_eq in H; subst; reflexivity.
  - apply Z.eqb_refl.
  - apply String.eqb_eq in H; subst; reflexivity.
  - apply String.eqb_refl.
  - apply Nat.eqb_eq in H; subst; reflexivity.
  - apply Nat.eqb_refl.
  - apply String.eqb_eq in H; subst; reflexivity.
  - apply String.eqb_refl.
Qed.

Lemma key_eqb_eq a b : key_eqb a b = true <-> a = b.
Proof.
  destruct a, b; simpl; split; intro H; try discriminate; try (inversion H; subst).
  - apply String.eqb_eq in H; subst; reflexivity.
  - apply String.eqb_refl.
  - apply value_eqb_eq in H; subst; reflexivity.
  - apply value_eqb_eq; reflexivity.
Qed.

Lemma cell_eqb_eq a b : cell_eqb a b = true <-> a = b.
Proof.
  destruct a, b; simpl; split; intro H; try discriminate; try (inversion H; subst).
  - apply String.eqb_eq in H; subst; reflexivity.
  - apply String.eqb_refl.
  - apply andb_true_iff in H; destruct H as [Ha Hb]. apply Nat.eqb_eq in Ha. apply key_eqb_eq in Hb.
    subst; reflexivity.
  - rewrite Nat.eqb_refl. simpl. apply key_eqb_eq; reflexivity.
Qed.

Lemma cell_eqb_refl c : cell_eqb c c = true.
Proof. apply cell_eqb_eq; reflexivity. Qed.

Lemma cell_eqb_sym a b : cell_eqb a b = cell_eqb b a.
Proof.
  destruct (cell_eqb a b) eqn:E.
  - apply cell_eqb_eq in E; subst. symmetry; apply cell_eqb_refl.
  - destruct (cell_eqb b a) eqn:E'; auto. apply cell_eqb_eq in E'; subst. rewrite cell_eqb_refl in E. discriminate.
Qed.

(* ---------------------------------------------------------------- state equivalence *)
Lemma seq_refl s : seq s s.
Proof. split; auto. Qed.
Lemma seq_sym s t : seq s t -> seq t s.
Proof. intros [A B]; split; intros; symmetry; auto. Qed.
Lemma seq_trans s t u : seq s t -> seq t u -> seq s u.
Proof. intros [A B] [C D]; split; intros; [rewrite A | rewrite B]; auto. Qed.

Lemma eval_ext s t q : seq s t -> eval s q = eval t q.
Proof.
  intros [He Hh]. induction q; simpl.
  - rewrite He; reflexivity.
  - reflexivity.
  - rewrite IHq. destruct (eval t q) as [[ | | l | ] | | ]; auto. rewrite Hh; reflexivity.
  - rewrite IHq1, IHq2. destruct (eval t q1) as [pv | | ]; auto. destruct (eval t q2) as [kv | | ]; auto.
    destruct pv; auto. rewrite Hh; reflexivity.
Qed.

Lemma cell_of_ext s t q : seq s t -> cell_of s q = cell_of t q.
Proof.
  intros H. destruct q; simpl; auto.
  - rewrite (eval_ext s t q H). reflexivity.
  - rewrite (eval_ext s t q1 H), (eval_ext s t q2 H). reflexivity.
Qed.

(* value and storage cell of a qualified name depend on the variables only through its support symbols *)
Lemma eval_support s t q :
  (forall x, In x (support q) -> env s x = env t x) -> (forall l k, heap s l k = heap t l k) -> eval s q = eval t q.
Proof.
  intros He Hh. induction q; simpl in *.
  - rewrite He; auto.
  - reflexivity.
  - rewrite IHq by auto. destruct (eval t q) as [[ | | l | ] | | ]; auto. rewrite Hh; reflexivity.
  - rewrite IHq1, IHq2 by (intros; apply He; apply in_or_app; auto).
    destruct (eval t q1) as [pv | | ]; auto. destruct (eval t q2) as [kv | | ]; auto.
    destruct pv; auto. rewrite Hh; reflexivity.
Qed.

Lemma cell_of_support s t q :
  (forall x, In x (support q) -> env s x = env t x) -> (forall l k, heap s l k = heap t l k) -> cell_of s q = cell_of t q.
Proof.
  intros He Hh. destruct q; simpl in *; auto.
  - rewrite (eval_support s t q He Hh). reflexivity.
  - rewrite (eval_support s t q1), (eval_support s t q2); auto; intros; apply He; apply in_or_app; auto.
Qed.

Lemma read_cell_ext s t c : seq s t -> read_cell s c = read_cell t c.
Proof. intros [A B]; destruct c; simpl; auto. Qed.

Lemma write_cell_ext s t c v : seq s t -> seq (write_cell s c v) (write_cell t c v).
Proof.
  intros [A B]; destruct c; split; simpl; intros; auto.
  - rewrite A; reflexivity.
  - rewrite B; reflexivity.
Qed.

Lemma read_write_same s c v : read_cell (write_cell s c v) c = Some v.
Proof.
  destruct c; simpl.
  - rewrite String.eqb_refl; reflexivity.
  - rewrite Nat.eqb_refl. replace (key_eqb k k) with true by (symmetry; apply key_eqb_eq; reflexivity).
    reflexivity.
Qed.

Lemma read_write_other s c c' v : cell_eqb c' c = false -> read_cell (write_cell s c v) c' = read_cell s c'.
Proof.
  destruct c, c'; simpl; intros H; auto; rewrite H; reflexivity.
Qed.

Lemma write_same_seq s c v : read_cell s c = Some v -> seq (write_cell s c v) s.
Proof.
  destruct c; simpl; intros H; split; simpl; intros; auto.
  - destruct (String.eqb x0 x) eqn:E; auto. apply String.eqb_eq in E; subst; auto.
  - destruct (Nat.eqb l0 l && key_eqb k0 k) eqn:E; auto.
    apply andb_true_iff in E; destruct E as [E1 E2]. apply Nat.eqb_eq in E1. apply key_eqb_eq in E2.
    subst; auto.
Qed.

(* ---------------------------------------------------------------- cells and evaluation *)
Lemma eval_of_cell s q c v : cell_of s q = Some c -> read_cell s c = Some v -> eval s q = Ok v.
Proof.
  destruct q; simpl; intros H R.
  - inversion H; subst; simpl in R. rewrite R; reflexivity.
  - discriminate.
  - destruct (eval s q) as [[ | | l | ] | | ]; try discriminate. inversion H; subst; simpl in R.
    rewrite R; reflexivity.
  - destruct (eval s q1) as [[ | | l | ] | | ]; try discriminate.
    destruct (eval s q2) as [kv | | ]; try discriminate. inversion H; subst; simpl in R.
    rewrite R; reflexivity.
Qed.

Lemma exists_cell s q v :
  is_simple q = false -> eval s q = Ok v -> is_undef v = false ->
  exists c, cell_of s q = Some c /\ read_cell s c = Some v.
Proof.
  destruct q; simpl; intros S E U; try discriminate.
  - destruct (eval s q) as [[ | | l | ] | | ]; try discriminate.
    + destruct (heap s l (KAttr a)) eqn:H; try discriminate. inversion E; subst.
      exists (CFld l (KAttr a)); split; auto.
    + inversion E; subst; discriminate.
  - destruct (eval s q1) as [pv | | ]; try discriminate.
    destruct (eval s q2) as [kv | | ]; try discriminate.
    destruct pv; try discriminate.
    + destruct (heap s l (KItem kv)) eqn:H; try discriminate. inversion E; subst.
      exists (CFld l (KItem kv)); split; auto.
    + inversion E; subst; discriminate.
Qed.

(* ---------------------------------------------------------------- set (get s) s = s *)
Lemma roundtrip_gen vars : forall vs s s0,
  seq s0 s -> assignable vars = true -> get s vars = Some vs -> composites_exist s vars = true ->
  exists cs s', set_cells s0 vars vs = Some (cs, s') /\ seq s' s.
Proof.
  induction vars as [ | a vars IH]; intros vs s s0 Q A G C; simpl in *.
  - inversion G; subst. exists [], s0; split; auto.
  - destruct (read1 s a) as [v | ] eqn:R; try discriminate.
    destruct (get s vars) as [l | ] eqn:G'; try discriminate. inversion G; subst; clear G.
    apply andb_true_iff in A; destruct A as [A1 A2].
    apply andb_true_iff in C; destruct C as [C1 C2].
    assert (exists c, cell_of s a = Some c /\ read_cell s c = Some v) as [c [Hc Hr]].
    { unfold composite_exists in C1. destruct (is_simple a) eqn:S.
      - destruct a; try discriminate. unfold read1 in R; simpl in R.
        destruct (env s x) eqn:E; try discriminate. inversion R; subst.
        exists (CVar x); split; auto.
      - simpl in C1. unfold read1 in R. destruct (eval s a) as [v' | | ] eqn:E; try discriminate.
        inversion R; subst. apply exists_cell; auto. apply negb_true_iff in C1; auto. }
    rewrite (cell_of_ext s0 s a Q), Hc.
    destruct (IH l s (write_cell s0 c v)) as [cs [s' [H1 H2]]]; auto.
    { eapply seq_trans; [apply write_cell_ext; exact Q | apply write_same_seq; auto]. }
    rewrite H1. exists (c :: cs), s'; split; auto.
Qed.

Lemma set_get_roundtrip s vars vs :
  assignable vars = true -> get s vars = Some vs -> composites_exist s vars = true ->
  exists s', set s vars vs = Some s' /\ seq s' s.
Proof.
  intros A G C. destruct (roundtrip_gen vars vs s s (seq_refl s) A G C) as [cs [s' [H1 H2]]].
  exists s'; unfold set; rewrite H1; auto.
Qed.

(* ---------------------------------------------------------------- set v ; get = v *)
Lemma set_cells_reads vars : forall vs s cs s',
  set_cells s vars vs = Some (cs, s') -> nodup_cells cs = true ->
  Forall2 (fun c v => read_cell s' c = Some v) cs vs /\
  (forall c, existsb (cell_eqb c) cs = false -> read_cell s' c = read_cell s c).
Proof.
  induction vars as [ | a vars IH]; intros vs s cs s' H N; destruct vs as [ | v vs]; simpl in H; try discriminate.
  - inversion H; subst. split; [constructor | auto].
  - destruct (cell_of s a) as [c | ]; try discriminate.
    destruct (set_cells (write_cell s c v) vars vs) as [[cs1 s1] | ] eqn:E; try discriminate.
    inversion H; subst; clear H. simpl in N. apply andb_true_iff in N; destruct N as [N1 N2].
    apply negb_true_iff in N1.
    destruct (IH vs (write_cell s c v) cs1 s' E N2) as [F Fr]. split.
    + constructor; auto. rewrite (Fr c N1). apply read_write_same.
    + intros c0 H0. simpl in H0. apply orb_false_iff in H0; destruct H0 as [H0 H1].
      rewrite (Fr c0 H1). apply read_write_other; auto.
Qed.

Lemma get_of_cells s' : forall vars cs vs,
  Forall2 (fun q c => cell_of s' q = Some c) vars cs ->
  Forall2 (fun c v => read_cell s' c = Some v) cs vs ->
  get s' vars = Some vs.
Proof.
  induction vars as [ | q vars IH]; intros cs vs F1 F2; inversion F1; subst; inversion F2; subst; simpl; auto.
  unfold read1. rewrite (eval_of_cell s' q y y0 H1 H2). rewrite (IH l' l'0); auto.
Qed.

Lemma write_then_read s vars vs cs s' :
  set_cells s vars vs = Some (cs, s') -> nodup_cells cs = true ->
  Forall2 (fun q c => cell_of s' q = Some c) vars cs ->
  get s' vars = Some vs.
Proof.
  intros H N F. destruct (set_cells_reads vars vs s cs s' H N) as [R _].
  eapply get_of_cells; eauto.
Qed.

(* ---------------------------------------------------------------- the syntactic class where cells are stable *)
Lemma existsb_qn_is x vars : existsb (qn_is x) vars = true <-> In (QS x) vars.
Proof.
  rewrite existsb_exists. split.
  - intros [q [I H]]. destruct q; simpl in H; try discriminate. apply String.eqb_eq in H; subst; auto.
  - intros I. exists (QS x); split; auto. simpl. apply String.eqb_refl.
Qed.

Definition harmless (vars0 : list qn) (c : cell) : Prop :=
  match c with CFld _ _ => True | CVar z => In (QS z) vars0 end.

Lemma env_write_other s c v x :
  (match c with CVar z => z <> x | CFld _ _ => True end) -> env (write_cell s c v) x = env s x.
Proof.
  destruct c; simpl; intros H; auto. destruct (String.eqb x x0) eqn:E; auto.
  apply String.eqb_eq in E; subst; contradiction.
Qed.

Lemma cell_of_flat_env s t q :
  flat q = true -> (forall x, In x (support q) -> env s x = env t x) -> cell_of s q = cell_of t q.
Proof.
  destruct q; simpl; intros F H; auto.
  - destruct q; try discriminate. simpl. rewrite (H x); simpl; auto.
  - destruct q1; try discriminate. destruct q2; try discriminate; simpl.
    + rewrite (H x), (H x0); simpl; auto.
    + rewrite (H x); simpl; auto.
Qed.

Lemma cell_of_stable vars0 s c v q :
  independent1 vars0 q = true -> harmless vars0 c -> cell_of (write_cell s c v) q = cell_of s q.
Proof.
  unfold independent1. intros I Hc. apply andb_true_iff in I; destruct I as [F I].
  destruct (is_simple q) eqn:S.
  - destruct q; try discriminate; reflexivity.
  - simpl in I. apply cell_of_flat_env; auto. intros x Hx. apply env_write_other.
    destruct c; auto. intros ->. rewrite forallb_forall in I. specialize (I x Hx).
    apply negb_true_iff in I. simpl in Hc. apply existsb_qn_is in Hc. congruence.
Qed.

Lemma cell_of_harmless vars0 s q c : In q vars0 -> cell_of s q = Some c -> harmless vars0 c.
Proof.
  destruct q; simpl; intros I H.
  - inversion H; subst; simpl; auto.
  - discriminate.
  - destruct (eval s q) as [[ | | l | ] | | ]; try discriminate. inversion H; subst; simpl; auto.
  - destruct (eval s q1) as [[ | | l | ] | | ]; try discriminate.
    destruct (eval s q2); try discriminate. inversion H; subst; simpl; auto.
Qed.

Lemma frame_cell_of vars0 q vars : forall vs s cs s',
  (forall q', In q' vars -> In q' vars0) -> independent1 vars0 q = true ->
  set_cells s vars vs = Some (cs, s') -> cell_of s' q = cell_of s q.
Proof.
  induction vars as [ | a vars IH]; intros vs s cs s' Sub I H; destruct vs as [ | v vs]; simpl in H; try discriminate.
  - inversion H; subst; auto.
  - destruct (cell_of s a) as [c | ] eqn:Ca; try discriminate.
    destruct (set_cells (write_cell s c v) vars vs) as [[cs1 s1] | ] eqn:E; try discriminate.
    inversion H; subst; clear H.
    rewrite (IH vs (write_cell s c v) cs1 s'); auto.
    + apply (cell_of_stable vars0); auto. eapply cell_of_harmless; eauto. apply Sub; left; auto.
    + intros q' Hq; apply Sub; right; auto.
Qed.

Lemma stable_cells vars0 vars : forall vs s cs s',
  (forall q', In q' vars -> In q' vars0) -> independent vars0 = true ->
  set_cells s vars vs = Some (cs, s') -> Forall2 (fun q c => cell_of s' q = Some c) vars cs.
Proof.
  induction vars as [ | a vars IH]; intros vs s cs s' Sub I H; destruct vs as [ | v vs]; simpl in H; try discriminate.
  - inversion H; subst; constructor.
  - destruct (cell_of s a) as [c | ] eqn:Ca; try discriminate.
    destruct (set_cells (write_cell s c v) vars vs) as [[cs1 s1] | ] eqn:E; try discriminate.
    inversion H; subst; clear H.
    assert (Ia : independent1 vars0 a = true).
    { unfold independent in I. rewrite forallb_forall in I. apply I. apply Sub; left; auto. }
    constructor.
    + rewrite (frame_cell_of vars0 a vars vs (write_cell s c v) cs1 s'); auto.
      * rewrite (cell_of_stable vars0); auto. eapply cell_of_harmless; eauto. apply Sub; left; auto.
      * intros q' Hq; apply Sub; right; auto.
    + eapply IH; eauto. intros q' Hq; apply Sub; right; auto.
Qed.

Lemma write_then_read_flat s vars vs cs s' :
  independent vars = true -> set_cells s vars vs = Some (cs, s') -> nodup_cells cs = true ->
  get s' vars = Some vs.
Proof.
  intros I H N. eapply write_then_read; eauto. eapply stable_cells; eauto.
Qed.

(* set_state either raises or consumes exactly one value per variable *)
Lemma set_cells_length vars : forall vs s cs s',
  set_cells s vars vs = Some (cs, s') -> List.length vs = List.length vars /\ List.length cs = List.length vars.
Proof.
  induction vars as [ | a vars IH]; intros vs s cs s' H; destruct vs as [ | v vs]; simpl in H; try discriminate.
  - inversion H; subst; auto.
  - destruct (cell_of s a) as [c | ]; try discriminate.
    destruct (set_cells (write_cell s c v) vars vs) as [[cs1 s1] | ] eqn:E; try discriminate.
    inversion H; subst. destruct (IH _ _ _ _ E). simpl; split; congruence.
Qed.

Lemma get_length s vars : forall vs, get s vars = Some vs -> List.length vs = List.length vars.
Proof.
  induction vars as [ | a vars IH]; intros vs H; simpl in H.
  - inversion H; auto.
  - destruct (read1 s a); try discriminate. destruct (get s vars); try discriminate.
    inversion H; subst; simpl. rewrite (IH l); auto.
Qed.
