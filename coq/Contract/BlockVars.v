(* C03 -- hand model (H) of the tail of ControlFlowTransformer._get_block_vars: the order of the
   block variables and the output count, as an interpreter of the generated formulas
   (set expression of the input-only variables, sort key, nouts).  No proofs here. *)
From Coq Require Import List String Bool Arith.
Import ListNotations.
Require Import MV.Contract.ContractSyntax MV.Contract.StateModel.
Local Open Scope string_scope.

Definition smem (x : string) (l : list string) : bool := existsb (String.eqb x) l.
Definition sunion (a b : list string) : list string := List.app a (filter (fun x => negb (smem x a)) b).
Definition sinter (a b : list string) : list string := filter (fun x => smem x b) a.
Definition sdiff (a b : list string) : list string := filter (fun x => negb (smem x b)) a.

(* the sets the formulas range over (names as printed by QN.__str__) *)
Record sets := { s_basic : list string; s_composite : list string; s_live_in : list string; s_live_out : list string;
                 s_globals : list string; s_nonlocals : list string }.

Definition set_of (B : blockvars_tpl) (r : sets) (v : string) : option (list string) :=
  if String.eqb v (bv_basic B) then Some (s_basic r)
  else if String.eqb v (bv_composite B) then Some (s_composite r)
  else if String.eqb v (bv_live_in B) then Some (s_live_in r)
  else if String.eqb v (bv_live_out B) then Some (s_live_out r)
  else None.

Fixpoint interp (B : blockvars_tpl) (r : sets) (e : sexp) : option (list string) :=
  match e with
  | XVar v => set_of B r v
  | XFn f => if String.eqb f "globals" then Some (s_globals r) else if String.eqb f "nonlocals" then Some (s_nonlocals r) else None
  | XUnion a b => match interp B r a, interp B r b with Some x, Some y => Some (sunion x y) | _, _ => None end
  | XInter a b => match interp B r a, interp B r b with Some x, Some y => Some (sinter x y) | _, _ => None end
  | XDiff a b => match interp B r a, interp B r b with Some x, Some y => Some (sdiff x y) | _, _ => None end
  end.

(* (a in io, a) <= (b in io, b) as Python compares tuples; False < True; QN.__lt__ compares str() *)
Definition key_le (io : list string) (a b : string) : bool :=
  if Bool.eqb (smem a io) (smem b io) then String.leb a b else negb (smem a io).

Fixpoint insert (le : string -> string -> bool) (x : string) (l : list string) : list string :=
  match l with
  | [] => [x]
  | y :: r => if le x y then x :: l else y :: insert le x r
  end.
Fixpoint isort (le : string -> string -> bool) (l : list string) : list string :=
  match l with [] => [] | x :: r => insert le x (isort le r) end.

(* -> (sorted block variables, nouts) ; None = formulas of a shape the model does not interpret *)
Definition block_vars (B : blockvars_tpl) (r : sets) : option (list string * nat) :=
  match bv_key B with
  | [KIn iv; KSelf] =>
      if String.eqb iv (bv_input_var B) && String.eqb (bv_nouts_len_of B) (bv_scope_var B)
         && String.eqb (bv_nouts_minus_len_of B) (bv_input_var B)
         && String.eqb (nth 0 (bv_returns B) "") (bv_scope_var B)
         && String.eqb (nth 2 (bv_returns B) "") (bv_nouts_var B)
      then match interp B r (bv_scope B), interp B r (bv_input B) with
           | Some scope, Some io =>
               let sorted := isort (key_le io) scope in
               Some (sorted, List.length sorted - List.length io)
           | _, _ => None
           end
      else None
  | _ => None
  end.

Definition input_only (B : blockvars_tpl) (r : sets) : list string :=
  match interp B r (bv_input B) with Some io => io | None => [] end.

(* ControlFlowTransformer._get_block_composite_vars: a composite symbol modified in the block becomes a block variable only
   if every simple symbol it is resolved through (QN.support_set, literals dropped) is live into the statement -- an item
   t[p.i] whose p is created inside the block is a local matter of the block *)
Definition composite_admitted (live_in : list string) (q : qn) : bool :=
  forallb (fun x => smem x live_in) (support q).
Definition composites_admitted (live_in : list string) (vars : list qn) : bool :=
  forallb (fun q => is_simple q || composite_admitted live_in q) vars.
