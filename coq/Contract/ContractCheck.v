(* C03 -- checker evaluated in Coq on harness-written cases (correspondence model / implementation). *)
From Coq Require Import List String Bool Arith ZArith.
Import ListNotations.
Require Import MV.Contract.ContractSyntax MV.Contract.StateModel MV.Contract.Emit MV.Contract.BlockVars
               MV.Contract.Delete MV.Generated.C03_gen.
Local Open Scope string_scope.

Inductive kind := KIf | KWhile | KFor.
Definition tpl_of (k : kind) : stmt_tpl :=
  match k with KIf => c_if contract_gen | KWhile => c_while contract_gen | KFor => c_for contract_gen end.

Fixpoint qn_eqb (a b : qn) : bool :=
  match a, b with
  | QS x, QS y => String.eqb x y
  | QLit (LStr x), QLit (LStr y) => String.eqb x y
  | QLit (LInt x), QLit (LInt y) => Z.eqb x y
  | QAttr p x, QAttr q y => qn_eqb p q && String.eqb x y
  | QSub p k, QSub q l => qn_eqb p q && qn_eqb k l
  | _, _ => false
  end.
Definition gexpr_eqb (a b : gexpr) : bool :=
  match a, b with
  | GPlain p, GPlain q => qn_eqb p q
  | GGuarded c p n, GGuarded d q m => String.eqb c d && qn_eqb p q && String.eqb n m
  | _, _ => false
  end.
Fixpoint list_eqb {A} (eqb : A -> A -> bool) (a b : list A) : bool :=
  match a, b with
  | [], [] => true
  | x :: r, y :: s => eqb x y && list_eqb eqb r s
  | _, _ => false
  end.

(* one converted statement: the block variables handed to the converter's templates and what the
   generated code contains *)
Record static_case := {
  sc_id : nat; sc_kind : kind; sc_vars : list qn;
  sc_names : list string; sc_getter : list gexpr; sc_targets : list gexpr;
  sc_getter_arity : nat; sc_setter_arity : nat;
  sc_sets : sets; sc_order : list string; sc_nouts : option nat;
  sc_opts_anno : option (list string); sc_target : string; sc_opts_keys : option (list string) }.

Definition check_static (c : static_case) : bool :=
  match emit contract_gen (tpl_of (sc_kind c)) (sc_vars c) with
  | Some E =>
      list_eqb String.eqb (e_names E) (sc_names c) && list_eqb gexpr_eqb (e_getter E) (sc_getter c)
      && list_eqb gexpr_eqb (e_targets E) (sc_targets c)
      && Nat.eqb (e_getter_arity E) (sc_getter_arity c) && Nat.eqb (e_setter_arity E) (sc_setter_arity c)
      && e_wired E && e_unpacks_param E
  | None => false
  end
  && match block_vars block_vars_gen (sc_sets c) with
     | Some (order, nouts) =>
         list_eqb String.eqb order (sc_order c) && list_eqb String.eqb order (map show (sc_vars c))
         && match sc_nouts c with Some n => Nat.eqb n nouts | None => true end
     | None => false
     end
  (* _get_block_composite_vars: the support symbols of every composite block variable are live into the statement *)
  && composites_admitted (s_live_in (sc_sets c)) (sc_vars c)
  && match emit_opts (tpl_of (sc_kind c)) loop_options_gen
                     (option_map (map (fun k => (k, k))) (sc_opts_anno c)) (fun s => s) (sc_target c),
           sc_opts_keys c with
     | Some kv, Some keys => list_eqb String.eqb (map fst kv) keys
     | None, None => true
     | _, _ => false
     end.

Definition failing_static (l : list static_case) : list nat :=
  map sc_id (filter (fun c => negb (check_static c)) l).

(* one dynamic operator invocation: a snapshot of the caller's variables and objects, what
   get_state() returned, the values written with set_state and what get_state() returned then *)
Definition value_list_eqb (a b : list value) : bool := list_eqb value_eqb a b.
Definition opt_values_eqb (a b : option (list value)) : bool :=
  match a, b with
  | Some x, Some y => value_list_eqb x y
  | None, None => true
  | _, _ => false
  end.

Record dyn_case := {
  dc_id : nat; dc_env : list (string * value); dc_heap : list (nat * key * value); dc_vars : list qn;
  dc_get : option (list value);          (* None: get_state() raised *)
  dc_vals : list value;
  dc_get_after : option (list value) }.  (* None: set_state raised (or the following get_state) *)

Definition check_dyn (c : dyn_case) : bool :=
  let s := mk_state (dc_env c) (dc_heap c) in
  opt_values_eqb (get s (dc_vars c)) (dc_get c)
  && opt_values_eqb (match set s (dc_vars c) (dc_vals c) with Some s' => get s' (dc_vars c) | None => None end)
                    (dc_get_after c).

Definition failing_dyn (l : list dyn_case) : list nat :=
  map dc_id (filter (fun c => negb (check_dyn c)) l).

(* one `del` statement of a converted program: its targets and the statements VariableAccessTransformer.visit_Delete
   really returned for it *)
Definition target_eqb (a b : target) : bool :=
  match a, b with
  | TName x, TName y => String.eqb x y
  | TComp p, TComp q => qn_eqb p q
  | _, _ => false
  end.
Definition dstmt_eqb (a b : dstmt) : bool :=
  match a, b with
  | DRead x, DRead y => String.eqb x y
  | DBindUndef x n, DBindUndef y m => String.eqb x y && String.eqb n m
  | DDel ts, DDel us => list_eqb target_eqb ts us
  | _, _ => false
  end.

Record del_case := { dl_id : nat; dl_targets : list target; dl_emitted : list dstmt }.

Definition check_del (c : del_case) : bool :=
  list_eqb dstmt_eqb (lower_delete delete_rule_gen (dl_targets c)) (dl_emitted c).

Definition failing_del (l : list del_case) : list nat :=
  map dl_id (filter (fun c => negb (check_del c)) l).
