(* C03 -- hand model (H/S): qualified names, an environment + heap, the generated state getter
   (reads, composites through ldu) and state setter (one unpacking assignment).  No proofs here.

   Abstractions (stated in the evidence): heap objects are plain records that answer attribute and
   item look-ups from one table (instance __dict__ / dict); a failing look-up is KeyError /
   AttributeError (what ldu catches); item look-up on a non-container is TypeError (escapes ldu);
   lists (IndexError) and objects with properties / __getitem__ side effects are outside the model. *)
From Coq Require Import List String Bool ZArith DecimalString.
Import ListNotations.
Local Open Scope string_scope.

Inductive lit := LStr (s : string) | LInt (z : Z).
(* malt.pyct.qual_names.QN: a simple name / literal, an attribute of a QN, a QN subscripted by a QN *)
Inductive qn := QS (x : string) | QLit (l : lit) | QAttr (p : qn) (a : string) | QSub (p : qn) (k : qn).

Definition is_simple (q : qn) : bool := match q with QS _ | QLit _ => true | _ => false end.
Definition is_symbol (q : qn) : bool := match q with QLit _ => false | _ => true end.

Definition show_lit (l : lit) : string :=
  match l with LStr s => "'" ++ s ++ "'" | LInt z => NilZero.string_of_int (Z.to_int z) end.
(* QN.__str__ *)
Fixpoint show (q : qn) : string :=
  match q with
  | QS x => x
  | QLit l => show_lit l
  | QAttr p a => show p ++ "." ++ a
  | QSub p k => show p ++ "[" ++ show k ++ "]"
  end.

Inductive value := VInt (z : Z) | VStr (s : string) | VRef (l : nat) | VUndef (name : string).
Inductive key := KAttr (a : string) | KItem (v : value).

Definition value_eqb (a b : value) : bool :=
  match a, b with
  | VInt x, VInt y => Z.eqb x y
  | VStr x, VStr y => String.eqb x y
  | VRef x, VRef y => Nat.eqb x y
  | VUndef x, VUndef y => String.eqb x y
  | _, _ => false
  end.
Definition key_eqb (a b : key) : bool :=
  match a, b with
  | KAttr x, KAttr y => String.eqb x y
  | KItem x, KItem y => value_eqb x y
  | _, _ => false
  end.

Record state := { env : string -> option value; heap : nat -> key -> option value }.

(* pointwise equality of states (no functional extensionality) *)
Definition seq (s t : state) : Prop :=
  (forall x, env s x = env t x) /\ (forall l k, heap s l k = heap t l k).

Inductive res := Ok (v : value) | Missing | Fail.   (* Missing: KeyError / AttributeError / NameError *)

Definition lit_value (l : lit) : value := match l with LStr s => VStr s | LInt z => VInt z end.

Fixpoint eval (s : state) (q : qn) : res :=
  match q with
  | QS x => match env s x with Some v => Ok v | None => Missing end
  | QLit l => Ok (lit_value l)
  | QAttr p a =>
      match eval s p with
      | Ok (VRef l) => match heap s l (KAttr a) with Some v => Ok v | None => Missing end
      | Ok (VUndef n) => Ok (VUndef n)            (* Undefined.__getattribute__ returns self *)
      | Ok _ => Missing                           (* AttributeError *)
      | r => r
      end
  | QSub p k =>
      match eval s p with
      | Ok pv =>
          match eval s k with
          | Ok kv =>
              match pv with
              | VRef l => match heap s l (KItem kv) with Some v => Ok v | None => Missing end
              | VUndef n => Ok (VUndef n)         (* Undefined.__getitem__ returns self *)
              | _ => Fail                         (* TypeError: not subscriptable *)
              end
          | r => r
          end
      | r => r
      end
  end.

(* one element of the getter tuple:  v  for simple names,  ag__.ldu(lambda: v, 'v')  for composites *)
Definition read1 (s : state) (q : qn) : option value :=
  match eval s q with
  | Ok v => Some v
  | Missing => if is_simple q then None else Some (VUndef (show q))
  | Fail => None
  end.

(* get_state(): None = the call raises *)
Fixpoint get (s : state) (vars : list qn) : option (list value) :=
  match vars with
  | [] => Some []
  | q :: qs => match read1 s q, get s qs with Some v, Some vs => Some (v :: vs) | _, _ => None end
  end.

Inductive cell := CVar (x : string) | CFld (l : nat) (k : key).

Definition cell_eqb (a b : cell) : bool :=
  match a, b with
  | CVar x, CVar y => String.eqb x y
  | CFld l k, CFld l' k' => Nat.eqb l l' && key_eqb k k'
  | _, _ => false
  end.

(* the storage cell an assignment to q writes; None = the assignment raises *)
Definition cell_of (s : state) (q : qn) : option cell :=
  match q with
  | QS x => Some (CVar x)
  | QLit _ => None
  | QAttr p a => match eval s p with Ok (VRef l) => Some (CFld l (KAttr a)) | _ => None end
  | QSub p k => match eval s p, eval s k with
                | Ok (VRef l), Ok kv => Some (CFld l (KItem kv))
                | _, _ => None
                end
  end.

Definition read_cell (s : state) (c : cell) : option value :=
  match c with CVar x => env s x | CFld l k => heap s l k end.

Definition write_cell (s : state) (c : cell) (v : value) : state :=
  match c with
  | CVar x => {| env := fun y => if String.eqb y x then Some v else env s y; heap := heap s |}
  | CFld l k => {| env := env s;
                   heap := fun l' k' => if Nat.eqb l' l && key_eqb k' k then Some v else heap s l' k' |}
  end.

(* set_state(vals):  t1, ..., tn = vals  -- length checked first, then the targets are assigned
   left to right, each one resolved in the state reached so far; None = the call raises. *)
Fixpoint set_cells (s : state) (vars : list qn) (vals : list value) : option (list cell * state) :=
  match vars, vals with
  | [], [] => Some ([], s)
  | q :: qs, v :: vs =>
      match cell_of s q with
      | Some c => match set_cells (write_cell s c v) qs vs with
                  | Some (cs, s') => Some (c :: cs, s')
                  | None => None
                  end
      | None => None
      end
  | _, _ => None
  end.

Definition set (s : state) (vars : list qn) (vals : list value) : option state :=
  match set_cells s vars vals with Some (_, s') => Some s' | None => None end.

Definition is_undef (v : value) : bool := match v with VUndef _ => true | _ => false end.

(* guard of the known finding: every composite state variable evaluates to a proper value *)
Definition composite_exists (s : state) (q : qn) : bool :=
  is_simple q || match eval s q with Ok v => negb (is_undef v) | _ => false end.
Definition composites_exist (s : state) (vars : list qn) : bool := forallb (composite_exists s) vars.

Definition assignable (vars : list qn) : bool := forallb is_symbol vars.

(* simple names a QN is resolved through (QN.support_set) *)
Fixpoint support (q : qn) : list string :=
  match q with
  | QS x => [x]
  | QLit _ => []
  | QAttr p _ => support p
  | QSub p k => support p ++ support k
  end.

(* x, x.a, x['k'], x[3], x[y] *)
Definition flat (q : qn) : bool :=
  match q with
  | QS _ => true
  | QAttr (QS _) _ => true
  | QSub (QS _) (QLit _) => true
  | QSub (QS _) (QS _) => true
  | _ => false
  end.

Definition qn_is (x : string) (q : qn) : bool := match q with QS y => String.eqb x y | _ => false end.

(* no composite state variable is resolved through a name that is itself a state variable *)
Definition independent1 (vars : list qn) (q : qn) : bool :=
  flat q && (is_simple q || forallb (fun x => negb (existsb (qn_is x) vars)) (support q)).
Definition independent (vars : list qn) : bool := forallb (independent1 vars) vars.

Fixpoint nodup_cells (cs : list cell) : bool :=
  match cs with
  | [] => true
  | c :: r => negb (existsb (cell_eqb c) r) && nodup_cells r
  end.

(* finite states for the harness and the witnesses *)
Definition mk_state (e : list (string * value)) (h : list (nat * key * value)) : state :=
  {| env := fun x => match find (fun p => String.eqb (fst p) x) e with Some p => Some (snd p) | None => None end;
     heap := fun l k => match find (fun p => Nat.eqb (fst (fst p)) l && key_eqb (snd (fst p)) k) h with
                        | Some p => Some (snd p) | None => None end |}.
