(* C03 -- hand model (H/S) of `del` statements as the variables pass leaves them (visit_Delete, table in
   C03_gen.delete_rule_gen) and of their execution on the state model of StateModel.v.  No proofs here.

   Why it belongs to the calling contract: the generated getter `def get_state(): return (x, ...)` reads a
   simple name directly (only composites go through ldu), so get_state() is total exactly as long as every
   state variable that is a plain name stays BOUND between operator calls.  A real `del x` executed inside a
   generated body (which declares x nonlocal) empties the cell shared with the getter; visit_Delete therefore
   replaces the deletion of a name by a binding to the Undefined placeholder. *)
From Coq Require Import List String Bool ZArith.
Import ListNotations.
Require Import MV.Contract.ContractSyntax MV.Contract.StateModel.
Local Open Scope string_scope.

Inductive target := TName (x : string) | TComp (q : qn).     (* `x`  /  `o.a`, `d[k]`, ... *)
Definition is_name (t : target) : bool := match t with TName _ => true | TComp _ => false end.

(* the statements visit_Delete emits *)
Inductive dstmt :=
| DRead (x : string)                (* ag__.ld(x) *)
| DBindUndef (x n : string)         (* x = ag__.Undefined('n') *)
| DDel (ts : list target).          (* del t1, ..., tn *)

(* one template statement instantiated for one target (the name templates are only used for names, see
   delete_rule_ok; the last case makes the function total) *)
Definition act (a : del_action) (t : target) : dstmt :=
  match a, t with
  | DARead, TName x => DRead x
  | DABindUndefined, TName x => DBindUndef x x
  | _, _ => DDel [t]
  end.

Definition rewritten (r : delete_rule) (ts : list target) : bool :=
  match dr_rewritten_when r with QAny => existsb is_name ts | QAll => forallb is_name ts end.

Definition lower_delete (r : delete_rule) (ts : list target) : list dstmt :=
  if rewritten r ts
  then flat_map (fun t => map (fun a => act a t) (if is_name t then dr_name r else dr_other r)) ts
  else [DDel ts].

(* ---------------------------------------------------------------- execution *)
Definition unbind (s : state) (x : string) : state :=
  {| env := fun y => if String.eqb y x then None else env s y; heap := heap s |}.
Definition remove_cell (s : state) (l : nat) (k : key) : state :=
  {| env := env s; heap := fun l' k' => if Nat.eqb l' l && key_eqb k' k then None else heap s l' k' |}.

(* del t; None = it raises (NameError / UnboundLocalError, KeyError, AttributeError, TypeError) *)
Definition del1 (s : state) (t : target) : option state :=
  match t with
  | TName x => match env s x with Some _ => Some (unbind s x) | None => None end
  | TComp q =>
      match cell_of s q with
      | Some (CFld l k) => match heap s l k with Some _ => Some (remove_cell s l k) | None => None end
      | _ => None
      end
  end.

(* results are (state reached, reached by an exception): the state matters in both cases, an enclosing
   try may catch the exception and a later operator call reads the state *)
Fixpoint del_all (s : state) (ts : list target) : state * bool :=
  match ts with
  | [] => (s, false)
  | t :: r => match del1 s t with Some s' => del_all s' r | None => (s, true) end
  end.

Definition exec1 (s : state) (d : dstmt) : state * bool :=
  match d with
  | DRead x => match env s x with Some v => (s, is_undef v) | None => (s, true) end   (* ld raises on unbound / Undefined *)
  | DBindUndef x n => (write_cell s (CVar x) (VUndef n), false)
  | DDel ts => del_all s ts
  end.

Fixpoint exec (s : state) (ds : list dstmt) : state * bool :=
  match ds with
  | [] => (s, false)
  | d :: r => let (s', raised) := exec1 s d in if raised then (s', true) else exec s' r
  end.

(* ---------------------------------------------------------------- the table that keeps names bound *)
Definition quantifier_eqb (a b : quantifier) : bool :=
  match a, b with QAny, QAny | QAll, QAll => true | _, _ => false end.
Definition del_action_eqb (a b : del_action) : bool :=
  match a, b with DARead, DARead | DABindUndefined, DABindUndefined | DADelete, DADelete => true | _, _ => false end.
Fixpoint actions_eqb (a b : list del_action) : bool :=
  match a, b with
  | [], [] => true
  | x :: r, y :: s => del_action_eqb x y && actions_eqb r s
  | _, _ => false
  end.

(* a statement with ANY plain-name target is taken apart; a name is read (so that deleting an unbound name
   still raises) and then rebound to the placeholder; everything else is deleted for real, one by one *)
Definition delete_rule_ok (r : delete_rule) : bool :=
  quantifier_eqb (dr_rewritten_when r) QAny
  && actions_eqb (dr_name r) [DARead; DABindUndefined]
  && actions_eqb (dr_other r) [DADelete].

(* what execution may do to a state without breaking a getter: a bound name stays bound (same value or an
   Undefined placeholder), an unbound name stays unbound, heap cells keep their value or disappear *)
Definition keeps (s s' : state) : Prop :=
  (forall x, env s' x = env s x \/ (env s x <> None /\ exists n, env s' x = Some (VUndef n))) /\
  (forall l k, heap s' l k = heap s l k \/ heap s' l k = None).

(* syntactic safety of an emitted statement list: no real deletion of a name; a rebinding to Undefined only
   directly after the read of the same name (which raised if the name was unbound) *)
Fixpoint safe_from (prev : option string) (ds : list dstmt) : bool :=
  match ds with
  | [] => true
  | DRead x :: r => safe_from (Some x) r
  | DBindUndef y _ :: r => match prev with Some x => String.eqb x y | None => false end && safe_from None r
  | DDel ts :: r => forallb (fun t => negb (is_name t)) ts && safe_from None r
  end.
