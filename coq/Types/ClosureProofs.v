(* C19 -- the closure certificate implies that call-site types arrive at the callee (lemmas). *)
From Coq Require Import List Arith Bool.
Import ListNotations.
Require Import MV.Types.Infer MV.Types.InferProofs MV.Types.InferCheck MV.Types.InferCertProofs MV.Types.Closure.

Lemma find_fun_in fs k f : find_fun fs k = Some f -> In f fs /\ lf_id f = k.
Proof.
  induction fs as [|g r IH]; simpl; [discriminate|].
  destruct (Nat.eqb k (lf_id g)) eqn:E; intros H.
  - inversion H; subst. apply Nat.eqb_eq in E. auto.
  - destruct (IH H). auto.
Qed.

Lemma subb_except_spec bound a b :
  subb_except bound a b = true ->
  forall x s, lookup a x = Some s -> mem_name x bound = false ->
  exists s', lookup b x = Some s' /\ incl s s'.
Proof.
  unfold subb_except. rewrite forallb_forall. intros H x s L NB.
  specialize (H x (lookup_keys _ _ _ L)). rewrite NB, L in H. simpl in H.
  destruct (lookup b x) as [s'|]; [|discriminate]. exists s'. split; auto. apply inclb_incl. exact H.
Qed.

Section Clos.
  Variable fs : list lfun.
  Variable cs : list csite.
  Hypothesis OK : clos_ok fs cs = true.

  Lemma site_checked c : In c cs -> site_ok fs c = true.
  Proof.
    intros H. unfold clos_ok in OK. apply andb_prop in OK. destruct OK as [_ S].
    rewrite forallb_forall in S. auto.
  Qed.

  Lemma fun_checked f : In f fs -> fun_ok f = true.
  Proof.
    intros H. unfold clos_ok in OK. apply andb_prop in OK. destruct OK as [F _].
    rewrite forallb_forall in F. auto.
  Qed.

  (* every call site is covered by the final annotation *)
  Lemma site_in_final c : In c cs ->
    exists f, find_fun fs (cs_callee c) = Some f /\ sub (cs_out c) (lf_final f).
  Proof.
    intros H. pose proof (site_checked c H) as S. unfold site_ok in S.
    destruct (find_fun fs (cs_callee c)) as [f|]; [|discriminate].
    apply andb_prop in S. destruct S as [S _]. exists f. split; auto. apply subb_sub. exact S.
  Qed.

  (* a call site in a function analysed no later than the callee: its types are in the callee's entry state *)
  Lemma site_in_entry c : In c cs -> cs_late c = false ->
    exists f, find_fun fs (cs_callee c) = Some f /\
      forall x s, lookup (cs_out c) x = Some s -> mem_name x (lf_bound f) = false ->
        exists s', lookup (lf_entry f) x = Some s' /\ incl s s'.
  Proof.
    intros H NL. pose proof (site_checked c H) as S. unfold site_ok in S.
    destruct (find_fun fs (cs_callee c)) as [f|] eqn:F; [|discriminate].
    apply andb_prop in S. destruct S as [_ S]. rewrite NL in S. simpl in S.
    exists f. split; auto. intros x s L NB.
    destruct (subb_sub _ _ S x s L) as [s1 [L1 I1]].
    destruct (find_fun_in _ _ _ F) as [Fin _].
    destruct (subb_except_spec _ _ _ (fun_checked f Fin) x s1 L1 NB) as [s2 [L2 I2]].
    exists s2. split; auto. intros t Ht. apply I2. apply I1. exact Ht.
  Qed.
End Clos.
