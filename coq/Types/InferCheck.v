(* C19 -- the model run on harness-written cases: a resolver given as finite tables (the answers the
   scripted resolver gave to the real analysis), the worklist result compared with the
   implementation's in_/out maps, and the boolean certificate check `sol_ok` on the implementation's
   own solution (its soundness is InferProofs/Properties: sol_ok_sound).  No proofs in this file. *)
From Coq Require Import List Arith Bool.
Import ListNotations.
Require Import MV.Types.Infer MV.Types.InferProofs.

Definition otyset_eqb (a b : option tyset) : bool :=
  match a, b with
  | Some x, Some y => tyset_eqb x y
  | None, None => true
  | _, _ => false
  end.

Fixpoint olist_eqb (a b : list (option tyset)) : bool :=
  match a, b with
  | [], [] => true
  | x :: a', y :: b' => otyset_eqb x y && olist_eqb a' b'
  | _, _ => false
  end.

Record tables := mktables {
  t_locals : list name;
  t_value : list (nat * nat * option tyset);                 (* (tag, payload) of a constant *)
  t_name : list (name * option tyset);
  t_arg : list (name * option tyset);
  t_call : list (nat * list (option tyset) * option tyset);  (* call node, argument sets *)
  t_binop : list (nat * tyset * tyset * option tyset);
  t_compare : list (nat * tyset * tyset * option tyset);
  t_unop : list (nat * tyset * option tyset);
  t_slice : list (nat * tyset * tyset * option tyset);
  t_unpack : list (nat * tyset * option tyset);
  t_list : option tyset }.

Fixpoint find3 (l : list (nat * tyset * tyset * option tyset)) (k : nat) (a b : tyset) : option tyset :=
  match l with
  | [] => None
  | (k', a', b', r) :: rest => if Nat.eqb k k' && tyset_eqb a a' && tyset_eqb b b' then r else find3 rest k a b
  end.
Fixpoint find2 (l : list (nat * tyset * option tyset)) (k : nat) (a : tyset) : option tyset :=
  match l with
  | [] => None
  | (k', a', r) :: rest => if Nat.eqb k k' && tyset_eqb a a' then r else find2 rest k a
  end.
Fixpoint find_call (l : list (nat * list (option tyset) * option tyset)) (k : nat) (a : list (option tyset)) : option tyset :=
  match l with
  | [] => None
  | (k', a', r) :: rest => if Nat.eqb k k' && olist_eqb a a' then r else find_call rest k a
  end.
Fixpoint find_name (l : list (name * option tyset)) (x : name) : option tyset :=
  match l with
  | [] => None
  | (y, r) :: rest => if Nat.eqb x y then r else find_name rest x
  end.
Fixpoint find_value (l : list (nat * nat * option tyset)) (t p : nat) : option tyset :=
  match l with
  | [] => None
  | (t', p', r) :: rest => if Nat.eqb t t' && Nat.eqb p p' then r else find_value rest t p
  end.

Section Tab.
  Variable T : tables.
  Definition tb_is_local (x : name) : bool := existsb (Nat.eqb x) (t_locals T).
  Definition tb_ctx (x : name) : option tyset := None.
  Definition tb_value (v : val) : option tyset :=
    match v with VBase t p => find_value (t_value T) t p | VTup _ => None end.
  Definition tb_name := find_name (t_name T).
  Definition tb_arg := find_name (t_arg T).
  Definition tb_call (k : nat) (f : name) (ft : option tyset) (a : list (option tyset)) := find_call (t_call T) k a.
  Definition tb_binop := find3 (t_binop T).
  Definition tb_compare := find3 (t_compare T).
  Definition tb_unop := find2 (t_unop T).
  Definition tb_slice := find3 (t_slice T).
  Definition tb_unpack (i : nat) (s : tyset) (it : option tyset) := find2 (t_unpack T) i s.
  Definition tb_list (a : list (option tyset)) := t_list T.
  Definition tb_zero := VBase 0 0.

  Definition tb_transfer :=
    transfer tb_is_local tb_ctx tb_value tb_name tb_arg tb_call tb_binop tb_compare tb_unop tb_slice tb_unpack tb_list tb_zero.
  Definition tb_infer :=
    infer tb_is_local tb_ctx tb_value tb_name tb_call tb_binop tb_compare tb_unop tb_slice tb_list.
  Definition tb_node_ok (clean : name -> bool) :=
    node_ok tb_is_local tb_ctx tb_value tb_name tb_arg tb_call tb_binop tb_compare tb_unop tb_slice tb_unpack tb_list tb_zero clean.
End Tab.

(* the certificate: the conditions of types_sound, decidable *)
Definition sol_ok (T : tables) (cleans : list name) (g : graph) (sol : solution) : bool :=
  let clean := fun x => existsb (Nat.eqb x) cleans in
  forallb (fun x => tb_is_local T x) cleans &&
  forallb (fun n => match assoc (g_nodes g) n with
                    | Some nd => tb_node_ok T clean nd (sol_in sol n) &&
                                 subb (tb_transfer T nd (sol_in sol n)) (sol_out sol n)
                    | None => true
                    end) (map fst (g_nodes g)) &&
  forallb (fun n => forallb (fun m => subb (sol_out sol n) (sol_in sol m)) (succs g n)) (map fst (g_succ g)) &&
  forallb (fun n => forallb (tb_is_local T) (keys (sol_in sol n))) (map fst sol).

Definition same_solution (g : graph) (a b : solution) : bool :=
  forallb (fun n => tymap_eqb (sol_in a n) (sol_in b n) && tymap_eqb (sol_out a n) (sol_out b n)) (map fst (g_nodes g)).

(* one case: id, worklist fuel (a multiple of the implementation's own number of node visits), tables, clean
   names, graph, the implementation's solution *)
Definition case := (nat * nat * tables * list name * graph * solution)%type.

Definition corr_ok (c : case) : bool :=
  let '(_, fuel, T, _, g, sol) := c in
  match analyze (tb_transfer T) g fuel with
  | Some s => same_solution g s sol
  | None => false
  end.

Definition cert_ok (c : case) : bool :=
  let '(_, _, T, cl, g, sol) := c in sol_ok T cl g sol.

Definition case_id (c : case) : nat := let '(i, _, _, _, _, _) := c in i.

Definition failing (cs : list case) : list nat * list nat :=
  (map case_id (filter (fun c => negb (corr_ok c)) cs),
   map case_id (filter (fun c => negb (cert_ok c)) cs)).
