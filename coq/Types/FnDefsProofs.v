From Coq Require Import List Arith Bool.
Import ListNotations.
Require Import MV.Types.FnDefs.

Section Reach.
  Variable g : fgraph.
  Variable s : fsol.
  Hypothesis OK : fn_ok g s = true.

  (* m is reached from d by at least one CFG edge *)
  Inductive after : nat -> nat -> Prop :=
  | a_edge d m : In m (fassoc (f_succ g) d) -> after d m
  | a_step d k m : after d k -> In m (fassoc (f_succ g) k) -> after d m.

  Lemma fassoc_in l k x : In x (fassoc l k) -> exists a, In (k, a) l /\ fassoc l k = a.
  Proof.
    induction l as [|[k' a] l IH]; simpl; [contradiction|].
    destruct (Nat.eqb k k') eqn:E; intros H.
    - apply Nat.eqb_eq in E; subst. exists a. split; auto.
    - destruct (IH H) as [b [Hb Eb]]. exists b. split; auto.
  Qed.

  Lemma edge_checked n m : In m (fassoc (f_succ g) n) -> edge_ok g s n m = true.
  Proof.
    intros H. destruct (fassoc_in _ _ _ H) as [a [Ha Ea]].
    unfold fn_ok in OK. rewrite forallb_forall in OK. specialize (OK (n, a) Ha). simpl in OK.
    rewrite forallb_forall in OK. apply OK. exact H.
  Qed.

  Lemma memn_in x l : memn x l = true -> In x l.
  Proof.
    unfold memn. intros H. apply existsb_exists in H. destruct H as [y [Hy E]].
    apply Nat.eqb_eq in E. subst. exact Hy.
  Qed.

  Lemma in_memn x l : In x l -> memn x l = true.
  Proof. intros H. apply existsb_exists. exists x. split; auto. apply Nat.eqb_refl. Qed.

  Lemma defs_reach d m : In d (f_defs g) -> after d m -> In d (fassoc s m).
  Proof.
    intros Hd A. induction A as [d m E | d k m A IH E].
    - pose proof (edge_checked _ _ E) as C. unfold edge_ok in C. apply andb_prop in C. destruct C as [_ C].
      rewrite (in_memn _ _ Hd) in C. simpl in C. apply memn_in. exact C.
    - pose proof (edge_checked _ _ E) as C. unfold edge_ok in C. apply andb_prop in C. destruct C as [C _].
      rewrite forallb_forall in C. apply memn_in. apply C. apply IH. exact Hd.
  Qed.
End Reach.
