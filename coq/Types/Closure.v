(* C19 -- closure types of local functions (type_inference.py: Analyzer._update_closure_types at the call
   sites, FunctionVisitor.visit_FunctionDef handing the recorded dictionary to the callee's Analyzer,
   Analyzer.__init__ / visit_node seeding the callee's entry state with it).

   Data of one analysed program, as the implementation produced it:
     per local function: its def node, scope.bound, the CLOSURE_TYPES recorded for it at the moment its own
       analysis started (`lf_seen`), the final CLOSURE_TYPES annotation (`lf_final`) and in_ of the entry node
       of its graph (`lf_entry`);
     per call site (a statement that reads the function's name while its def is in DEFINED_FNS_IN): the callee's
       def node, the type map after the statement (`cs_out`, what _update_closure_types is given), and whether
       the statement belongs to a function that is analysed AFTER the callee (`cs_late`; source order).
   `clos_ok` are the inclusions that make the types at a call site arrive in the callee's entry state.
   No proofs in this file. *)
From Coq Require Import List Arith Bool.
Import ListNotations.
Require Import MV.Types.Infer.

Record lfun := mklfun {
  lf_id : nat;
  lf_bound : list name;
  lf_seen : tymap;
  lf_final : tymap;
  lf_entry : tymap }.

Record csite := mkcsite {
  cs_callee : nat;
  cs_late : bool;
  cs_out : tymap }.

Definition mem_name (x : name) (l : list name) : bool := existsb (Nat.eqb x) l.

(* every name of a that is not in `bound` has an entry in b with at least the same tags
   (context_types = {n: t for n, t in closure_types.items() if n not in scope.bound}) *)
Definition subb_except (bound : list name) (a b : tymap) : bool :=
  forallb (fun x => mem_name x bound ||
                    match lookup a x, lookup b x with
                    | Some s, Some s' => inclb s s'
                    | Some _, None => false
                    | None, _ => true
                    end) (keys a).

Fixpoint find_fun (fs : list lfun) (k : nat) : option lfun :=
  match fs with
  | [] => None
  | f :: r => if Nat.eqb k (lf_id f) then Some f else find_fun r k
  end.

Definition fun_ok (f : lfun) : bool := subb_except (lf_bound f) (lf_seen f) (lf_entry f).

Definition site_ok (fs : list lfun) (c : csite) : bool :=
  match find_fun fs (cs_callee c) with
  | Some f => subb (cs_out c) (lf_final f) && (cs_late c || subb (cs_out c) (lf_seen f))
  | None => false
  end.

Definition clos_ok (fs : list lfun) (cs : list csite) : bool :=
  forallb fun_ok fs && forallb (site_ok fs) cs.

Definition ccase := (nat * list lfun * list csite)%type.
Definition cfailing (l : list ccase) : list nat :=
  map (fun c => fst (fst c)) (filter (fun c => negb (clos_ok (snd (fst c)) (snd c))) l).
