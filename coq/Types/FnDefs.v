(* C19 -- reaching function definitions (malt/pyct/static_analysis/reaching_fndefs.py) as an input of the
   type inference: Analyzer.visit_node records closure types of a local function only at the statements
   whose DEFINED_FNS_IN contains its def.  Model: the CFG edges, the set of def nodes, and the
   implementation's DEFINED_FNS_IN per node; `fn_ok` are the forward dataflow inequations
   out[n] = in[n] + (n if n is a def)  is below  in[m]  for every edge n -> m.   No proofs here. *)
From Coq Require Import List Arith Bool.
Import ListNotations.

Record fgraph := mkfgraph {
  f_succ : list (nat * list nat);
  f_defs : list nat }.                       (* nodes that are FunctionDef / Lambda statements *)

Definition fsol := list (nat * list nat).    (* node -> DEFINED_FNS_IN (def nodes) *)

Fixpoint fassoc (l : list (nat * list nat)) (k : nat) : list nat :=
  match l with [] => [] | (k', a) :: r => if Nat.eqb k k' then a else fassoc r k end.

Definition memn (x : nat) (l : list nat) : bool := existsb (Nat.eqb x) l.

Definition edge_ok (g : fgraph) (s : fsol) (n m : nat) : bool :=
  forallb (fun d => memn d (fassoc s m)) (fassoc s n) &&
  (negb (memn n (f_defs g)) || memn n (fassoc s m)).

Definition fn_ok (g : fgraph) (s : fsol) : bool :=
  forallb (fun p => forallb (edge_ok g s (fst p)) (fassoc (f_succ g) (fst p))) (f_succ g).

Definition fcase := (nat * fgraph * fsol)%type.
Definition ffailing (cs : list fcase) : list nat :=
  map (fun c => fst (fst c)) (filter (fun c => negb (fn_ok (snd (fst c)) (snd c))) cs).
