(* C19 -- model of malt/pyct/static_analysis/type_inference.py (H) and of the run-time side (S).

   Types are tags: a base tag (int, float, str, ... numbered by the exporter) or the tuple of the
   element tags (StmtInferrer.visit_Tuple builds exactly that with itertools.product).  A type map is
   _TypeMap.types: name -> set of tags, absent = nothing known.  The resolver and the operator
   semantics are Section variables; truthfulness hypotheses are stated in InferProofs.v.

   No proofs in this file. *)
From Coq Require Import List Arith Bool.
Import ListNotations.

Definition name := nat.

Inductive ty := TBase (n : nat) | TTup (l : list ty).

Fixpoint ty_eqb (a b : ty) : bool :=
  match a, b with
  | TBase n, TBase m => Nat.eqb n m
  | TTup l, TTup r =>
      (fix go (l r : list ty) : bool :=
         match l, r with
         | [], [] => true
         | x :: l', y :: r' => ty_eqb x y && go l' r'
         | _, _ => false
         end) l r
  | _, _ => false
  end.

Definition tyset := list ty.
Definition tymap := list (name * tyset).

Fixpoint lookup (m : tymap) (x : name) : option tyset :=
  match m with
  | [] => None
  | (y, s) :: r => if Nat.eqb x y then Some s else lookup r x
  end.

(* dict.update(new_symbols): entries applied left to right, the last one for a name wins *)
Definition upd (m : tymap) (x : name) (s : tyset) : tymap := (x, s) :: m.
Definition upd_all (news : list (name * tyset)) (m : tymap) : tymap :=
  fold_left (fun acc p => upd acc (fst p) (snd p)) news m.

(* values: every value has a tag *)
Inductive val := VBase (tag payload : nat) | VTup (l : list val).

Fixpoint type_of (v : val) : ty :=
  match v with
  | VBase t _ => TBase t
  | VTup l => TTup (map type_of l)
  end.

Inductive expr :=
| EConst (v : val)
| EName (x : name)
| ETuple (es : exprs)
| EList (es : exprs)
| EBin (op : nat) (a b : expr)
| ECmp (op : nat) (a b : expr)
| EUn (op : nat) (a : expr)
| ESub (k : nat) (a b : expr)
| ECall (k : nat) (f : name) (args : exprs)      (* call of an external function *)
| EOther (es : exprs)                             (* any expression kind StmtInferrer has no visitor for *)
with exprs :=
| Enil
| Econs (e : expr) (es : exprs).

Inductive target :=
| TgName (x : name)
| TgTuple (xs : list name).       (* flat tuple / list unpacking *)

Inductive node :=
| NArgs (ps : list name)                      (* the `arguments` node: the graph's entry *)
| NAssign (ts : list target) (e : expr)
| NExpr (e : expr)                            (* Expr, Return, the test of if/while, a for iterable without effect on names *)
| NHavoc (xs : list name) (e : expr).         (* a construct that binds xs but has no visitor that types them:
                                                 augmented assignment, the target of a for loop, with-as, import, ... *)

Definition env := name -> option val.
Definition set_env (r : env) (x : name) (v : val) : env := fun y => if Nat.eqb y x then Some v else r y.

Section Model.
  (* scope *)
  Variable is_local : name -> bool.            (* scope.bound minus scope.nonlocals *)
  Variable ctx : name -> option tyset.         (* closure_types *)
  (* the resolver *)
  Variable res_value : val -> option tyset.
  Variable res_name : name -> option tyset.
  Variable res_arg : name -> option tyset.
  Variable res_call : nat -> name -> option tyset -> list (option tyset) -> option tyset.
  Variable res_binop : nat -> tyset -> tyset -> option tyset.
  Variable res_compare : nat -> tyset -> tyset -> option tyset.
  Variable res_unop : nat -> tyset -> option tyset.
  Variable res_slice : nat -> tyset -> tyset -> option tyset.
  Variable res_unpack : nat -> tyset -> option tyset -> option tyset.   (* res_slice(ns, types, i, rtype, res_value(0)) *)
  Variable res_list : list (option tyset) -> option tyset.
  (* run-time semantics of what the resolver is asked about *)
  Variable genv : name -> option val.
  Variable sem_call : val -> list val -> option val.
  Variable sem_bin sem_cmp sem_sub : nat -> val -> val -> option val.
  Variable sem_un : nat -> val -> option val.
  Variable sem_list : list val -> val.
  Variable sem_other : list val -> option val.
  Variable sem_unpack : val -> nat -> option (list val).    (* iterating a value that is unpacked into n targets *)
  Variable zero : val.                                        (* the literal 0 of _apply_unpacking *)

  (* ---------------- StmtInferrer ---------------- *)
  Definition name_types (tm : tymap) (x : name) : option tyset :=
    match lookup tm x with
    | Some s => Some s
    | None => if is_local x then None
              else match ctx x with Some s => Some s | None => res_name x end
    end.

  (* the set of all tuples drawn from the element sets (itertools.product) *)
  Fixpoint product (ss : list tyset) : list (list ty) :=
    match ss with
    | [] => [[]]
    | s :: r => flat_map (fun t => map (cons t) (product r)) s
    end.

  Fixpoint infer (tm : tymap) (e : expr) : option tyset :=
    match e with
    | EConst v => res_value v
    | EName x => name_types tm x
    | ETuple es => match infer_all tm es with
                   | Some ss => Some (map TTup (product ss))
                   | None => None
                   end
    | EList es => res_list (infer_each tm es)
    | EBin op a b => match infer tm a, infer tm b with
                     | Some l, Some r => res_binop op l r
                     | _, _ => None
                     end
    | ECmp op a b => match infer tm a, infer tm b with
                     | Some l, Some r => res_compare op l r
                     | _, _ => None
                     end
    | EUn op a => match infer tm a with Some l => res_unop op l | None => None end
    | ESub k a b => match infer tm a, infer tm b with
                    | Some l, Some r => res_slice k l r
                    | _, _ => None
                    end
    | ECall k f args => res_call k f (name_types tm f) (infer_each tm args)
    | EOther es => None
    end
  with infer_all (tm : tymap) (es : exprs) : option (list tyset) :=
    match es with
    | Enil => Some []
    | Econs e r => match infer tm e, infer_all tm r with
                   | Some s, Some ss => Some (s :: ss)
                   | _, _ => None
                   end
    end
  with infer_each (tm : tymap) (es : exprs) : list (option tyset) :=
    match es with
    | Enil => []
    | Econs e r => infer tm e :: infer_each tm r
    end.

  Fixpoint unpack_syms (i : nat) (xs : list name) (s : tyset) : list (name * tyset) :=
    match xs with
    | [] => []
    | x :: r => match res_unpack i s (res_value zero) with
                | Some s' => (x, s') :: unpack_syms (S i) r s
                | None => unpack_syms (S i) r s
                end
    end.

  Definition target_syms (s : tyset) (t : target) : list (name * tyset) :=
    match t with
    | TgName x => [(x, s)]
    | TgTuple xs => unpack_syms 0 xs s
    end.

  (* inferrer.new_symbols after visiting the node *)
  Definition new_symbols (nd : node) (tm : tymap) : list (name * tyset) :=
    match nd with
    | NArgs ps => flat_map (fun p => match res_arg p with Some s => [(p, s)] | None => [] end) ps
    | NAssign ts e => match infer tm e with
                      | Some s => flat_map (target_syms s) ts
                      | None => []
                      end
    | NExpr _ => []
    | NHavoc _ _ => []
    end.

  (* Analyzer.visit_node: types_out = copy of types_in updated with new_symbols *)
  Definition transfer (nd : node) (tm : tymap) : tymap := upd_all (new_symbols nd tm) tm.

  (* ---------------- run-time semantics ---------------- *)
  Definition value_of (r : env) (x : name) : option val := if is_local x then r x else genv x.

  Fixpoint eval (r : env) (e : expr) : option val :=
    match e with
    | EConst v => Some v
    | EName x => value_of r x
    | ETuple es => match eval_all r es with Some vs => Some (VTup vs) | None => None end
    | EList es => match eval_all r es with Some vs => Some (sem_list vs) | None => None end
    | EBin op a b => match eval r a, eval r b with Some x, Some y => sem_bin op x y | _, _ => None end
    | ECmp op a b => match eval r a, eval r b with Some x, Some y => sem_cmp op x y | _, _ => None end
    | EUn op a => match eval r a with Some x => sem_un op x | None => None end
    | ESub k a b => match eval r a, eval r b with Some x, Some y => sem_sub k x y | _, _ => None end
    | ECall k f args => match value_of r f, eval_all r args with
                        | Some vf, Some vs => sem_call vf vs
                        | _, _ => None
                        end
    | EOther es => match eval_all r es with Some vs => sem_other vs | None => None end
    end
  with eval_all (r : env) (es : exprs) : option (list val) :=
    match es with
    | Enil => Some []
    | Econs e rest => match eval r e, eval_all r rest with
                      | Some v, Some vs => Some (v :: vs)
                      | _, _ => None
                      end
    end.

  Fixpoint bind_all (r : env) (xs : list name) (vs : list val) : option env :=
    match xs, vs with
    | [], [] => Some r
    | x :: xs', v :: vs' => bind_all (set_env r x v) xs' vs'
    | _, _ => None
    end.

  Definition assign (r : env) (t : target) (v : val) : option env :=
    match t with
    | TgName x => Some (set_env r x v)
    | TgTuple xs => match sem_unpack v (length xs) with
                    | Some vs => bind_all r xs vs
                    | None => None
                    end
    end.

  Fixpoint assign_all (r : env) (ts : list target) (v : val) : option env :=
    match ts with
    | [] => Some r
    | t :: rest => match assign r t v with
                   | Some r' => assign_all r' rest v
                   | None => None
                   end
    end.

  (* one CFG node executes: relation because arguments and untyped bindings are arbitrary *)
  Inductive step : node -> env -> env -> Prop :=
  | st_args ps vs r r' :
      bind_all r ps vs = Some r' ->
      Forall2 (fun p v => forall s, res_arg p = Some s -> In (type_of v) s) ps vs ->   (* res_arg is truthful about this call *)
      step (NArgs ps) r r'
  | st_assign ts e r v r' :
      eval r e = Some v -> assign_all r ts v = Some r' -> step (NAssign ts e) r r'
  | st_expr e r v :
      eval r e = Some v -> step (NExpr e) r r
  | st_havoc xs e r r' :
      (forall y, ~ In y xs -> r' y = r y) -> step (NHavoc xs e) r r'.

  (* names a node may bind *)
  Definition target_names (t : target) : list name :=
    match t with TgName x => [x] | TgTuple xs => xs end.
  Definition binds (nd : node) : list name :=
    match nd with
    | NArgs ps => ps
    | NAssign ts _ => flat_map target_names ts
    | NExpr _ => []
    | NHavoc xs _ => xs
    end.

  (* local names an expression reads *)
  Fixpoint reads (e : expr) : list name :=
    match e with
    | EConst _ => []
    | EName x => [x]
    | ETuple es | EList es | EOther es => reads_all es
    | EBin _ a b | ECmp _ a b | ESub _ a b => reads a ++ reads b
    | EUn _ a => reads a
    | ECall _ f args => f :: reads_all args
    end
  with reads_all (es : exprs) : list name :=
    match es with Enil => [] | Econs e r => reads e ++ reads_all r end.

  Definition node_expr (nd : node) : option expr :=
    match nd with NArgs _ => None | NAssign _ e => Some e | NExpr e => Some e | NHavoc _ e => Some e end.
End Model.

(* ---------------- graph, solution, worklist (cfg.GraphVisitor._visit_internal, forward) ---------------- *)
Record graph := mkgraph {
  g_nodes : list (nat * node);
  g_succ : list (nat * list nat);
  g_prev : list (nat * list nat);      (* node.prev, in the implementation's order *)
  g_entry : nat }.

Fixpoint assoc {A} (l : list (nat * A)) (k : nat) : option A :=
  match l with [] => None | (k', a) :: r => if Nat.eqb k k' then Some a else assoc r k end.
Definition succs (g : graph) (n : nat) : list nat := match assoc (g_succ g) n with Some l => l | None => [] end.
Definition prevs (g : graph) (n : nat) : list nat := match assoc (g_prev g) n with Some l => l | None => [] end.

Definition solution := list (nat * (tymap * tymap)).       (* node -> (in_, out) *)
Definition sol_in (s : solution) (n : nat) : tymap := match assoc s n with Some p => fst p | None => [] end.
Definition sol_out (s : solution) (n : nat) : tymap := match assoc s n with Some p => snd p | None => [] end.

Definition mem_ty (t : ty) (s : tyset) : bool := existsb (ty_eqb t) s.
Definition inclb (a b : tyset) : bool := forallb (fun t => mem_ty t b) a.
Definition tyset_eqb (a b : tyset) : bool := inclb a b && inclb b a.

Definition keys (m : tymap) : list name := map fst m.
(* every name of a has an entry in b with at least the same tags *)
Definition subb (a b : tymap) : bool :=
  forallb (fun x => match lookup a x, lookup b x with
                    | Some s, Some s' => inclb s s'
                    | Some _, None => false
                    | None, _ => true
                    end) (keys a).
Definition tymap_eqb (a b : tymap) : bool := subb a b && subb b a.

(* _TypeMap.__or__ *)
Definition join (a b : tymap) : tymap :=
  fold_left (fun acc x => match lookup b x with
                          | Some s => upd acc x (match lookup acc x with Some s0 => s0 ++ s | None => s end)
                          | None => acc
                          end) (keys b) a.

(* canonical representative of a type map (first entry per name, no repeated tags): keeps the maps of the
   executable worklist small; lookup-equivalent to its argument *)
Fixpoint dedup_ty (s : tyset) : tyset :=
  match s with
  | [] => []
  | t :: r => if mem_ty t r then dedup_ty r else t :: dedup_ty r
  end.
Fixpoint dedup_names (seen l : list name) : list name :=
  match l with
  | [] => []
  | x :: r => if existsb (Nat.eqb x) seen then dedup_names seen r else x :: dedup_names (x :: seen) r
  end.
Definition norm (m : tymap) : tymap :=
  flat_map (fun x => match lookup m x with Some s => [(x, dedup_ty s)] | None => [] end) (dedup_names [] (keys m)).

Section Worklist.
  Variable tr : node -> tymap -> tymap.     (* transfer, resolver fixed *)
  Variable g : graph.

  Definition set_sol (s : solution) (n : nat) (i o : tymap) : solution := (n, (i, o)) :: s.

  Definition visit (s : solution) (n : nat) : solution * bool :=
    match assoc (g_nodes g) n with
    | None => (s, false)
    | Some nd =>
        let tin := norm (fold_left (fun acc p => join acc (sol_out s p)) (prevs g n) []) in
        let tout := norm (tr nd tin) in
        (set_sol s n tin tout, negb (tymap_eqb (sol_out s n) tout))
    end.

  Fixpoint worklist (fuel : nat) (open closed : list nat) (s : solution) : option solution :=
    match fuel with
    | 0 => None
    | S f =>
        match open with
        | [] => Some s
        | n :: rest =>
            let closed' := n :: closed in
            let '(s', changed) := visit s n in
            let next := filter (fun m => changed || negb (existsb (Nat.eqb m) closed')) (succs g n) in
            worklist f (rest ++ next) closed' s'
        end
    end.

  Definition analyze (fuel : nat) : option solution := worklist fuel [g_entry g] [] [].
End Worklist.
